#!/usr/bin/env python3
"""Regenerates /verif/MANIFEST.json from the property modules present (run by hand)."""
import importlib
import json
import os
import sys

HERE = os.path.dirname(os.path.dirname(os.path.abspath(__file__)))
sys.path.insert(0, HERE)

TECH = {
    "C01": "runtime invariant at the API hook (real assess on every trace) + reference-interpreter oracle over generated programs and edit histories",
    "C02": "reference-interpreter oracle (scipy float64 joint log-density) on traces and on reference-sampled assess inputs",
    "C03": "history + executable model: importance vs reference weights, unique constraint values",
    "C04": "key-ledger taps with in-graph probes (exactly-once key consumption) + determinism re-runs + exact-enumeration G-tests with two-stage confirmation",
    "C05": "history + executable model: update chains vs reference (installed values, unchanged values, weight, backward constraint)",
    "C06": "history monitor: apply every returned backward request and compare with the recorded original trace",
    "C07": "history + unique values: changed ⊆ selected, weight = score change, identity on empty selection; statistical cells on discrete programs",
    "C08": "invariant at the hook (NoChange leaves carry the old value) + retagging differential runs",
    "C09": "differential + perturbation oracle on generated JAX functions through the incremental interpreter",
    "C10": "reference sum of selected log-densities + algebraic identities on real projections",
    "C11": "reference interpreter per element + same-key non-interference differential",
    "C12": "reference interpreter = documented Python loops, after every GFI op and index edit",
    "C13": "reference interpreter with the documented clamp, hostile indices and flag representations",
    "C14": "reference interpreter for mask semantics + flag-transition weight monitor",
    "C15": "reference interpreter for dimap/map/contramap + retdiff tag hook",
    "C16": "reference loops with exhaustive mask sequences per length",
    "C17": "lock-step finite-map model over a construction grammar, every intermediate map queried on the whole address universe",
    "C18": "bounded-exhaustive enumeration of selection terms against a Boolean-set model",
    "C19": "truth-table model + concrete/traced/vectorised differential",
    "C20": "numpy reference for FlagOp / tree_choose / multi_switch over flag and index representations",
    "C21": "round-trip monitors on generated pytrees (structure, leaves, static fields) through flatten/jit/vmap",
    "C22": "address ledger from the program AST vs trace; duplicate-address mutants; partial-choice-map assess",
    "C23": "differential monitor across execution modes (eager oracle vs jit vs vmap slices)",
    "C24": "differential monitor against TFP constructed directly, per exported distribution",
    "C25": "exact enumeration / closed-form oracle for Marginal weights + statistical unbiasedness cells",
    "C26": "per-particle exact weight identity vs reference densities + statistical evidence unbiasedness",
    "C27": "closed-form MH ratio oracle with proposals whose arguments depend on the state",
    "C28": "reference leapfrog integrator on observed momenta (taps on the HMC internals), energy and reversibility checks",
    "C29": "closed-form expectation/derivative oracle per ADEV primitive; statistical cells for REINFORCE-type estimators",
    "C30": "closed-form objective gradients for conjugate / enumerable model-guide pairs",
    "C31": "Python reference evaluator with record points; random walks over debugger operations",
    "C32": "same-key differential: closure / partial_apply / kwargs forms vs the underlying function",
    "C33": "AST-known traceable address sets vs invalid_subset on mixed choice maps",
    "C34": "subtrace vs parent's submap and the reference model's per-call score contribution",
    "C35": "same-key differential Mask-wrapped vs effective bare constraints + reference model",
    "C36": "differential: stateful interpreter with a no-op handler vs ordinary evaluation on generated JAX functions",
    "C37": "brute-force enumeration oracle over all latent sequences + exact-probability G-test for the sampler",
    "C38": "same-key differentials between derived and primitive GFI paths + reference model for request combinators",
}


def main():
    checks = []
    na = []
    props = [json.loads(l) for l in open(os.path.join(HERE, "properties.jsonl"))]
    skip = {}
    skip_path = os.path.join(HERE, "tools", "not_claimed.json")
    if os.path.exists(skip_path):
        skip = json.load(open(skip_path))
    for p in props:
        pid = p["id"]
        path = os.path.join(HERE, "vf", "props", pid.lower() + ".py")
        if pid in skip or not os.path.exists(path):
            na.append({"property_id": pid, "reason": skip.get(pid, "check not built yet in this framework (runtime monitoring applies; see DESIGN.md section 7)")})
            continue
        mod = importlib.import_module(f"vf.props.{pid.lower()}")
        cfg = mod.CONFIG
        doc = (mod.__doc__ or "").strip().split("\n\n")
        text = " ".join(doc[1:3]).replace("\n", " ").strip() if len(doc) > 1 else doc[0]
        checks.append(
            {
                "property_id": pid,
                "quick_cmd": f"./check {pid} --tier quick",
                "thorough_cmd": f"./check {pid} --tier thorough",
                "evidence_file": f"evidence/{pid}.json",
                "replay_cmd_template": f"./check {pid} --replay {{path}}",
                "engine": "vf",
                "level_claimed": {
                    "category": cfg.get("level", "exploration"),
                    "text": ("Runtime monitoring: the real genjax code is run on seeded generated workloads and every observed result is judged by an independent executable oracle. " + text)[:1400],
                    "design_ref": f"DESIGN.md section 7, {pid}",
                },
                "level_note": "Held only on the executions produced (bounded grammar, sizes and histories listed in the evidence 'rule'); trusted base: CPython, NumPy/SciPy reference densities, JAX itself (jit/vmap/lax/PRNG), the reference models under vf/. " + "; ".join(cfg.get("assumptions", []))[:600],
                "technique": TECH.get(pid, "runtime monitoring with an executable oracle"),
            }
        )
    man = {
        "version": 1,
        "setup_cmd": "./setup.sh",
        "hooks": {
            "guard": "GENJAX_VERIF",
            "enable": "no source hooks are needed: ./check sets GENJAX_VERIF=1 and the workers install taps from outside (class-attribute wrappers in vf/taps.py, sys.monitoring reach counters in vf/reach.py, jax.debug.callback probes); with the variable unset nothing of /verif is imported by genjax or its tests",
            "baseline_off_cmd": "cd /repo && /venv/bin/python -m pytest -ra -q -p no:cacheprovider --timeout=900 --continue-on-collection-errors",
            "source_commits": [],
            "add_only": True,
        },
        "engines": [
            {
                "name": "vf",
                "path": "vf/",
                "serves_properties": [c["property_id"] for c in checks],
                "kind_free_text": "runtime-monitoring harness: sharded subprocess workers, program/workload generators, reference interpreters (numpy/scipy), taps + in-graph probes, reach counters, statistical monitors with two-stage confirmation, known-findings classifier",
            }
        ],
        "checks": checks,
        "notes": "Exit codes: 0 held on what was observed; 1 VIOLATION (unknown signature); 2 INCONCLUSIVE (monitor observed too little / worker watchdog / statistical grey band). VERIF_SEED and VERIF_TIER are honoured; VERIF_REPO points the checks at another checkout (used for seeded-change validation); VERIF_JOBS caps parallel workers. Genuine defects repaired in /repo by 'fix:' commits are listed as status=fixed in known_findings.json; remaining ones are status=known and printed as KNOWN-FINDING.",
        "not_applicable": na,
    }
    with open(os.path.join(HERE, "MANIFEST.json"), "w") as f:
        json.dump(man, f, indent=1)
    print(f"{len(checks)} checks, {len(na)} not_applicable")


if __name__ == "__main__":
    main()
