#!/usr/bin/env python3
"""tools/record_seed.py <Cnn> <try_seed log> [note]  — folds a tools/try_seed.sh log into
seeded/<Cnn>/meta.json under "validation" (list of runs: which checks ran on the seeded tree,
which raised a VIOLATION and with which signatures)."""
import json, os, re, sys, time

HERE = os.path.dirname(os.path.dirname(os.path.abspath(__file__)))
sid, log = sys.argv[1], sys.argv[2]
note = sys.argv[3] if len(sys.argv) > 3 else ""
txt = open(log).read()
demo_ok = "expect exit 0)" in txt and re.search(r"expect exit 0\)\n(?:.*\n)*?exit=0", txt) is not None
m = re.search(r"expect exit 1\)\n((?:.*\n)*?)exit=(\d+)", txt)
demo_seeded = int(m.group(2)) if m else None
runs = []
for blk in re.split(r"== check ", txt)[1:]:
    chk = blk.split()[0]
    sigs = re.findall(r"violation signature: (\S+)", blk)
    summ = re.search(r"evaluations=(\d+) distinct=(\d+) violations=(\d+)", blk)
    runs.append({
        "check": chk,
        "caught": "VIOLATION property=" in blk,
        "inconclusive": "INCONCLUSIVE" in blk,
        "signatures": sigs[:8],
        "evaluations": int(summ.group(1)) if summ else None,
    })
p = os.path.join(HERE, "seeded", sid, "meta.json")
meta = json.load(open(p)) if os.path.exists(p) else {}
if not isinstance(meta, dict):
    meta = {"agent_meta": meta}
meta.setdefault("validation", []).append({
    "when": time.strftime("%Y-%m-%dT%H:%MZ", time.gmtime()),
    "how": "tools/try_seed.sh (scratch worktree of /repo HEAD + patch, VERIF_REPO, quick tier, seed 0)",
    "demo_exit_on_repo": 0 if demo_ok else None,
    "demo_exit_on_seeded": demo_seeded,
    "runs": runs,
    "note": note,
})
json.dump(meta, open(p, "w"), indent=1)
print(sid, [(r["check"], r["caught"]) for r in runs])
