#!/bin/sh
# tools/try_seed.sh <seed-dir-with-patch.diff-and-demo.py> <Cnn> [more checks...]
# Applies the seeded change to a scratch worktree of /repo (never to /repo itself), runs the
# demonstration before/after, runs the named quick checks against the scratch tree through
# VERIF_REPO, and removes the worktree.
SEED="$(cd "$1" && pwd)"; shift
W=/dev/shm/wseed_$$
git -C /repo worktree add -q "$W" HEAD || exit 2
if ! git -C "$W" apply "$SEED/patch.diff"; then echo "PATCH DOES NOT APPLY"; git -C /repo worktree remove --force "$W"; exit 2; fi
echo "== demo on /repo (expect exit 0)"; PYTHONPATH=/repo/src /venv/bin/python "$SEED/demo.py" 2>&1 | grep -v Warning | tail -3; 
PYTHONPATH=/repo/src /venv/bin/python "$SEED/demo.py" >/dev/null 2>&1; echo "exit=$?"
echo "== demo on seeded tree (expect exit 1)"; PYTHONPATH="$W/src" /venv/bin/python "$SEED/demo.py" 2>&1 | grep -v Warning | tail -6
PYTHONPATH="$W/src" /venv/bin/python "$SEED/demo.py" >/dev/null 2>&1; echo "exit=$?"
for c in "$@"; do
  echo "== check $c on seeded tree"
  (cd /verif && VERIF_REPO="$W" ./check "$c" --tier quick 2>&1 | tail -6 | cut -c1-240)
done
git -C /repo worktree remove --force "$W"
