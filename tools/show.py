#!/usr/bin/env python3
"""Print one witness per violation signature of an evidence file: tools/show.py C03 [substr]"""
import json, sys
ev = json.load(open(f"/verif/evidence/{sys.argv[1]}.json"))
sub = sys.argv[2] if len(sys.argv) > 2 else ""
cov = ev["coverage"]
print("counters:", {k: v for k, v in cov["counters"].items() if not k.startswith("kinds:")})
print("rejected:", cov["rejected_by_library"])
for w in cov.get("violation_witnesses", []):
    if sub not in w["signature"]:
        continue
    print("=" * 100)
    print(w["signature"], " case", w.get("case"))
    print("DETAIL:", w.get("detail", "")[:600])
    print(w.get("program", "")[-1500:])
    for h in w.get("history", []):
        print("   H:", h[:300])
for n in cov.get("notes", []):
    if "time budget" not in n:
        print("NOTE:", n[:1200])
