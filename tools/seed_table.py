#!/usr/bin/env python3
"""Prints the markdown table of seeded changes and which checks caught them (from seeded/*/meta.json)."""
import json, os, re, glob

HERE = os.path.dirname(os.path.dirname(os.path.abspath(__file__)))


def row(sid, path):
    m = json.load(open(path))
    summ = re.sub(r"\s+", " ", m.get("summary", ""))
    summ = summ.replace("|", "/")
    short = summ[:230] + ("…" if len(summ) > 230 else "")
    files = ", ".join(os.path.basename(f) for f in m.get("files_changed", []))
    caught, missed_first, notes = [], [], []
    own = sid.split("/")[0]
    for v in m.get("validation", []):
        for r in v["runs"]:
            if r["caught"] and r["check"] not in caught:
                caught.append(r["check"])
    # was the property's own check silent in an earlier run and firing in a later one?
    hist = [(r["caught"], v.get("note", "")) for v in m.get("validation", []) for r in v["runs"] if r["check"] == own]
    own_final = hist[-1][0] if hist else None
    widened = any(not c for c, _ in hist) and own_final
    st = "own check" if own_final else ("**own check silent**" if hist else "not run")
    if widened:
        st = "own check, after widening"
    others = [c for c in caught if c != own]
    return f"| {sid} | {files} | {short} | {st}{'; also ' + ', '.join(others) if others else ''} |"


print("| seed | file | change (agent's summary) | caught by |")
print("|---|---|---|---|")
for d in sorted(glob.glob(os.path.join(HERE, "seeded", "C*"))):
    sid = os.path.basename(d)
    if os.path.exists(os.path.join(d, "meta.json")):
        print(row(sid, os.path.join(d, "meta.json")))
    if os.path.exists(os.path.join(d, "2", "meta.json")):
        print(row(sid + "/2", os.path.join(d, "2", "meta.json")))
