"""Parent runner: ./check <Cnn> [--tier quick|thorough] [--replay file]

Splits a property check into shards, runs each shard as its own subprocess (never a
multiprocessing.Pool: a pool hangs forever when a child dies), aggregates the worker
summaries, classifies violations against known_findings.json, writes the evidence file and
prints the verdict lines.

Exit codes: 0 held on what was observed; 1 VIOLATION (unknown signature); 2 INCONCLUSIVE.
"""

from __future__ import annotations

import argparse
import concurrent.futures as cf
import importlib
import json
import os
import shutil
import subprocess
import sys
import time

from vf import findings

HERE = os.path.dirname(os.path.dirname(os.path.abspath(__file__)))
EVID = os.path.join(HERE, "evidence")
PY = sys.executable


def repo_root() -> str:
    return os.environ.get("VERIF_REPO", "/repo")


def repo_state(root: str) -> dict:
    def git(*a):
        try:
            return subprocess.run(
                ["git", "-C", root, *a], capture_output=True, text=True, timeout=30
            ).stdout.strip()
        except Exception:
            return ""

    head = git("rev-parse", "HEAD")
    dirty = bool(git("status", "--porcelain", "--", "src"))
    return {"root": root, "head": head, "dirty_src": dirty}


def run_worker(prop, tier, seed, shard, nshards, outdir, timeout, replay=None):
    out = os.path.join(outdir, f"{prop}.{shard}.json")
    cmd = [
        PY,
        "-X",
        "faulthandler",
        "-m",
        "vf.worker",
        "--prop",
        prop,
        "--tier",
        tier,
        "--seed",
        str(seed),
        "--shard",
        str(shard),
        "--nshards",
        str(nshards),
        "--out",
        out,
    ]
    if replay:
        cmd += ["--replay", replay]
    env = dict(os.environ)
    env.setdefault("PYTHONHASHSEED", "0")
    env["XLA_FLAGS"] = (
        env.get("XLA_FLAGS", "")
        + " --xla_cpu_multi_thread_eigen=false --xla_backend_optimization_level=0"
        + " --xla_llvm_disable_expensive_passes=true"
    ).strip()
    env["OMP_NUM_THREADS"] = "1"
    env["OPENBLAS_NUM_THREADS"] = "1"
    env["MKL_NUM_THREADS"] = "1"
    env["JAX_PLATFORMS"] = "cpu"
    env["GENJAX_VERIF"] = "1"
    t0 = time.time()
    log = os.path.join(outdir, f"{prop}.{shard}.log")
    status = "ok"
    try:
        with open(log, "w") as lf:
            p = subprocess.run(
                cmd, stdout=lf, stderr=subprocess.STDOUT, timeout=timeout, env=env, cwd=HERE
            )
        if p.returncode != 0:
            status = f"exit{p.returncode}"
    except subprocess.TimeoutExpired:
        status = "watchdog"
    res = None
    if os.path.exists(out):
        try:
            with open(out) as f:
                res = json.load(f)
        except Exception:
            res = None
    tail = ""
    try:
        with open(log) as f:
            tail = f.read()[-3000:]
    except Exception:
        pass
    return {
        "shard": shard,
        "status": status,
        "wall_s": time.time() - t0,
        "result": res,
        "log_tail": tail,
    }


def merge_counts(dst: dict, src: dict):
    for k, v in src.items():
        if isinstance(v, dict):
            merge_counts(dst.setdefault(k, {}), v)
        elif isinstance(v, (int, float)):
            dst[k] = dst.get(k, 0) + v
        else:
            dst[k] = v


def main(argv=None):
    ap = argparse.ArgumentParser()
    ap.add_argument("prop")
    ap.add_argument("--tier", default=os.environ.get("VERIF_TIER", "quick"))
    ap.add_argument("--replay", default=None)
    ap.add_argument("--shards", type=int, default=None)
    ap.add_argument("--keep-work", action="store_true")
    a = ap.parse_args(argv)
    prop = a.prop.upper()
    tier = a.tier if a.tier in ("quick", "thorough") else "quick"
    try:
        seed = int(os.environ.get("VERIF_SEED", "0"))
    except ValueError:
        seed = 0

    mod = importlib.import_module(f"vf.props.{prop.lower()}")
    cfg = mod.CONFIG
    nshards = a.shards or cfg.get("shards", {}).get(tier, 16)
    timeout = cfg.get("timeout_s", {}).get(tier, 900 if tier == "quick" else 3600)
    if a.replay:
        nshards = 1

    work = os.path.join(EVID, "work", f"{prop}.{tier}.{os.getpid()}")
    os.makedirs(work, exist_ok=True)
    os.makedirs(os.path.join(EVID, "replays"), exist_ok=True)
    evid_path = os.path.join(EVID, f"{prop}.json")
    if os.path.realpath(repo_root()) != "/repo":
        # runs against a scratch copy (seeded-change validation) never touch the evidence of /repo
        os.makedirs(os.path.join(EVID, "scratch"), exist_ok=True)
        evid_path = os.path.join(EVID, "scratch", f"{prop}.json")

    t0 = time.time()
    maxpar = int(os.environ.get("VERIF_JOBS", str(os.cpu_count() or 4)))
    results = []
    with cf.ThreadPoolExecutor(max_workers=min(maxpar, nshards)) as ex:
        futs = [
            ex.submit(run_worker, prop, tier, seed, s, nshards, work, timeout, a.replay)
            for s in range(nshards)
        ]
        for f in futs:
            results.append(f.result())
    wall = time.time() - t0

    # ---- aggregate
    evaluations = 0
    fps = set()
    counters: dict = {}
    reach: dict = {}
    violations = []
    samples = []
    rejected: dict = {}
    notes = []
    broken = []
    for r in results:
        res = r["result"]
        if r["status"] != "ok" or res is None:
            broken.append((r["shard"], r["status"], r["log_tail"][-800:]))
            if res is None:
                continue
        evaluations += res.get("evaluations", 0)
        fps.update(res.get("fingerprints", []))
        merge_counts(counters, res.get("counters", {}))
        merge_counts(reach, res.get("reach", {}))
        merge_counts(rejected, res.get("rejected", {}))
        violations.extend(res.get("violations", []))
        if len(samples) < 5:
            samples.extend(res.get("samples", [])[: max(1, 5 - len(samples))])
        notes.extend(res.get("notes", []))

    known = findings.load()
    unknown, known_hits = findings.classify(prop, violations, known)

    # ---- verdict
    inconclusive = []
    if broken:
        for sh, st, tail in broken:
            inconclusive.append(f"shard {sh} {st}")
    need = cfg.get("reach_required", [])
    for name in need:
        if reach.get(name, 0) <= 0:
            inconclusive.append(f"reach counter zero: {name}")
    for name in cfg.get("counters_required", []):
        if counters.get(name, 0) <= 0:
            inconclusive.append(f"monitor counter zero: {name}")
    for name in cfg.get("counters_inconclusive", []):
        if counters.get(name, 0) > 0:
            inconclusive.append(f"{name}={counters.get(name)} (statistical grey band / undecided cells)")
    if counters.get("harness_errors", 0) > 0:
        inconclusive.append(f"harness_errors={counters['harness_errors']} (a bug in the checking machinery, see notes)")
    if evaluations < cfg.get("min_evaluations", 1) or len(fps) < 2:
        inconclusive.append(
            f"too few observations (evaluations={evaluations}, distinct={len(fps)})"
        )

    if a.replay:
        # a replay re-runs one witness: coverage thresholds do not apply, evidence is not rewritten
        inconclusive = [x for x in inconclusive if x.startswith("shard")]
        evid_path = os.path.join(EVID, "replays", f"{prop}.last_replay.json")
    level = cfg.get("level", "exploration")
    coverage = {
        "evaluations": int(evaluations),
        "distinct_nontrivial": int(len(fps)),
        "rule": cfg.get("rule", ""),
        "samples": samples[:5] if samples else [],
        "counters": counters,
        "reach": reach,
        "rejected_by_library": rejected,
        "known_finding_hits": {k: len(v) for k, v in known_hits.items()},
        "shards": nshards,
        "shard_status": {str(r["shard"]): r["status"] for r in results},
        "repo": repo_state(repo_root()),
        "inconclusive_reasons": inconclusive,
    }
    if cfg.get("exhaustive"):
        coverage["exhaustive"] = bool(counters.get("exhaustive_complete", 0) >= 1)
    if notes:
        notes.sort(key=lambda n: 0 if "harness error" in str(n) else 1)
        coverage["notes"] = notes[:20]
    replay_path = None
    if unknown:
        first = unknown[0]
        replay_path = os.path.join(
            EVID, "replays", f"{prop}.{tier}.seed{seed}.{abs(hash(first['signature'])) % 10**8}.json"
        )
        with open(replay_path, "w") as f:
            json.dump(first, f, indent=1, default=str)
        coverage["violation_signatures"] = sorted({v["signature"] for v in unknown})
        per_sig = {}
        for v in unknown:
            per_sig.setdefault(v["signature"], v)
        coverage["violation_witnesses"] = list(per_sig.values())[:40]
    ev = {
        "property_id": prop,
        "tier": tier,
        "seed": seed,
        "level": level,
        "coverage": coverage,
        "assumptions": cfg.get("assumptions", []),
        "wall_s": round(wall, 2),
        "violations": len(unknown),
    }
    tmp = evid_path + ".tmp"
    with open(tmp, "w") as f:
        json.dump(ev, f, indent=1, default=str)
    os.replace(tmp, evid_path)

    # ---- output
    for sig, hits in sorted(known_hits.items()):
        print(f"KNOWN-FINDING: property={prop} {known[sig]['what']} [{sig}] x{len(hits)}")
    print(
        f"{prop} tier={tier} seed={seed} evaluations={evaluations} distinct={len(fps)} "
        f"violations={len(unknown)} known_hits={sum(len(v) for v in known_hits.values())} "
        f"wall={wall:.1f}s"
    )
    if not a.keep_work:
        shutil.rmtree(work, ignore_errors=True)
    if unknown:
        sigs = sorted({v["signature"] for v in unknown})
        for s in sigs[:12]:
            print(f"  violation signature: {s}")
        print(f"VIOLATION property={prop} replay={replay_path}")
        return 1
    if inconclusive:
        for sh, st, tail in broken[:3]:
            print(f"--- shard {sh} {st} log tail ---\n{tail}")
        for n in [n for n in notes if "harness error" in str(n)][:3]:
            print(f"--- {str(n)[:1500]}")
        print(f"INCONCLUSIVE property={prop} reason={'; '.join(inconclusive[:6])}")
        return 2
    return 0


if __name__ == "__main__":
    sys.exit(main())
