"""vf: runtime-monitoring machinery for the GenJAX properties (see /verif/DESIGN.md)."""
