"""Oracle helpers shared by C09 and C36 (functions from vf/gen/jaxfns.py).

`Reference(spec)` holds the three ordinary evaluations of a generated function on its input
sets: numpy float64 evaluation of the AST (independent model), eager `f(*args)` and
`jax.jit(f)(*args)`.  The three must agree (self-check) before any genjax result is judged; a
disagreement is a defect of the generator / an ill-conditioned program and the case is skipped
(counted), never reported against genjax.
"""

from __future__ import annotations

import numpy as np

from vf import common
from vf.gen import jaxfns as G

LOOSE = 5e-3

_CLASS = {}
for _op in ("cond", "switch", "scan", "fori", "while"):
    _CLASS[_op] = "control-" + _op
for _op in ("sortkv", "sort3", "topk", "qr", "eigh", "divmod"):
    _CLASS[_op] = "multi-" + _op
for _op in ("cjvp", "cvjp", "ckpt", "njit", "relu", "softplus", "sigmoid", "stopg"):
    _CLASS[_op] = "call-" + _op
for _op in ("index", "roll", "atset", "cat", "rev"):
    _CLASS[_op] = "static-index"
for _op in ("dyn", "dynclip", "dynslice", "dynupd", "atseti", "ataddi", "take"):
    _CLASS[_op] = "dynamic-index"
for _op in ("where", "select", "wherev", "leaky"):
    _CLASS[_op] = "select"
for _op in list(G.REDUCE) + ["dot", "argmax", "cumsum", "sortv", "softmax", "cummax", "matvec"]:
    _CLASS[_op] = "reduce"
for _op in ("iinc", "imod", "iclip", "imin", "floor", "itof", "ilt", "ieq"):
    _CLASS[_op] = "int-arith"


def producer_classes(spec):
    """Mechanism label of every output item: which construct produced it."""
    prod = {}
    for st in spec.stmts:
        for nm, _ in st.outs:
            prod[nm] = _CLASS.get(st.op, "elementwise")
    leaves = {nm for nm, _, _ in spec.leaves}
    out = []
    for o in spec.out_items():
        if o[0] == "lit":
            out.append("literal-output")
        elif o[1] in leaves:
            out.append("passthrough-input")
        elif o[1] in spec.consts:
            out.append("constant-output")
        else:
            out.append(prod.get(o[1], "elementwise"))
    return out


def feature_class(spec):
    """Coarse structural class of a function (for fingerprints)."""
    fs = sorted(f for f in spec.features if f.split("-")[0] in ("cond", "switch", "scan", "fori", "while", "multi"))
    return tuple(fs)


def has_control_or_multi(spec):
    return len(feature_class(spec)) > 0


def leaf_np(x):
    return np.asarray(x)


def same_value(ref, got, terms=1, tol=None):
    """Value equality of one output leaf: ints/bools exact, floats with vf.common.close."""
    r = np.asarray(ref)
    g = np.asarray(got)
    if r.shape != g.shape:
        return False
    if r.dtype.kind in "iub" and g.dtype.kind in "iub":
        return bool(np.array_equal(r.astype(np.int64), g.astype(np.int64)))
    if tol is not None:
        return bool(np.allclose(r.astype(np.float64), g.astype(np.float64), rtol=tol, atol=tol))
    return common.close(g, r, terms=terms)


def same_aval(ref, got):
    """Shape and dtype equality of two array-like leaves."""
    r = np.asarray(ref)
    g = np.asarray(got)
    return r.shape == g.shape and r.dtype == g.dtype


def identical(a, b):
    a = np.asarray(a)
    b = np.asarray(b)
    if a.shape != b.shape:
        return False
    if a.dtype.kind == "f" or b.dtype.kind == "f":
        return bool(np.array_equal(a, b, equal_nan=True))
    return bool(np.array_equal(a, b))


class Reference:
    """Ordinary evaluations of one generated function."""

    def __init__(self, spec):
        import jax

        self.spec = spec
        self.src, self.f = G.build(spec)
        self.jf = jax.jit(self.f)
        self.terms = max(4, len(spec.stmts) * 2)
        self.items = spec.out_items()
        self.is_lit = [o[0] == "lit" for o in self.items]
        self.classes = producer_classes(spec)
        self.args = [G.jax_args(spec, s) for s in spec.input_sets]
        self.np_ref = []
        self.eager = []
        self.eager_tree = []
        self.jit = []
        self.ok = False
        self.why = ""

    def compute(self, eager_sets=(0,)):
        """Run numpy / eager / jit evaluations and the self-check.  Returns True when the
        function is a usable oracle.  Eager (op-by-op) evaluation is expensive (every control-flow
        primitive compiles) and is only done for the input sets in `eager_sets`; for the others
        `eager` holds the jitted result."""
        import jax.tree_util as jtu

        spec = self.spec
        try:
            for si, (s, a) in enumerate(zip(spec.input_sets, self.args)):
                ref, _ = G.evaluate(spec, s, strict=False)
                self.np_ref.append(ref)
                jout = self.jf(*a)
                self.jit.append(jtu.tree_leaves(jout))
                if si in eager_sets:
                    out = self.f(*a)
                    self.eager_tree.append(out)
                    self.eager.append(jtu.tree_leaves(out))
                else:
                    self.eager_tree.append(jout)
                    self.eager.append(jtu.tree_leaves(jout))
        except Exception as e:  # a defect of the generator, not of genjax
            self.why = f"plain evaluation raised {type(e).__name__}: {str(e)[:200]}"
            return False
        for ref, e, j in zip(self.np_ref, self.eager, self.jit):
            if not (len(ref) == len(e) == len(j)):
                self.why = "output arity differs between numpy model and jax function"
                return False
            for r, x, y in zip(ref, e, j):
                if not np.all(np.isfinite(np.asarray(x, dtype=np.float64))):
                    self.why = "non-finite reference"
                    return False
                if not (same_value(r, x, tol=LOOSE) and same_value(r, y, tol=LOOSE)):
                    self.why = "numpy model, eager and jitted evaluation disagree"
                    return False
        self.ok = True
        return True

    def struct(self, tree):
        import jax.tree_util as jtu

        return jtu.tree_structure(jtu.tree_map(lambda _: 0, tree))

    def jit_leaves(self, leafvals):
        import jax.tree_util as jtu

        return jtu.tree_leaves(self.jf(*G.jax_args(self.spec, leafvals)))


# ------------------------------------------------------------------ fixed corpus (any dtype)


def same_value_any(ref, got, terms=4):
    """Value equality for arbitrary leaves (PRNG keys, complex, small floats, ints, bools)."""
    try:
        r = G.leaf_to_np(ref)
        g = G.leaf_to_np(got)
    except Exception:
        return False
    if r.shape != g.shape:
        return False
    if r.dtype.kind == "c" or g.dtype.kind == "c":
        return common.close(np.real(g), np.real(r), terms=terms) and common.close(np.imag(g), np.imag(r), terms=terms)
    if r.dtype.kind in "iub" and g.dtype.kind in "iub":
        return bool(np.array_equal(r.astype(np.int64), g.astype(np.int64)))
    return common.close(g.astype(np.float64), r.astype(np.float64), terms=terms)


def identical_any(a, b):
    a = G.leaf_to_np(a)
    b = G.leaf_to_np(b)
    if a.shape != b.shape:
        return False
    return bool(np.array_equal(a, b, equal_nan=(a.dtype.kind in "fc")))


def struct_of(tree, is_leaf=None):
    import jax.tree_util as jtu

    return jtu.tree_structure(jtu.tree_map(lambda _: 0, tree, is_leaf=is_leaf))
