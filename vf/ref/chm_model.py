"""C17 reference model: a choice map as a finite map  address -> (value, valid).

Independent of genjax (plain numpy / python).  A model map is a small normal-form tree

    EMPTY                        the statically empty map
    Leaf(val, flag, fshape)      a value (float64 ndarray of any shape) with an elementwise
                                 validity flag (bool ndarray broadcast to val.shape).
                                 `bare`  : the value was never masked (library holds a raw value)
                                 `fshape`: shape of the flag as the user supplied it (() scalar,
                                           (n,) vectorised) - only used to predict the library's
                                           documented shape refusals, never for values.
    Dict({str: node})            a static address level
    Index({int: node}, shadow)   an explicit index level: `kids[i]` is the map stored under
                                 index i; `shadow` is what the *library* statically keeps for
                                 every other index when the index was an array (the same
                                 skeleton with every flag False, i.e. semantically empty).
                                 `vec` remembers the index vector (position -> index) so that a
                                 vectorised flag can be applied along it.
    Unspec(reason)               a position where the documented semantics do not determine the
                                 result (mixed kinds in a union, shape clashes, ...).  Nothing
                                 at or below an Unspec position is ever compared; the library
                                 may refuse such a construction/lookup (reason -> mechanisms).

Semantics implemented (what the documentation states, nothing about the implementation):
  * lookup by a static component / an integer / a slice;
  * extend(component)          prefixes the addresses;
  * union(a, b)                left-biased:  a's entry where a's entry is valid, else b's;
  * mask(flag)                 keeps entries where flag holds; python False empties the map;
  * switch(i, maps)            the map at position i, every other map masked out;
  * filter(pred)               keeps the entries whose *static* address satisfies pred
                               (index levels are transparent);
  * static addresses           the static parts of the addresses of the entries.
Semantic equality of lookup results: an absent entry == an entry whose flag is False.
"""

from __future__ import annotations

import numpy as np


class Node:
    pass


class _Empty(Node):
    def __repr__(self):
        return "EMPTY"


EMPTY = _Empty()


class Unspec(Node):
    def __init__(self, reason):
        self.reason = reason

    def __repr__(self):
        return f"Unspec({self.reason})"


class Leaf(Node):
    def __init__(self, val, flag=True, bare=True, fshape=(), taint=frozenset()):
        self.val = np.asarray(val, dtype=np.float64)
        self.flag = _bflag(flag, self.val.shape)
        self.bare = bool(bare)
        self.fshape = tuple(fshape)
        self.taint = frozenset(taint)

    def __repr__(self):
        return f"Leaf(shape={self.val.shape}, valid={int(self.flag.sum())}/{self.flag.size}, bare={self.bare}, fshape={self.fshape})"


def _bflag(flag, shape):
    """Broadcast a prefix-shaped flag to the full element shape."""
    f = np.asarray(flag, dtype=bool)
    if f.ndim == 0:
        return np.full(tuple(shape), bool(f), dtype=bool)
    if f.shape == tuple(shape):
        return f.copy()
    assert f.shape == tuple(shape)[: f.ndim], (f.shape, shape)
    return np.broadcast_to(f.reshape(f.shape + (1,) * (len(shape) - f.ndim)), shape).copy()


class Dict(Node):
    def __init__(self, kids):
        self.kids = dict(kids)

    def __repr__(self):
        return "Dict{" + ", ".join(f"{k}: {v!r}" for k, v in sorted(self.kids.items())) + "}"


class Index(Node):
    def __init__(self, kids, shadow=EMPTY, vec=None):
        self.kids = dict(kids)
        self.shadow = shadow
        self.vec = tuple(vec) if vec is not None else None

    @property
    def arr(self):
        """True when the library holds the index as an array (lookups then yield masked values)."""
        return self.shadow is not EMPTY or self.vec is not None

    def __repr__(self):
        return "Index{" + ", ".join(f"{k}: {v!r}" for k, v in sorted(self.kids.items())) + f"; shadow={self.shadow!r}" + "}"


def mk_dict(kids):
    kids = {k: v for k, v in kids.items() if v is not EMPTY}
    return Dict(kids) if kids else EMPTY


# ------------------------------------------------------------------ generic traversals


def map_leaves(node, f):
    if node is EMPTY or isinstance(node, Unspec):
        return node
    if isinstance(node, Leaf):
        return f(node)
    if isinstance(node, Dict):
        return mk_dict({k: map_leaves(v, f) for k, v in node.kids.items()})
    if isinstance(node, Index):
        return mk_index({k: map_leaves(v, f) for k, v in node.kids.items()}, map_leaves(node.shadow, f), node.vec)
    raise TypeError(node)


def mk_index(kids, shadow, vec):
    kids = {k: v for k, v in kids.items() if v is not EMPTY}
    if not kids and shadow is EMPTY:
        return EMPTY
    return Index(kids, shadow, vec)


def invalidate(node):
    """Same skeleton, every flag False (held by the library as array flags)."""
    return map_leaves(node, lambda l: Leaf(l.val, np.zeros(l.val.shape, bool), bare=False, fshape=l.fshape, taint=l.taint))


def has_unspec(node):
    if isinstance(node, Unspec):
        return True
    if isinstance(node, Dict):
        return any(has_unspec(v) for v in node.kids.values())
    if isinstance(node, Index):
        return any(has_unspec(v) for v in node.kids.values()) or has_unspec(node.shadow)
    return False


def unspec_reasons(node, acc=None):
    acc = set() if acc is None else acc
    if isinstance(node, Unspec):
        acc.add(node.reason)
    elif isinstance(node, Dict):
        for v in node.kids.values():
            unspec_reasons(v, acc)
    elif isinstance(node, Index):
        for v in node.kids.values():
            unspec_reasons(v, acc)
        unspec_reasons(node.shadow, acc)
    return acc


def leaves(node, path=(), shadow=False):
    """Yield (path, leaf_or_unspec, is_shadow). Paths hold str and int components;
    a shadow level is recorded as the component None."""
    if node is EMPTY:
        return
    if isinstance(node, (Leaf, Unspec)):
        yield path, node, shadow
    elif isinstance(node, Dict):
        for k in sorted(node.kids):
            yield from leaves(node.kids[k], path + (k,), shadow)
    elif isinstance(node, Index):
        for k in sorted(node.kids):
            yield from leaves(node.kids[k], path + (k,), shadow)
        yield from leaves(node.shadow, path + (None,), True)


def static_part(path):
    return tuple(c for c in path if isinstance(c, str))


def has_index_level(path):
    return any(not isinstance(c, str) for c in path)


def dense_dim(node):
    """Leading dimension shared by every leaf below `node` when the node has no explicit
    index level (a 'vectorised' map as produced by C[:, ...].set / vmap): int, or None."""
    dims = set()
    for _p, l, _s in leaves(node):
        if not isinstance(l, Leaf) or l.val.ndim == 0:
            return None
        dims.add(l.val.shape[0])
    if _has_index(node) or len(dims) != 1:
        return None
    return dims.pop()


def _has_index(node):
    if isinstance(node, Index):
        return True
    if isinstance(node, Dict):
        return any(_has_index(v) for v in node.kids.values())
    return False


def any_valid(node):
    return any(isinstance(l, Leaf) and not s and l.flag.any() for _p, l, s in leaves(node))


# ------------------------------------------------------------------ construction


def leaf(val, flag=None, fshape=()):
    """flag None: a bare value. flag given (array-held by the library): masked value."""
    if flag is None:
        return Leaf(val, True, bare=True, fshape=())
    return Leaf(val, flag, bare=False, fshape=fshape)


def extend(node, comp):
    """comp: ('s', name) | ('i', k, 'py'|'arr') | ('v', (k0, k1, ...)) | ('sl',)"""
    if node is EMPTY:
        return EMPTY
    kind = comp[0]
    if kind == "s":
        return Dict({comp[1]: node})
    if kind == "sl":
        return node
    if isinstance(node, Unspec):
        return node
    if kind == "i":
        shadow = EMPTY if comp[2] == "py" else invalidate(node)
        return Index({int(comp[1]): node}, shadow, None)
    if kind == "v":
        idxs = [int(k) for k in comp[1]]
        kids = {}
        sl0 = None
        for j, k in enumerate(idxs):
            sj = take(node, j, building=True)
            if isinstance(sj, Unspec):
                return sj
            if k not in kids:  # a repeated index resolves to its first position
                kids[k] = sj
            sl0 = sj if sl0 is None else sl0
        return Index(kids, invalidate(sl0), tuple(idxs))
    raise ValueError(comp)


def take(node, j, building=False):
    """Element j along the leading axis of every leaf (a vectorised map's j-th member)."""
    if node is EMPTY:
        return EMPTY
    if isinstance(node, Unspec):
        return node
    if isinstance(node, Leaf):
        if node.val.ndim == 0:
            return Unspec("index-into-scalar")
        if not (0 <= j < node.val.shape[0]):
            return Unspec("index-out-of-range-dense")
        return Leaf(node.val[j], node.flag[j], bare=node.bare, fshape=node.fshape[1:], taint=node.taint)
    if isinstance(node, Dict):
        if has_taint(node, "sw"):
            return Unspec("leading-index-over-switch")
        out = {}
        for k, v in node.kids.items():
            r = take(v, j, building)
            if isinstance(r, Unspec):
                return r
            out[k] = r
        return mk_dict(out)
    if isinstance(node, Index):
        return Unspec("leading-index-over-index-level")
    raise TypeError(node)


def take_slice(node, sl):
    if node is EMPTY or isinstance(node, Unspec):
        return node
    if isinstance(node, Leaf):
        if node.val.ndim == 0:
            return Unspec("index-into-scalar")
        fs = node.fshape
        if fs:
            fs = (len(range(*sl.indices(fs[0]))),) + tuple(fs[1:])
        return Leaf(node.val[sl], node.flag[sl], bare=node.bare, fshape=fs, taint=node.taint)
    if isinstance(node, Dict):
        if has_taint(node, "sw"):
            return Unspec("leading-index-over-switch")
        out = {}
        for k, v in node.kids.items():
            r = take_slice(v, sl)
            if isinstance(r, Unspec):
                return r
            out[k] = r
        return mk_dict(out)
    return Unspec("slice-over-index-level")


def skeleton_only(node):
    """All-invalid skeleton whose clashes are irrelevant (semantically empty whatever happens)."""
    if isinstance(node, Unspec):
        return EMPTY
    if isinstance(node, Dict):
        return mk_dict({k: skeleton_only(v) for k, v in node.kids.items()})
    if isinstance(node, Index):
        return mk_index({k: skeleton_only(v) for k, v in node.kids.items()}, skeleton_only(node.shadow), node.vec)
    return node


def unbare(node):
    return map_leaves(node, lambda l: Leaf(l.val, l.flag, bare=False, fshape=l.fshape, taint=l.taint))


def lookup1(node, comp, arr_query=False):
    """One lookup step. comp: str | int | slice. arr_query: the integer is given as a 0-d array
    (only matters for predicting whether the library holds the result as a masked value)."""
    if node is EMPTY:
        return EMPTY
    if isinstance(node, Unspec):
        return node
    if isinstance(comp, str):
        if isinstance(node, Dict):
            return node.kids.get(comp, EMPTY)
        return EMPTY  # values and index levels have no static children
    if isinstance(comp, slice):
        return take_slice(node, comp)
    comp = int(comp)
    if isinstance(node, Index):
        if comp in node.kids:
            r = node.kids[comp]
        elif node.shadow is not EMPTY:
            r = node.shadow
        else:
            # nothing is stored under this index; the library may still keep the (all-invalid)
            # skeleton of the stored maps, which matters only for what it refuses further down
            r = EMPTY
            for k in sorted(node.kids):
                r = union(r, invalidate(node.kids[k]))
            return skeleton_only(r)
        return unbare(r) if (node.arr or arr_query) else r
    return take(node, comp)


def lookup(node, path, arr_query=False):
    for c in path:
        node = lookup1(node, c, arr_query)
    return node


def index_merge_reasons(node, path):
    """Reasons for which the library may refuse a lookup along `path` although the model is
    well defined: below an index level the library merges the (masked) skeletons of the maps
    stored under *all* indices of that level, so kinds / shapes that differ between indices
    clash, and the rest of the path is looked up in that merged skeleton as well."""
    reasons = set()

    def walk(nd, rest, depth=0):
        for i, c in enumerate(rest):
            if nd is EMPTY:
                return
            if isinstance(nd, Unspec):
                reasons.add(nd.reason)
                return
            if isinstance(nd, Index) and depth < 4:
                acc = invalidate(nd.shadow)
                for k in sorted(nd.kids):
                    acc = union(acc, invalidate(nd.kids[k]))
                unspec_reasons(acc, reasons)
                walk(skeleton_only(acc), rest[i + 1:], depth + 1)
            nd = lookup1(nd, c)
        if isinstance(nd, Unspec):
            reasons.add(nd.reason)

    walk(node, tuple(path))
    return reasons


def union(a, b):
    """Left-biased union."""
    if b is EMPTY:
        return a
    if a is EMPTY:
        return b
    r = _union(a, b)
    # a union with a switch-built map is itself held as a switch by the library (only relevant
    # for which leading-index lookups it refuses)
    if has_taint(a, "sw") or has_taint(b, "sw"):
        r = add_taint(r, "sw")
    return r


def _union(a, b):
    if isinstance(a, Unspec):
        return a
    if isinstance(b, Unspec):
        return b
    if isinstance(a, Leaf) and isinstance(b, Leaf):
        if a.val.shape != b.val.shape:
            return Unspec("leaf-shape-clash")
        if a.fshape != b.fshape:
            return Unspec("flag-shape-clash")
        if a.bare:
            return a
        taint = a.taint | b.taint
        if a.fshape and a.val.ndim > len(a.fshape):
            taint = taint | {"vecor"}
        return Leaf(np.where(a.flag, a.val, b.val), a.flag | b.flag, bare=False, fshape=a.fshape, taint=taint)
    if isinstance(a, Dict) and isinstance(b, Dict):
        out = {}
        for k in set(a.kids) | set(b.kids):
            out[k] = union(a.kids.get(k, EMPTY), b.kids.get(k, EMPTY))
        return mk_dict(out)
    if isinstance(a, Index) and isinstance(b, Index):
        out = {}
        for k in set(a.kids) | set(b.kids):
            out[k] = union(a.kids.get(k, a.shadow), b.kids.get(k, b.shadow))
        vec = a.vec if (a.vec is not None and a.vec == b.vec) else None
        return mk_index(out, union(a.shadow, b.shadow), vec)
    if isinstance(a, Leaf) or isinstance(b, Leaf):
        return Unspec("value-vs-submap")
    return Unspec("index-vs-static-level")


def mask(node, flag, concrete):
    """flag: python bool (concrete=True) or a bool ndarray of shape () or (n,)."""
    if concrete:
        if bool(flag):
            return node
        # semantically empty. (The library drops never-masked values statically, and keeps the
        # skeleton of already-masked ones with a False flag: same observation.)
        return map_leaves(node, lambda l: EMPTY if l.bare else Leaf(l.val, np.zeros(l.val.shape, bool), bare=False, fshape=l.fshape, taint=l.taint))
    f = np.asarray(flag, dtype=bool)
    if f.ndim == 0:
        return map_leaves(node, lambda l: Leaf(l.val, l.flag & bool(f), bare=False, fshape=l.fshape, taint=l.taint))
    return _mask_vec(node, f)


def _mask_vec(node, f):
    n = f.shape[0]
    if node is EMPTY or isinstance(node, Unspec):
        return node
    if isinstance(node, Leaf):
        if node.val.ndim == 0 or node.val.shape[0] != n:
            return Unspec("vector-flag-vs-leaf-shape")
        if not node.bare and node.fshape != (n,):
            return Unspec("vector-flag-vs-scalar-flag")
        return Leaf(node.val, node.flag & _bflag(f, node.val.shape), bare=False, fshape=(n,), taint=node.taint)
    if isinstance(node, Dict):
        return mk_dict({k: _mask_vec(v, f) for k, v in node.kids.items()})
    if isinstance(node, Index):
        if node.vec is not None:
            if len(node.vec) != n:
                return Unspec("vector-flag-vs-leaf-shape")
            if any(isinstance(l, Leaf) and not l.bare for _p, l, _s in leaves(node)):
                # the flag meets the stored (un-sliced) leaves; whether their own flag was scalar
                # (refused) or vectorised (fine) is not recorded in the sliced normal form
                return Unspec("vector-flag-vs-scalar-flag")
            kids = {}
            seen = set()
            for j, k in enumerate(node.vec):
                if k in seen:
                    continue
                seen.add(k)
                kids[k] = mask(node.kids.get(k, EMPTY), f[j], False)
            return mk_index(kids, node.shadow, node.vec)
        return mk_index({k: _mask_vec(v, f) for k, v in node.kids.items()}, _mask_vec(node.shadow, f), None)
    raise TypeError(node)


def switch(idx, nodes, concrete):
    if concrete:
        return nodes[idx]
    acc = EMPTY
    for k, nd in enumerate(nodes):
        acc = union(acc, add_taint(mask(nd, np.asarray(k == int(idx)), False), "sw"))
    return acc


def add_taint(node, t):
    return map_leaves(node, lambda l: Leaf(l.val, l.flag, bare=l.bare, fshape=l.fshape, taint=l.taint | {t}))


def has_taint(node, t):
    return any(isinstance(l, Leaf) and t in l.taint for _p, l, _s in leaves(node))


def filter_static(node, pred, spath=()):
    """Keep the entries whose static address satisfies pred; index levels are transparent."""
    if node is EMPTY or isinstance(node, Unspec):
        return node
    if isinstance(node, Leaf):
        return node if pred(spath) else EMPTY
    if isinstance(node, Dict):
        return mk_dict({k: filter_static(v, pred, spath + (k,)) for k, v in node.kids.items()})
    if isinstance(node, Index):
        return mk_index({k: filter_static(v, pred, spath) for k, v in node.kids.items()}, filter_static(node.shadow, pred, spath), node.vec)
    raise TypeError(node)


def static_addresses(node):
    """(support, valid, unknown_prefixes, via_index): static addresses that the map statically
    holds / holds with a valid entry; prefixes below which nothing is known; addresses whose
    entry lies below an explicit index level."""
    supp, valid, unknown, via_index = set(), set(), set(), set()
    for p, l, sh in leaves(node):
        sp = static_part(p)
        if isinstance(l, Unspec):
            unknown.add(sp)
            continue
        supp.add(sp)
        if has_index_level(p):
            via_index.add(sp)
        if not sh and l.flag.any():
            valid.add(sp)
    return supp, valid, unknown, via_index


# ------------------------------------------------------------------ selections (predicate on static addresses)


def sel_eval(term, addr):
    """term: ('all',) ('none',) ('at', comps) ('leafat', comps) ('or',a,b) ('and',a,b) ('not',a).
    comps: tuple of str or Ellipsis. at[p] selects every address that has p as a prefix;
    leafat[p] selects exactly the address p."""
    k = term[0]
    if k == "all":
        return True
    if k == "none":
        return False
    if k in ("at", "leafat"):
        p = term[1]
        if len(addr) < len(p) or (k == "leafat" and len(addr) != len(p)):
            return False
        return all(c is Ellipsis or c == a for c, a in zip(p, addr))
    if k == "or":
        return sel_eval(term[1], addr) or sel_eval(term[2], addr)
    if k == "and":
        return sel_eval(term[1], addr) and sel_eval(term[2], addr)
    if k == "not":
        return not sel_eval(term[1], addr)
    raise ValueError(term)
