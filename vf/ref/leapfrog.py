"""Textbook leapfrog integrator and Hamiltonian (Neal 2011, eqs. 5.18-5.20) in numpy float64.

Positions and momenta are dicts {address: float64 array}.  `grad(q)` returns d log p / d q for the
moving addresses (same dict layout).  The potential is U = -log p, the kinetic energy
K = |p|^2 / 2 (unit mass), so

    p <- p + (eps/2) grad(q);  q <- q + eps p;  p <- p + (eps/2) grad(q)      (one step)

Independent of GenJAX.  `leapfrog_stale` is the *wrong* integrator that reuses the gradient at the
start position for the first half-kick of every step; it exists only to name that mechanism when a
mismatch is observed.
"""

from __future__ import annotations

import numpy as np


def _axpy(a, x, y):
    return {k: y[k] + a * x[k] for k in y}


def leapfrog(q0, p0, grad, eps, L, trajectory=False):
    q = {k: np.array(v, dtype=np.float64) for k, v in q0.items()}
    p = {k: np.array(v, dtype=np.float64) for k, v in p0.items()}
    traj = [(dict(q), dict(p))]
    for _ in range(int(L)):
        p = _axpy(eps / 2.0, grad(q), p)
        q = _axpy(eps, p, q)
        p = _axpy(eps / 2.0, grad(q), p)
        traj.append((dict(q), dict(p)))
    return (q, p, traj) if trajectory else (q, p)


def leapfrog_stale(q0, p0, grad, eps, L):
    """First half-kick of every step uses the gradient at the START position (a defect model)."""
    q = {k: np.array(v, dtype=np.float64) for k, v in q0.items()}
    p = {k: np.array(v, dtype=np.float64) for k, v in p0.items()}
    g0 = grad(q)
    for _ in range(int(L)):
        p = _axpy(eps / 2.0, g0, p)
        q = _axpy(eps, p, q)
        p = _axpy(eps / 2.0, grad(q), p)
    return q, p


def kinetic_logpdf(p):
    """log N(p; 0, I) summed over all momentum coordinates."""
    tot = 0.0
    for v in p.values():
        v = np.asarray(v, dtype=np.float64)
        tot += float(np.sum(-0.5 * v * v - 0.5 * np.log(2.0 * np.pi)))
    return tot


def log_joint(logp, q_full, p):
    """-H up to the constant: log p(q) + log N(p)."""
    return float(logp(q_full)) + kinetic_logpdf(p)


def central_grad(f, q, keys, h=1e-5):
    """Central-difference gradient of scalar f(dict) with respect to the entries of `keys`."""
    out = {}
    for k in keys:
        base = np.array(q[k], dtype=np.float64)
        g = np.zeros_like(base)
        it = np.nditer(base, flags=["multi_index"])
        for _ in it:
            idx = it.multi_index
            step = h * max(1.0, abs(float(base[idx])))
            qp = dict(q)
            qm = dict(q)
            bp = base.copy()
            bm = base.copy()
            bp[idx] += step
            bm[idx] -= step
            qp[k] = bp
            qm[k] = bm
            g[idx] = (f(qp) - f(qm)) / (2.0 * step)
        out[k] = g
    return out


def selftest():
    # harmonic oscillator: log p = -q^2/2; leapfrog with L steps conserves energy to O(eps^2)
    grad = lambda q: {"x": -q["x"]}  # noqa: E731
    q, p = leapfrog({"x": 1.0}, {"x": 0.0}, grad, 0.01, 100)
    assert abs(float(q["x"]) - np.cos(1.0)) < 1e-4, q
    assert abs(float(p["x"]) + np.sin(1.0)) < 1e-4, p
    # reversibility
    q2, p2 = leapfrog(q, {"x": -p["x"]}, grad, 0.01, 100)
    assert abs(float(q2["x"]) - 1.0) < 1e-12 and abs(float(p2["x"])) < 1e-12
    g = central_grad(lambda d: -0.5 * float(np.sum(d["x"] ** 2)), {"x": np.array([1.0, -2.0])}, ["x"])
    assert np.allclose(g["x"], [-1.0, 2.0], atol=1e-8)
    # the stale integrator differs from the textbook one as soon as L >= 2
    qa, _ = leapfrog({"x": 1.0}, {"x": 0.3}, lambda q: {"x": -q["x"] ** 3}, 0.2, 3)
    qb, _ = leapfrog_stale({"x": 1.0}, {"x": 0.3}, lambda q: {"x": -q["x"] ** 3}, 0.2, 3)
    assert abs(float(qa["x"]) - float(qb["x"])) > 1e-4
    qa, _ = leapfrog({"x": 1.0}, {"x": 0.3}, lambda q: {"x": -q["x"] ** 3}, 0.2, 1)
    qb, _ = leapfrog_stale({"x": 1.0}, {"x": 0.3}, lambda q: {"x": -q["x"] ** 3}, 0.2, 1)
    assert abs(float(qa["x"]) - float(qb["x"])) < 1e-15


if __name__ == "__main__":
    selftest()
    print("leapfrog selftest ok")
