"""Reference model for C25 / C26 (float64 numpy/scipy, independent of genjax and TFP).

* vectorised log-densities of the nets of vf/gen/smc_models.py (per node, over a batch of
  parameter draws x particles);
* exact enumeration of discrete targets: unnormalised posterior, normalising constant Z,
  proposal densities, moments of importance weights, the exact output distribution of
  sampling-importance-resampling with K particles;
* closed-form evidence of linear-Gaussian targets;
* the statistical tests of DESIGN section 6 (z-test, G-test with pooling, two-stage thresholds).
"""

from __future__ import annotations

import itertools
import math

import numpy as np
from scipy import special, stats

LOG2PI = math.log(2.0 * math.pi)


# ------------------------------------------------------------------------------- densities


def _bidx(B, ndim):
    return np.arange(B).reshape((B,) + (1,) * (ndim - 1))


def node_logp(net, i, param, vals):
    """log p(node i = vals[i] | parents = vals[parents]) for a batch.

    param: [B, ...] parameter array of node i.  vals: dict idx -> array of shape [B, *extra]
    (ints for flip/cat, floats for normal).  Returns float64 array [B, *extra]."""
    n = net.nodes[i]
    v = np.asarray(vals[i])
    B = param.shape[0]
    P = np.asarray(param, dtype=np.float64)
    if n.kind == "normal":
        ex = (slice(None),) + (None,) * (v.ndim - 1)
        mean = P[:, 0][ex]
        for j, p in enumerate(n.parents):
            mean = mean + P[:, j + 1][ex] * np.asarray(vals[p], dtype=np.float64)
        sg = P[:, len(n.parents) + 1][ex]
        z = (np.asarray(v, dtype=np.float64) - mean) / sg
        return -0.5 * z * z - np.log(sg) - 0.5 * LOG2PI
    idx = [np.broadcast_to(_bidx(B, v.ndim), v.shape)]
    for p in n.parents:
        idx.append(np.asarray(vals[p]).astype(np.int64))
    idx.append(v.astype(np.int64))
    with np.errstate(divide="ignore"):
        return np.log(P[tuple(idx)])


def joint_logp(net, params, vals, idxs=None):
    """Sum of node_logp over nodes idxs (default: all)."""
    idxs = range(len(net)) if idxs is None else idxs
    tot = 0.0
    for i in idxs:
        tot = tot + node_logp(net, i, params[i], vals)
    return tot


def qspec_logp(qspec, qidxs, qparams, vals):
    """Log-density of the exact table proposal (structure qspec over net nodes qidxs)."""
    tot = 0.0
    for j, i in enumerate(qidxs):
        addr, kind, card, qpa = qspec[j]
        P = np.asarray(qparams[j], dtype=np.float64)
        v = np.asarray(vals[i])
        B = P.shape[0]
        if kind == "normal":
            ex = (slice(None),) + (None,) * (v.ndim - 1)
            mean = P[:, 0][ex]
            for m, pj in enumerate(qpa):
                mean = mean + P[:, m + 1][ex] * np.asarray(vals[qidxs[pj]], dtype=np.float64)
            sg = P[:, len(qpa) + 1][ex]
            z = (np.asarray(v, dtype=np.float64) - mean) / sg
            tot = tot + (-0.5 * z * z - np.log(sg) - 0.5 * LOG2PI)
        else:
            idx = [np.broadcast_to(_bidx(B, v.ndim), v.shape)]
            for pj in qpa:
                idx.append(np.asarray(vals[qidxs[pj]]).astype(np.int64))
            idx.append(v.astype(np.int64))
            tot = tot + np.log(P[tuple(idx)])
    return tot


def guide_logp(net, qidxs, consts, vals, aux=False):
    """Log-density of the guide program of smc_models.guide_source at the values of nodes qidxs
    (aux=True: the auxiliary flip is marginalised exactly)."""

    def comp(shift):
        tot = 0.0
        for i in qidxs:
            n = net.nodes[i]
            v = np.asarray(vals[i])
            c = consts[i]
            if n.kind == "normal":
                mu, sg = c
                z = (np.asarray(v, dtype=np.float64) - (mu + 0.5 * shift)) / sg
                tot = tot + (-0.5 * z * z - math.log(sg) - 0.5 * LOG2PI)
            else:
                p = np.asarray(c, dtype=np.float64)
                if shift:
                    p = p[::-1]
                if n.kind == "flip":
                    pt = p[1]
                    tot = tot + np.where(v.astype(np.int64) == 1, math.log(pt), math.log1p(-pt))
                else:
                    tot = tot + np.log(p / p.sum())[v.astype(np.int64)]
        return tot

    if not aux:
        return comp(0)
    return np.logaddexp(math.log(0.35) + comp(1), math.log(0.65) + comp(0))


def logmeanexp(a, axis=-1):
    a = np.asarray(a, dtype=np.float64)
    return special.logsumexp(a, axis=axis) - math.log(a.shape[axis])


# ------------------------------------------------------------------------------- exact discrete targets


class ExactTarget:
    """Exact quantities of one discrete target (one parameter draw): latent outcomes, p~(x)=p(x,obs),
    Z, proposal q(x) (internal proposal on nodes not proposed by a custom q), weight w = p~/q."""

    def __init__(self, net, params1, obs_idx, obs_val, q_logp_fn=None, q_idx=()):
        from vf.gen import smc_models as G

        self.net = net
        self.lat = [i for i in range(len(net)) if i not in obs_idx]
        outs, n = G.all_outcomes(net, self.lat)
        vals = {i: outs[i][None, :] for i in self.lat}
        for i, v in zip(obs_idx, obs_val):
            vals[i] = np.full((1, n), int(v), dtype=np.int64)
        self.vals = vals
        self.n = n
        self.logp = joint_logp(net, params1, vals)[0]  # [n]
        internal = [i for i in self.lat if i not in q_idx]
        lq = joint_logp(net, params1, vals, internal)
        lq = np.zeros(n) if isinstance(lq, float) else lq[0]
        if q_logp_fn is not None:
            lq = lq + q_logp_fn(vals)[0]
        self.logq = lq
        self.logw = self.logp - self.logq
        self.logZ = float(special.logsumexp(self.logp))
        self.post = np.exp(self.logp - self.logZ)
        q = np.exp(self.logq)
        self.q = q
        w = np.exp(self.logw)
        self.w = w
        self.Z = math.exp(self.logZ)
        # moments of a single importance weight
        self.var_w = float(np.sum(q * w * w) - self.Z**2)

    def outcome_index(self, vals_lat):
        """vals_lat: dict idx -> int array [...]; returns flat outcome index array [...]."""
        cards = self.net.cards(self.lat)
        idx = 0
        for i, c in zip(self.lat, cards):
            idx = idx * c + np.asarray(vals_lat[i]).astype(np.int64)
        return idx

    def sir_distribution(self, K):
        """Exact output distribution q_K of sampling K particles from q and resampling one
        proportionally to its weight, and E[1/w_hat | x] moments where w_hat = p~(x)/Z_hat.
        Returns (qK[n], m1[n] = E[Z_hat | chosen x], m2[n] = E[Z_hat^2 | chosen x])."""
        n = self.n
        if K == 1:
            return self.q.copy(), self.w.copy(), self.w**2
        if n ** (K - 1) > 200000:
            raise ValueError("too large to enumerate")
        qK = np.zeros(n)
        m1 = np.zeros(n)
        m2 = np.zeros(n)
        others = list(itertools.product(range(n), repeat=K - 1))
        oth = np.array(others, dtype=np.int64)  # [m, K-1]
        qo = np.prod(self.q[oth], axis=1)  # prob of the other particles
        wo = np.sum(self.w[oth], axis=1)
        for x in range(n):
            zhat = (self.w[x] + wo) / K
            # joint prob that particle 1 = x is drawn, others = o, and particle 1 is chosen, times K positions
            pj = K * self.q[x] * qo * (self.w[x] / (K * zhat))
            qK[x] = pj.sum()
            if qK[x] > 0:
                m1[x] = (pj * zhat).sum() / qK[x]
                m2[x] = (pj * zhat * zhat).sum() / qK[x]
        return qK, m1, m2

    def csmc_density_moments(self, K, x):
        """Mean and variance of p~(x)/Z_hat' where Z_hat' averages w(x) and K-1 fresh weights
        (the conditional-SMC density estimate of the SIR output distribution at x)."""
        n = self.n
        if K == 1:
            return float(self.q[x]), 0.0
        oth = np.array(list(itertools.product(range(n), repeat=K - 1)), dtype=np.int64)
        qo = np.prod(self.q[oth], axis=1)
        wo = np.sum(self.w[oth], axis=1)
        est = math.exp(self.logp[x]) / ((self.w[x] + wo) / K)
        m = float((qo * est).sum())
        v = float((qo * est * est).sum() - m * m)
        return m, max(v, 0.0)


# ------------------------------------------------------------------------------- linear-Gaussian targets


def gaussian_joint(net, params1):
    """Mean vector and covariance of all nodes of a linear-Gaussian net (one parameter draw:
    params1[i] has shape [1, k+2])."""
    n = len(net)
    A = np.zeros((n, n))
    b = np.zeros(n)
    s = np.zeros(n)
    for i, nd in enumerate(net.nodes):
        P = np.asarray(params1[i], dtype=np.float64)[0]
        b[i] = P[0]
        for j, p in enumerate(nd.parents):
            A[i, p] = P[j + 1]
        s[i] = P[len(nd.parents) + 1]
    M = np.linalg.inv(np.eye(n) - A)  # x = M (b + s*eps)
    mean = M @ b
    cov = M @ np.diag(s * s) @ M.T
    return mean, cov


def gaussian_logZ(net, params1, obs_idx, obs_val):
    mean, cov = gaussian_joint(net, params1)
    oi = list(obs_idx)
    return float(stats.multivariate_normal(mean[oi], cov[np.ix_(oi, oi)]).logpdf(np.asarray(obs_val, dtype=np.float64)))


def gaussian_marginal_logpdf(net, params1, idxs, vals):
    """Exact log-density of the marginal of nodes idxs at vals ([m, len(idxs)])."""
    mean, cov = gaussian_joint(net, params1)
    ii = list(idxs)
    return stats.multivariate_normal(mean[ii], cov[np.ix_(ii, ii)]).logpdf(np.asarray(vals, dtype=np.float64))


def gaussian_sample(net, params1, rng):
    """One joint draw from the net (float32 rounded)."""
    vals = {}
    for i, nd in enumerate(net.nodes):
        P = np.asarray(params1[i], dtype=np.float64)[0]
        mean = P[0] + sum(P[j + 1] * vals[p] for j, p in enumerate(nd.parents))
        vals[i] = float(np.round(mean + P[len(nd.parents) + 1] * rng.normal(), 3))
    return vals


def discrete_sample(net, params1, rng):
    vals = {}
    for i, nd in enumerate(net.nodes):
        P = np.asarray(params1[i], dtype=np.float64)[0]
        row = P[tuple(vals[p] for p in nd.parents)]
        vals[i] = int(rng.choice(len(row), p=row / row.sum()))
    return vals


def sample_batch(net, params, rng):
    """One ancestral draw per parameter row: dict idx -> array [B] (ints / float32-rounded)."""
    B = params[0].shape[0]
    vals = {}
    for i, nd in enumerate(net.nodes):
        P = np.asarray(params[i], dtype=np.float64)
        if nd.kind == "normal":
            mean = P[:, 0].copy()
            for j, p in enumerate(nd.parents):
                mean = mean + P[:, j + 1] * vals[p]
            vals[i] = np.round(mean + P[:, len(nd.parents) + 1] * rng.normal(size=B), 3).astype(np.float32).astype(np.float64)
        else:
            idx = (np.arange(B),) + tuple(vals[p] for p in nd.parents)
            rows = P[idx]
            cs = np.cumsum(rows / rows.sum(axis=-1, keepdims=True), axis=-1)
            u = rng.random(B)
            vals[i] = np.minimum((u[:, None] > cs).sum(axis=1), nd.card - 1).astype(np.int64)
    return vals


# ------------------------------------------------------------------------------- statistics

P_FLAG = 1e-6
P_VIOLATION = 1e-9
P_HELD = 1e-3


def z_pvalue(mean_obs, mean_exp, sd_of_mean, rel_slack=1e-3):
    """Two-sided normal p-value of a mean.  `rel_slack` (relative to the expected value) absorbs the
    float32 rounding of the observed terms: a deviation within it is never evidence (it matters
    when the estimator is (nearly) deterministic and sd_of_mean is ~0)."""
    if not np.isfinite(mean_obs):
        return 0.0
    dev = max(0.0, abs(mean_obs - mean_exp) - rel_slack * abs(mean_exp))
    if dev == 0.0:
        return 1.0
    if not (sd_of_mean > 0) or not np.isfinite(sd_of_mean):
        return 0.0
    return float(2.0 * stats.norm.sf(dev / sd_of_mean))


def g_test(counts, probs, min_expected=10.0):
    """Likelihood-ratio test of observed counts against exact probabilities, pooling the cells
    with expected count < min_expected.  Returns (p, dof)."""
    counts = np.asarray(counts, dtype=np.float64)
    probs = np.asarray(probs, dtype=np.float64)
    N = counts.sum()
    exp = probs * N
    small = exp < min_expected
    if small.any():
        c = np.concatenate([counts[~small], [counts[small].sum()]])
        e = np.concatenate([exp[~small], [exp[small].sum()]])
    else:
        c, e = counts, exp
    if e[-1] == 0 and c[-1] == 0:
        c, e = c[:-1], e[:-1]
    if np.any((e <= 0) & (c > 0)):
        return 0.0, max(len(c) - 1, 1)  # an outcome of probability zero was observed
    keep = e > 0
    c, e = c[keep], e[keep]
    dof = len(c) - 1
    if dof < 1:
        return 1.0, 0
    with np.errstate(divide="ignore", invalid="ignore"):
        g = 2.0 * np.sum(np.where(c > 0, c * np.log(c / e), 0.0))
    return float(stats.chi2.sf(max(g, 0.0), dof)), dof


def stage_verdict(p1, stage2_fn):
    """Two-stage rule.  stage2_fn() -> p-value of the re-run with 8x samples (independent keys).
    Returns 'held' | 'violation' | 'grey' and the p-values."""
    if p1 >= P_FLAG:
        return "held", (p1, None)
    p2 = stage2_fn()
    if p2 < P_VIOLATION:
        return "violation", (p1, p2)
    if p2 >= P_HELD:
        return "held", (p1, p2)
    return "grey", (p1, p2)


def selftest():
    from vf.gen import smc_models as G

    rng = np.random.default_rng(0)
    net = G.Net([G.Node(("a",), "flip", 2, []), G.Node(("b",), "cat", 3, [0]), G.Node(("c",), "flip", 2, [0, 1])], "disc")
    params = G.random_params(rng, net, 1)
    outs, n = G.all_outcomes(net, [0, 1, 2])
    lp = joint_logp(net, params, {i: outs[i][None, :] for i in range(3)})[0]
    assert abs(special.logsumexp(lp)) < 1e-5, special.logsumexp(lp)
    et = ExactTarget(net, params, [2], [1])
    assert abs(et.q.sum() - 1) < 1e-5
    for K in (1, 2, 3):
        qK, m1, m2 = et.sir_distribution(K)
        assert abs(qK.sum() - 1) < 1e-6, (K, qK.sum())
        # E[1/w_hat | x] = m1 / p~ = 1/qK
        assert np.allclose(m1 / np.exp(et.logp), 1.0 / qK, rtol=1e-6)
        for x in range(et.n):
            m, v = et.csmc_density_moments(K, x)
            assert abs(m - qK[x]) < 1e-9
    # gaussian: chain x -> y, Z = N(y; b1 + a*b0, a^2 s0^2 + s1^2)
    gnet = G.Net([G.Node(("a",), "normal", 0, []), G.Node(("b",), "normal", 0, [0])], "gauss")
    gp = [np.array([[0.3, 1.2]]), np.array([[-0.5, 0.8, 0.7]])]
    lz = gaussian_logZ(gnet, gp, [1], [0.9])
    ref = stats.norm(-0.5 + 0.8 * 0.3, math.sqrt(0.64 * 1.44 + 0.49)).logpdf(0.9)
    assert abs(lz - ref) < 1e-9
    return True
