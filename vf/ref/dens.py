"""Reference densities (float64, scipy) for the distributions used in generated programs.

Independent of TFP and of GenJAX.  Each entry: logpdf(value, *params) -> float (sum over
vector-valued draws), sample(rng, *params) -> value inside the support, kind of the value.
"""

from __future__ import annotations

import math

import numpy as np
from scipy import special, stats


def _sum(x):
    return float(np.sum(np.asarray(x, dtype=np.float64)))


def lp_normal(v, mu, sigma):
    return _sum(stats.norm.logpdf(np.asarray(v, float), np.asarray(mu, float), np.asarray(sigma, float)))


def lp_uniform(v, lo, hi):
    v = np.asarray(v, float)
    lo = np.asarray(lo, float)
    hi = np.asarray(hi, float)
    inside = (v >= lo) & (v <= hi)
    with np.errstate(divide="ignore"):
        return _sum(np.where(inside, -np.log(hi - lo), -np.inf))


def lp_exponential(v, rate):
    v = np.asarray(v, float)
    rate = np.asarray(rate, float)
    with np.errstate(divide="ignore"):
        return _sum(np.where(v >= 0, np.log(rate) - rate * v, -np.inf))


def lp_laplace(v, loc, scale):
    return _sum(stats.laplace.logpdf(np.asarray(v, float), np.asarray(loc, float), np.asarray(scale, float)))


def lp_beta(v, a, b):
    return _sum(stats.beta.logpdf(np.asarray(v, float), np.asarray(a, float), np.asarray(b, float)))


def lp_gamma(v, conc, rate):
    return _sum(
        stats.gamma.logpdf(np.asarray(v, float), np.asarray(conc, float), scale=1.0 / np.asarray(rate, float))
    )


def lp_flip(v, p):
    v = np.asarray(v).astype(bool)
    p = np.asarray(p, float)
    with np.errstate(divide="ignore"):
        return _sum(np.where(v, np.log(p), np.log1p(-p)))


def lp_bernoulli_logits(v, logits):
    v = np.asarray(v).astype(bool)
    logits = np.asarray(logits, float)
    # log sigmoid(l) = -log1p(exp(-l))
    return _sum(np.where(v, -np.logaddexp(0.0, -logits), -np.logaddexp(0.0, logits)))


def lp_categorical_logits(v, logits):
    logits = np.asarray(logits, float)
    k = int(np.asarray(v))
    if k < 0 or k >= logits.shape[-1]:
        return -math.inf
    return float(logits[k] - special.logsumexp(logits))


def lp_poisson(v, rate):
    v = np.asarray(v, float)
    return _sum(stats.poisson.logpmf(v, np.asarray(rate, float)))


def lp_mvn_diag(v, loc, scale_diag):
    return lp_normal(v, loc, scale_diag)


class D:
    def __init__(self, name, logpdf, sample, kind, discrete=False):
        self.name = name
        self.logpdf = logpdf
        self.sample = sample
        self.kind = kind  # 'f' float, 'b' bool, 'i' int
        self.discrete = discrete


TABLE = {
    "normal": D("normal", lp_normal, lambda r, mu, s: r.normal(mu, s), "f"),
    "uniform": D("uniform", lp_uniform, lambda r, lo, hi: r.uniform(lo, hi), "f"),
    "exponential": D("exponential", lp_exponential, lambda r, rate: r.exponential(1.0 / np.asarray(rate, float)), "f"),
    "laplace": D("laplace", lp_laplace, lambda r, loc, sc: r.laplace(loc, sc), "f"),
    "beta": D("beta", lp_beta, lambda r, a, b: np.clip(r.beta(a, b), 1e-4, 1 - 1e-4), "f"),
    "gamma": D("gamma", lp_gamma, lambda r, c, rate: np.maximum(r.gamma(c, 1.0 / np.asarray(rate, float)), 1e-4), "f"),
    "flip": D("flip", lp_flip, lambda r, p: r.random(np.shape(p)) < np.asarray(p, float), "b", True),
    "bernoulli": D(
        "bernoulli",
        lp_bernoulli_logits,
        lambda r, l: (r.random(np.shape(l)) < special.expit(np.asarray(l, float))).astype(np.int32),
        "i",
        True,
    ),
    "categorical": D(
        "categorical",
        lp_categorical_logits,
        lambda r, l: np.int32(r.choice(len(l), p=special.softmax(np.asarray(l, float)))),
        "i",
        True,
    ),
    "poisson": D("poisson", lp_poisson, lambda r, rate: np.asarray(r.poisson(rate), float), "f", True),
    "mv_normal_diag": D("mv_normal_diag", lp_mvn_diag, lambda r, loc, s: r.normal(loc, s), "f"),
}


def selftest():
    assert abs(lp_normal(0.0, 0.0, 1.0) + 0.5 * math.log(2 * math.pi)) < 1e-12
    assert abs(lp_uniform(0.5, 0.0, 2.0) + math.log(2.0)) < 1e-12
    assert lp_uniform(3.0, 0.0, 2.0) == -math.inf
    assert abs(lp_exponential(1.0, 2.0) - (math.log(2.0) - 2.0)) < 1e-12
    assert abs(lp_flip(True, 0.3) - math.log(0.3)) < 1e-12
    assert abs(lp_flip(False, 0.3) - math.log(0.7)) < 1e-12
    assert abs(lp_bernoulli_logits(1, 0.0) - math.log(0.5)) < 1e-12
    assert abs(lp_categorical_logits(1, [0.0, 0.0, 0.0]) - math.log(1 / 3)) < 1e-12
    assert abs(lp_poisson(2.0, 1.5) - (2 * math.log(1.5) - 1.5 - math.log(2.0))) < 1e-12
    assert abs(lp_gamma(1.0, 2.0, 3.0) - (2 * math.log(3.0) + 0.0 - 3.0 - math.lgamma(2.0))) < 1e-12
    assert abs(lp_beta(0.5, 2.0, 2.0) - math.log(1.5)) < 1e-12
    assert abs(lp_laplace(1.0, 0.0, 2.0) - (-math.log(4.0) - 0.5)) < 1e-12
    assert abs(lp_normal([0.0, 0.0], [0.0, 0.0], 1.0) + math.log(2 * math.pi)) < 1e-12
