"""C31 reference: a plain-Python/numpy evaluator for the small function language of
vf/gen/c31_prog.py with *record points*.

It never imports jax or genjax.  Running a program yields

* the return value,
* a log with one entry per executed record point, in the order in which the calls are
  entered (an outer recorded call comes before the record points executed in its body;
  record points in the argument expressions of a call come before that call),
  each entry = (tag, args, local return value, depth, parent, subtree size),
* "override call k's arguments": `overrides = {k: new_args}` replaces the arguments of the
  k-th record point (numbering of the log) before the callee runs; everything else is
  recomputed from that.

Entry 0 is the whole function (what `time_machine` records under the tag "_enter", args =
the function's arguments) and the last entry is the identity record point on the final
return value (tag "exit").

Numbers are float64 / python-int based (the library computes in float32/int32); the
evaluator also tracks how *fragile* a run is for a float32-vs-float64 comparison (a branch
predicate close to its threshold, a huge intermediate fed to sin, ...).  Fragile runs are
skipped by the monitor, not compared.
"""

from __future__ import annotations

import numpy as np

COND_MARGIN = 2e-2
BIG = 200.0


class Fragile(Exception):
    pass


class Run:
    def __init__(self, overrides=None):
        self.overrides = dict(overrides or {})
        self.log = []  # dicts: tag, args, ret, depth, parent, size
        self.fragile = None
        self._stack = []
        self.used_overrides = set()

    def mark(self, why):
        if self.fragile is None:
            self.fragile = why


def _arr(x):
    a = np.asarray(x)
    if a.dtype.kind == "f":
        return a.astype(np.float64)
    if a.dtype.kind in "iu":
        return a.astype(np.int64)
    if a.dtype.kind == "b":
        return a
    raise TypeError(f"unexpected leaf {x!r}")


def norm(v):
    """Normalise a value structure (tuple / dict / leaf) to numpy leaves."""
    if isinstance(v, tuple):
        return tuple(norm(x) for x in v)
    if isinstance(v, list):
        return tuple(norm(x) for x in v)
    if isinstance(v, dict):
        return {k: norm(x) for k, x in v.items()}
    return _arr(v)


def _chk_mag(run, a):
    if a.dtype.kind == "f" and a.size and (not np.all(np.isfinite(a)) or np.max(np.abs(a)) > BIG):
        run.mark("magnitude")
    if a.dtype.kind == "i" and a.size and np.max(np.abs(a)) > 2**24:
        run.mark("int-magnitude")


def _un(run, op, a):
    if op == "sin":
        return np.sin(a.astype(np.float64))
    if op == "tanh":
        return np.tanh(a.astype(np.float64))
    if op == "neg":
        return -a
    if op == "abs":
        return np.abs(a)
    if op == "cumsum":
        return np.cumsum(a, axis=0) if a.ndim else a
    if op == "sumall":
        return np.sum(a)
    if op == "tofloat":
        return a.astype(np.float64)
    if op == "half":
        return a.astype(np.float64) * 0.5
    raise KeyError(op)


def _bin(run, op, a, b):
    if op == "add":
        return a + b
    if op == "sub":
        return a - b
    if op == "mul":
        return a * b
    if op == "max":
        return np.maximum(a, b)
    raise KeyError(op)


def branch_apply(br, x):
    """The pure branch functions used inside lax.cond (no record points inside)."""
    k = br[0]
    if k == "scale":
        return x.astype(np.float64) * br[1]
    if k == "addc":
        return x.astype(np.float64) + br[1]
    if k == "sin":
        return np.sin(x.astype(np.float64))
    if k == "negf":
        return -x.astype(np.float64)
    raise KeyError(k)


def eval_expr(run, e, env):
    k = e[0]
    if k == "var":
        return env[e[1]]
    if k == "const":
        return _arr(e[1])
    if k == "un":
        v = _un(run, e[1], eval_expr(run, e[2], env))
        _chk_mag(run, np.asarray(v))
        return np.asarray(v)
    if k == "bin":
        a = eval_expr(run, e[2], env)
        b = eval_expr(run, e[3], env)
        v = np.asarray(_bin(run, e[1], a, b))
        _chk_mag(run, v)
        return v
    if k == "cond":
        # lax.cond(sum(p) > thr, br_t, br_f, operand); p and the operand are evaluated first
        _, pe, thr, br_t, br_f, oe = e
        p = eval_expr(run, pe, env)
        x = eval_expr(run, oe, env)
        s = float(np.sum(p))
        if abs(s - thr) < COND_MARGIN * (1 + abs(s)):
            run.mark("cond-margin")
        v = np.asarray(branch_apply(br_t if s > thr else br_f, x))
        _chk_mag(run, v)
        return v
    if k == "where":
        _, pe, ae, be = e
        p = eval_expr(run, pe, env)
        a = eval_expr(run, ae, env)
        b = eval_expr(run, be, env)
        if np.any(np.abs(p) < COND_MARGIN):
            run.mark("where-margin")
        return np.asarray(np.where(p > 0, a, b))
    if k == "tag":
        _, ve, tagname = e
        v = eval_expr(run, ve, env)
        return record_call(run, tagname, (v,), lambda args: args[0])
    if k == "hidden":
        # a record point that sits inside a lax.cond branch / a jitted sub-function:
        # ("hidden", how, pred_expr, callee, arg_expr).  Not visible to the debugger: plain call.
        _, how, pe, callee, ae = e
        x = eval_expr(run, ae, env)
        if how == "cond":
            p = eval_expr(run, pe, env)
            s = float(np.sum(p))
            if abs(s) < COND_MARGIN * (1 + abs(s)):
                run.mark("cond-margin")
            if s > 0:
                return call_callee(run, callee, (x,), (), hidden=True)
            return np.asarray(x.astype(np.float64) - 1.0)
        return call_callee(run, callee, (x,), (), hidden=True)
    if k == "rec":
        _, callee, tagname, argspecs, mode = e
        args = tuple(eval_argspec(run, a, env) for a in argspecs)
        caps = tuple(env[c] for c in callee["captures"])
        return record_call(run, tagname, args, lambda a: call_callee(run, callee, a, caps))
    raise KeyError(k)


def eval_argspec(run, a, env):
    if a[0] == "tuple":
        return tuple(eval_expr(run, x, env) for x in a[1])
    if a[0] == "dict":
        return {k: eval_expr(run, x, env) for k, x in a[1].items()}
    return eval_expr(run, a, env)


def record_call(run, tagname, args, fn):
    if getattr(run, "hidden_depth", 0):
        return fn(args)
    idx = len(run.log)
    ent = {"tag": tagname, "args": args, "ret": None, "depth": len(run._stack),
           "parent": run._stack[-1] if run._stack else None, "size": 1}
    run.log.append(ent)
    if idx in run.overrides:
        args = norm(run.overrides[idx])
        ent["args"] = args
        run.used_overrides.add(idx)
    run._stack.append(idx)
    ret = fn(args)
    run._stack.pop()
    ent["ret"] = ret
    ent["size"] = len(run.log) - idx
    return ret


def bind_params(params, args, env):
    if len(params) != len(args):
        raise Fragile("arity")
    for p, a in zip(params, args):
        if p[0] == "arr":
            env[p[1]] = a
        elif p[0] == "tuple":
            for n, x in zip(p[1], a):
                env[n] = x
        elif p[0] == "dict":
            for key, n in p[1].items():
                env[n] = a[key]


def eval_ret(run, ret, env):
    if ret[0] == "arr":
        return eval_expr(run, ret[1], env)
    if ret[0] == "tuple":
        return tuple(eval_expr(run, x, env) for x in ret[1])
    if ret[0] == "dict":
        return {k: eval_expr(run, x, env) for k, x in ret[1].items()}
    raise KeyError(ret[0])


def run_body(run, body, env):
    for st in body:
        if st[0] == "let":
            env[st[1]] = eval_expr(run, st[2], env)
        elif st[0] == "unpack":
            # ("unpack", names, keys, expr): keys None -> tuple positions, else dict keys
            _, names, keys, e = st
            v = eval_expr(run, e, env)
            if keys is None:
                for n, x in zip(names, v):
                    env[n] = x
            else:
                for n, key in zip(names, keys):
                    env[n] = v[key]
        else:
            raise KeyError(st[0])


def call_callee(run, callee, args, caps, hidden=False):
    env = {}
    for n, v in zip(callee["captures"], caps):
        env[n] = v
    bind_params(callee["params"], args, env)
    if hidden:
        run.hidden_depth = getattr(run, "hidden_depth", 0) + 1
    try:
        run_body(run, callee["body"], env)
        return eval_ret(run, callee["ret"], env)
    finally:
        if hidden:
            run.hidden_depth -= 1


def run_program(prog, inputs, overrides=None):
    """-> Run with .log (entry 0 = whole function, last = exit tag), .final, .fragile."""
    run = Run(overrides)
    inputs = norm(tuple(inputs))

    def whole(args):
        env = {}
        bind_params([("arr", n) for n, _ in prog["params"]], args, env)
        run_body(run, prog["body"], env)
        return eval_ret(run, prog["ret"], env)

    r = record_call(run, "_enter", inputs, whole)
    final = record_call(run, "exit", (r,), lambda a: a[0])
    run.final = final
    # an override that was never reached would mean the numbering changed
    if set(run.overrides) - run.used_overrides:
        raise Fragile("override index not reached")
    return run


# ------------------------------------------------------------------ comparison


def leaves_close(act, exp, close, terms=16):
    """Structural + numeric comparison of an actual (jax/python) structure with a reference one.
    -> (ok, why)"""
    if isinstance(exp, tuple):
        if not isinstance(act, (tuple, list)) or len(act) != len(exp):
            return False, "structure"
        for a, e in zip(act, exp):
            ok, why = leaves_close(a, e, close, terms)
            if not ok:
                return ok, why
        return True, ""
    if isinstance(exp, dict):
        if not isinstance(act, dict) or sorted(act) != sorted(exp):
            return False, "structure"
        for k in exp:
            ok, why = leaves_close(act[k], exp[k], close, terms)
            if not ok:
                return ok, why
        return True, ""
    if isinstance(act, (tuple, list, dict)):
        return False, "structure"
    try:
        a = np.asarray(act)
    except Exception:
        return False, "leaf-type"
    if a.dtype == object:
        return False, "leaf-type"
    if a.shape != np.shape(exp):
        return False, "shape"
    if not close(a, exp, terms=terms):
        return False, "value"
    return True, ""


def to_jsonable(v):
    if isinstance(v, tuple):
        return [to_jsonable(x) for x in v]
    if isinstance(v, dict):
        return {k: to_jsonable(x) for k, x in v.items()}
    a = np.asarray(v)
    return np.round(a.astype(np.float64), 5).tolist()
