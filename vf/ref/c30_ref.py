"""Reference objectives for C30 (VI losses), plain numpy/scipy in float64.

Every family describes a model p(x, y) with the observation y fixed and a guide q(x); the
parameter vector theta may enter both.  All functions are hand transcriptions of the model /
guide *definitions* (not of genjax code):

  fam.q_sites(th)      -> description of the guide's latent sites for exact integration
  fam.logp(th, xs)     -> log p(xs, y)       (vectorised over numpy arrays)
  fam.logq(th, xs)     -> log q(xs)

Objectives (all returned as *losses*, i.e. what the gradient estimators differentiate):
  elbo_loss     = - E_q[ log p(x,y) - log q(x) ]
  iwelbo_loss N = - E_{x1..xN ~ q}[ log (1/N) sum_i p(xi,y)/q(xi) ]
  pwake_loss    = - E_{x ~ r}[ log p_theta(x,y) ]          (r: the fixed posterior approximation)
  qwake_loss    = - E_{x ~ r}[ log q_theta(x) ]
Integration: Gauss-Hermite per normal latent, enumeration per discrete latent.
"""

from __future__ import annotations

import itertools
import math

import numpy as np

LOG2PI = math.log(2 * math.pi)


def nlp(x, mu, sd):
    return -0.5 * LOG2PI - np.log(sd) - 0.5 * ((x - mu) / sd) ** 2


def sigmoid(x):
    return 1.0 / (1.0 + np.exp(-x))


_GH = {}


def gh(n):
    if n not in _GH:
        t, w = np.polynomial.hermite.hermgauss(n)
        _GH[n] = (t * math.sqrt(2.0), w / math.sqrt(math.pi))
    return _GH[n]


def integrate(sites_fn, f, n=48):
    """E over the sites described by sites_fn of f(xs).

    sites_fn(xs_so_far) -> ("normal", mu, sd) | ("flip", p) | ("cat", [p...]) | ("mvdiag", [mu0, mu1], [s0, s1]) | None when done.
    Arrays carry one axis per integration variable."""
    xs = []
    W = np.ones(())

    def lift():
        nonlocal xs, W
        xs = [tuple(np.asarray(c)[..., None] for c in x) if isinstance(x, tuple) else np.asarray(x)[..., None] for x in xs]
        W = W[..., None]

    while True:
        d = sites_fn(xs)
        if d is None:
            break
        if d[0] == "normal":
            z, w = gh(n)
            v = np.asarray(d[1], dtype=np.float64)[..., None] + np.asarray(d[2], dtype=np.float64)[..., None] * z
            lift()
            xs.append(v)
            W = W * w
        elif d[0] == "flip":
            p = np.asarray(d[1], dtype=np.float64)[..., None]
            w = np.concatenate(np.broadcast_arrays(p, 1.0 - p), axis=-1)
            lift()
            xs.append(np.array([True, False]))
            W = W * w
        elif d[0] == "cat":
            ps = np.broadcast_arrays(*[np.asarray(p, dtype=np.float64)[..., None] for p in d[1]])
            w = np.concatenate(ps, axis=-1)
            lift()
            xs.append(np.arange(len(ps)))
            W = W * w
        elif d[0] == "mvdiag":
            z, w = gh(n)
            m0, m1 = [np.asarray(v, dtype=np.float64)[..., None, None] for v in d[1]]
            s0, s1 = [np.asarray(v, dtype=np.float64)[..., None, None] for v in d[2]]
            x0 = m0 + s0 * z[:, None] + 0.0 * z[None, :]
            x1 = m1 + s1 * z[None, :] + 0.0 * z[:, None]
            lift()
            lift()
            xs.append((x0, x1))
            W = W * (w[:, None] * w[None, :])
        else:
            raise ValueError(d)
    return float(np.sum(W * f(xs)))


class Family:
    name = "?"
    n_lat = 1

    def __init__(self, consts):
        self.c = consts

    # which parameters exist is family specific; th is a dict name -> float
    def q_sites(self, th):
        raise NotImplementedError

    def r_sites(self):
        """fixed posterior approximation for the wake objectives"""
        raise NotImplementedError

    def _sites_fn(self, spec_fn):
        def fn(xs):
            return spec_fn(xs)

        return fn

    def elbo_loss(self, th, with_logq=True, n=48):
        f = (lambda xs: self.logp(th, xs) - self.logq(th, xs)) if with_logq else (lambda xs: self.logp(th, xs))
        return -integrate(lambda xs: self.q_sites(th, xs), f, n)

    def iwelbo_loss(self, th, N, with_logq=True, n=64):
        """Exact for discrete guides (enumeration of N-tuples); N-dim Gauss-Hermite for one normal latent."""
        L = self.n_lat

        def sites(xs):
            k = len(xs)
            if k >= N * L:
                return None
            return self.q_sites(th, xs[(k // L) * L:])

        def f(xs):
            lws = []
            for i in range(N):
                xi = xs[i * L:(i + 1) * L]
                lw = self.logp(th, xi) - (self.logq(th, xi) if with_logq else 0.0)
                lws.append(lw)
            lws = np.broadcast_arrays(*lws)
            m = np.maximum.reduce(lws)
            return m + np.log(sum(np.exp(l - m) for l in lws)) - math.log(N)

        return -integrate(sites, f, n)

    def pwake_loss(self, th, n=48):
        return -integrate(lambda xs: self.r_sites(xs), lambda xs: self.logp(th, xs), n)

    def qwake_loss(self, th, n=48):
        return -integrate(lambda xs: self.r_sites(xs), lambda xs: self.logq(th, xs), n)


class NormalNormal(Family):
    """x ~ N(m0, s0); y ~ N(k*x + c, s1).   guide x ~ N(qa, qb).   r: x ~ N(ra, rb)."""

    name = "normal-normal"
    n_lat = 1

    def par(self, th, k):
        return th[k] if k in th else self.c[k]

    def q_sites(self, th, xs):
        if len(xs) >= 1:
            return None
        return ("normal", self.par(th, "qa"), self.par(th, "qb"))

    def r_sites(self, xs):
        if len(xs) >= 1:
            return None
        return ("normal", self.c["ra"], self.c["rb"])

    def logq(self, th, xs):
        return nlp(xs[0], self.par(th, "qa"), self.par(th, "qb"))

    def logp(self, th, xs):
        x = xs[0]
        c = self.c
        return nlp(x, self.par(th, "m0"), self.par(th, "s0")) + nlp(c["y"], c["k"] * x + c["c"], self.par(th, "s1"))

    def elbo_closed_form(self, th):
        """Textbook closed form (cross-check of the quadrature)."""
        c = self.c
        qa, qb, m0, s0, s1 = (self.par(th, k) for k in ("qa", "qb", "m0", "s0", "s1"))
        e1 = -0.5 * LOG2PI - math.log(s0) - ((qa - m0) ** 2 + qb**2) / (2 * s0**2)
        e2 = -0.5 * LOG2PI - math.log(s1) - ((c["y"] - c["k"] * qa - c["c"]) ** 2 + c["k"] ** 2 * qb**2) / (2 * s1**2)
        h = 0.5 * math.log(2 * math.pi * math.e * qb**2)
        return -(e1 + e2 + h)


class Chain2(Family):
    """x1 ~ N(m0, s0); x2 ~ N(x1, s2); y ~ N(x2, s1).  guide x1 ~ N(a1, b1); x2 ~ N(a2 + cq*x1, b2)."""

    name = "chain2"
    n_lat = 2

    def q_sites(self, th, xs):
        if len(xs) == 0:
            return ("normal", th["a1"], th["b1"])
        if len(xs) == 1:
            return ("normal", th["a2"] + self.c["cq"] * xs[0], th["b2"])
        return None

    def logq(self, th, xs):
        return nlp(xs[0], th["a1"], th["b1"]) + nlp(xs[1], th["a2"] + self.c["cq"] * xs[0], th["b2"])

    def logp(self, th, xs):
        c = self.c
        return nlp(xs[0], c["m0"], c["s0"]) + nlp(xs[1], xs[0], c["s2"]) + nlp(c["y"], xs[1], c["s1"])


    def elbo_loss_shared_noise(self, th, with_logq=True, n=48):
        """Diagnostic only: the same loss when both guide sites are driven by ONE standard normal
        draw (x2 = a2 + cq*x1 + b2*eps1), i.e. what a re-used key produces."""
        c = self.c

        def f(xs):
            x1 = xs[0]
            x2 = th["a2"] + c["cq"] * x1 + th["b2"] * (x1 - th["a1"]) / th["b1"]
            v = self.logp(th, [x1, x2])
            return v - self.logq(th, [x1, x2]) if with_logq else v

        return -integrate(lambda xs: ("normal", th["a1"], th["b1"]) if not xs else None, f, n)


class FlipNormal(Family):
    """b ~ flip(pm); y ~ N(m1 if b else m2, s).  guide b ~ flip(qp).  r: b ~ flip(rp)."""

    name = "flip-normal"
    n_lat = 1

    def par(self, th, k):
        return th[k] if k in th else self.c[k]

    def q_sites(self, th, xs):
        if len(xs) >= 1:
            return None
        return ("flip", self.par(th, "qp"))

    def r_sites(self, xs):
        if len(xs) >= 1:
            return None
        return ("flip", self.c["rp"])

    def logq(self, th, xs):
        qp = self.par(th, "qp")
        return np.where(xs[0], np.log(qp), np.log1p(-qp))

    def logp(self, th, xs):
        c = self.c
        pm = self.par(th, "pm")
        b = xs[0]
        return np.where(b, np.log(pm), np.log1p(-pm)) + nlp(c["y"], np.where(b, self.par(th, "m1"), c["m2"]), c["s"])


class CatNormal(Family):
    """i ~ categorical(prior); y ~ N(mv[i], s).  guide i ~ categorical(probs = [w0*t0, w1*t1, 1 - w0*t0 - w1*t1])."""

    name = "cat-normal"
    n_lat = 1

    def qprobs(self, th):
        c = self.c
        p0, p1 = c["w0"] * th["t0"], c["w1"] * th["t1"]
        return [p0, p1, 1.0 - p0 - p1]

    def q_sites(self, th, xs):
        if len(xs) >= 1:
            return None
        return ("cat", self.qprobs(th))

    def logq(self, th, xs):
        ps = self.qprobs(th)
        return sum(np.where(xs[0] == k, np.log(p), 0.0) for k, p in enumerate(ps))

    def logp(self, th, xs):
        c = self.c
        i = xs[0]
        lp = sum(np.where(i == k, math.log(p), 0.0) for k, p in enumerate(c["prior"]))
        mv = sum(np.where(i == k, m, 0.0) for k, m in enumerate(c["mv"]))
        return lp + nlp(c["y"], mv + th.get("mu", 0.0), c["s"])


class FlipThenNormal(Family):
    """b ~ flip(pm); x ~ N(+d if b else -d, s0); y ~ N(x, s1).
    guide b ~ flip(qp); x ~ N(a1 if b else a2, bq)."""

    name = "flip-then-normal"
    n_lat = 2

    def q_sites(self, th, xs):
        if len(xs) == 0:
            return ("flip", th["qp"])
        if len(xs) == 1:
            return ("normal", np.where(xs[0], th["a1"], th["a2"]), th["bq"])
        return None

    def logq(self, th, xs):
        b, x = xs
        return np.where(b, np.log(th["qp"]), np.log1p(-th["qp"])) + nlp(x, np.where(b, th["a1"], th["a2"]), th["bq"])

    def logp(self, th, xs):
        c = self.c
        b, x = xs
        return np.where(b, math.log(c["pm"]), math.log1p(-c["pm"])) + nlp(x, np.where(b, c["d"], -c["d"]), c["s0"]) + nlp(c["y"], x, c["s1"])


class MvDiag(Family):
    """x ~ N(0, s0 I_2); y ~ N(x0 + x1, s1).  guide x ~ N([a, k*a + c0], diag([b, c1 + b]))."""

    name = "mvdiag"
    n_lat = 1

    def q_sites(self, th, xs):
        if len(xs) >= 1:
            return None
        c = self.c
        return ("mvdiag", [th["a"], c["k"] * th["a"] + c["c0"]], [th["b"], c["c1"] + th["b"]])

    def logq(self, th, xs):
        c = self.c
        x0, x1 = xs[0]
        return nlp(x0, th["a"], th["b"]) + nlp(x1, c["k"] * th["a"] + c["c0"], c["c1"] + th["b"])

    def logp(self, th, xs):
        c = self.c
        x0, x1 = xs[0]
        return nlp(x0, 0.0, c["s0"]) + nlp(x1, 0.0, c["s0"]) + nlp(c["y"], x0 + x1, c["s1"])


def grad_fd(fn, names, th, h=1e-4):
    """(value, {name: d/dname}, ok): Richardson central differences of a float64 objective."""
    v0 = fn(th)
    g = {}
    ok = bool(np.isfinite(v0))
    for k in names:
        ds = []
        for m in (1, 2):
            tp = dict(th)
            tm = dict(th)
            tp[k] += m * h
            tm[k] -= m * h
            ds.append((fn(tp) - fn(tm)) / (2 * m * h))
        d = (4 * ds[0] - ds[1]) / 3.0
        if not np.isfinite(d) or abs(ds[0] - ds[1]) > 1e-5 * (1 + abs(d)):
            ok = False
        g[k] = float(d)
    return float(v0), g, ok
