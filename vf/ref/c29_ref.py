"""Reference model for C29 (ADEV estimators): plain numpy / scipy, float64.

A *program* is plain data (JSON-able):

    {"n_theta": 2, "theta_form": "scalars" | "vector",
     "sites": [ {"kind": K, "args": [...], "guard": j | None, "else": const, "base": expr | None} ],
     "costs": [[pos, expr], ...],      # add_cost(expr) emitted just before site `pos` (pos == n_sites: at the end)
     "ret": expr}

Expressions (all float valued):
    ["c", x]  ["t", i]  ["v", j]  ["vk", j, k]
    ["add", a, b] ["sub", a, b] ["mul", a, b] ["sq", a] ["sin", a] ["sig", a]
    ["where", j, a, b]  ["cond", j, a, b]      (j: a bool site)
    ["tab", j, [a0, a1, a2]]  ["tabw", j, [a0, a1, a2]]   (j: a categorical site)

Site kinds and their argument layout (`args`):
    flip_enum, flip_enum_parallel, flip_reinforce, flip_mvd : [p]                -> bool
    categorical_enum_parallel                              : [[p0, p1, p2]]     -> int  (probabilities, sum 1)
    geometric_reinforce                                    : [logit]            -> float (k = 0, 1, ...; success prob sigmoid(logit))
    normal_reparam, normal_reinforce                       : [mu, sigma]        -> float
    mv_normal_diag_reparam                                 : [[m0, m1], [s0, s1]] -> vec2
    mv_normal_reparam                                      : [[m0, m1], [a, c, b]] -> vec2, covariance [[a, c], [c, b]]
    uniform                                                : []                 -> float in (0, 1)
    beta_implicit                                          : [alpha, beta]      -> float (args depend on theta only)

The *meaning* of a program is the expectation, over independent draws at every site (each from
the distribution its primitive names, with the parameters computed from theta and earlier
values), of   ret + sum of add_cost terms.   A guarded site is drawn only when its guard site
is True and otherwise has the constant value `else`.

This module provides
  * value(prog, theta, assignment)        the program's value for given site values
  * expect(prog, theta, n)                the exact expectation (enumeration / Gauss quadrature)
  * grad_expect(prog, theta)              its gradient by central differences in float64
  * PathModel(prog, theta0, records)      expectation over the *enumeration* sites only, with the
                                          noise of every sampled site fixed to what was observed
                                          (records = tapped site values), as a function of theta:
                                          this gives the exact primal and the exact pathwise
                                          tangent of one forward-mode estimate.
"""

from __future__ import annotations

import math

import numpy as np

BOOL_KINDS = ("flip_enum", "flip_enum_parallel", "flip_reinforce", "flip_mvd")
ENUM_KINDS = ("flip_enum", "flip_enum_parallel", "categorical_enum_parallel")
# kinds whose pathwise coupling x = T(theta, noise) is fixed by the primitive's meaning
REPARAM_DET_KINDS = ("normal_reparam", "mv_normal_diag_reparam", "mv_normal_reparam", "uniform")
TAILCALL_KINDS = ("normal_reparam", "mv_normal_diag_reparam", "mv_normal_reparam", "uniform", "beta_implicit")
NORMAL_NOISE_KINDS = ("normal_reparam", "normal_reinforce", "mv_normal_diag_reparam", "mv_normal_reparam")
VEC_KINDS = ("mv_normal_diag_reparam", "mv_normal_reparam")
ALL_KINDS = (
    "flip_enum", "flip_enum_parallel", "flip_mvd", "flip_reinforce", "categorical_enum_parallel",
    "geometric_reinforce", "normal_reparam", "normal_reinforce", "mv_normal_diag_reparam",
    "mv_normal_reparam", "uniform", "beta_implicit",
)
GEOM_K = 160


def site_type(kind):
    if kind in BOOL_KINDS:
        return "bool"
    if kind == "categorical_enum_parallel":
        return "cat"
    if kind in VEC_KINDS:
        return "vec"
    return "float"


# ------------------------------------------------------------------ expression evaluation


def _sig(x):
    return 1.0 / (1.0 + np.exp(-x))


def ev(e, theta, env):
    """Evaluate an expression; works on python floats and on broadcastable numpy arrays."""
    op = e[0]
    if op == "c":
        return np.float64(e[1])
    if op == "t":
        return np.float64(theta[e[1]])
    if op == "v":
        return np.asarray(env[e[1]], dtype=np.float64)
    if op == "vk":
        return np.asarray(env[e[1]][e[2]], dtype=np.float64)
    if op == "add":
        return ev(e[1], theta, env) + ev(e[2], theta, env)
    if op == "sub":
        return ev(e[1], theta, env) - ev(e[2], theta, env)
    if op == "mul":
        return ev(e[1], theta, env) * ev(e[2], theta, env)
    if op == "sq":
        a = ev(e[1], theta, env)
        return a * a
    if op == "sin":
        return np.sin(ev(e[1], theta, env))
    if op == "sig":
        return _sig(ev(e[1], theta, env))
    if op in ("where", "cond"):
        return np.where(np.asarray(env[e[1]], dtype=bool), ev(e[2], theta, env), ev(e[3], theta, env))
    if op in ("tab", "tabw"):
        idx = np.asarray(env[e[1]])
        out = 0.0
        for k, sub in enumerate(e[2]):
            out = out + np.where(idx == k, ev(sub, theta, env), 0.0)
        return out
    raise ValueError(f"unknown expression {e!r}")


def site_args(site, theta, env):
    k = site["kind"]
    a = site["args"]
    if k in VEC_KINDS or k == "categorical_enum_parallel":
        return [[ev(x, theta, env) for x in grp] for grp in a]
    return [ev(x, theta, env) for x in a]


def chol2(a, c, b):
    l11 = np.sqrt(a)
    l21 = c / l11
    l22 = np.sqrt(b - l21 * l21)
    return l11, l21, l22


def costs_at(prog, pos):
    return [c[1] for c in prog.get("costs", []) if c[0] == pos]


def value(prog, theta, assignment):
    """ret + add_cost terms for a complete assignment {site index: value}."""
    n = len(prog["sites"])
    tot = np.float64(0.0)
    for pos in range(n + 1):
        env = {j: assignment[j] for j in range(pos)}
        for c in costs_at(prog, pos):
            tot = tot + ev(c, theta, env)
    return tot + ev(prog["ret"], theta, assignment)


# ------------------------------------------------------------------ exact expectation

_GH = {}
_GL = {}


def gh(n):
    if n not in _GH:
        t, w = np.polynomial.hermite.hermgauss(n)
        _GH[n] = (t * math.sqrt(2.0), w / math.sqrt(math.pi))
    return _GH[n]


def gl01(n):
    if n not in _GL:
        t, w = np.polynomial.legendre.leggauss(n)
        _GL[n] = ((t + 1.0) / 2.0, w / 2.0)
    return _GL[n]


def gj_beta(alpha, beta, n):
    from scipy.special import roots_jacobi

    # Beta(alpha, beta) density ∝ x^(alpha-1) (1-x)^(beta-1); with x = (1+t)/2: (1+t)^(alpha-1) (1-t)^(beta-1)
    t, w = roots_jacobi(n, beta - 1.0, alpha - 1.0)
    return (t + 1.0) / 2.0, w / np.sum(w)


def _axes(kind):
    return 2 if kind in VEC_KINDS else 1


def n_cont_axes(prog):
    tot = 0
    for s in prog["sites"]:
        if s["kind"] in BOOL_KINDS or s["kind"] == "categorical_enum_parallel":
            continue
        tot += _axes(s["kind"])
    return tot


def expect(prog, theta, n=None):
    """Exact E[ret + costs] (float64).  One array axis per integration variable."""
    theta = [float(t) for t in theta]
    if n is None:
        n = {0: 8, 1: 96, 2: 64, 3: 40}.get(n_cont_axes(prog), 24)
    env = {}
    W = np.ones(())
    cost = np.zeros(())
    sites = prog["sites"]

    def lift():
        nonlocal env, W, cost
        new = {}
        for k, v in env.items():
            if isinstance(v, tuple):
                new[k] = tuple(np.asarray(x)[..., None] for x in v)
            else:
                new[k] = np.asarray(v)[..., None]
        env = new
        W = W[..., None]
        cost = np.asarray(cost)[..., None]

    for j, site in enumerate(sites):
        for c in costs_at(prog, j):
            cost = cost + ev(c, theta, env)
        kind = site["kind"]
        args = site_args(site, theta, env)
        g = None
        if site.get("guard") is not None:
            g = np.asarray(env[site["guard"]], dtype=bool)
        if kind in BOOL_KINDS:
            p = np.asarray(args[0], dtype=np.float64)[..., None]
            vals = np.array([True, False])
            w = np.concatenate([p, 1.0 - p], axis=-1)
            lift()
            if g is not None:
                vals = np.where(g[..., None], vals, bool(site["else"]))
            env[j] = vals
            W = W * w
        elif kind == "categorical_enum_parallel":
            ps = [np.asarray(x, dtype=np.float64)[..., None] for x in args[0]]
            ps = np.broadcast_arrays(*ps)
            w = np.concatenate(ps, axis=-1)
            lift()
            env[j] = np.arange(len(ps))
            W = W * w
        elif kind == "geometric_reinforce":
            p = _sig(np.asarray(args[0], dtype=np.float64))[..., None]
            ks = np.arange(GEOM_K, dtype=np.float64)
            w = p * (1.0 - p) ** ks
            lift()
            vals = ks
            if g is not None:
                vals = np.where(g[..., None], vals, float(site["else"]))
            env[j] = vals
            W = W * w
        elif kind in ("normal_reparam", "normal_reinforce"):
            z, w = gh(n)
            mu = np.asarray(args[0], dtype=np.float64)[..., None]
            sg = np.asarray(args[1], dtype=np.float64)[..., None]
            vals = mu + sg * z
            lift()
            if g is not None:
                vals = np.where(g[..., None], vals, float(site["else"]))
            env[j] = vals
            W = W * w
        elif kind == "uniform":
            x, w = gl01(n)
            lift()
            env[j] = x
            W = W * w
        elif kind == "beta_implicit":
            al, be = float(args[0]), float(args[1])
            x, w = gj_beta(al, be, n)
            lift()
            env[j] = x
            W = W * w
        elif kind in VEC_KINDS:
            z, w = gh(n)
            m0, m1 = [np.asarray(x, dtype=np.float64)[..., None, None] for x in args[0]]
            z0 = z[:, None]
            z1 = z[None, :]
            if kind == "mv_normal_diag_reparam":
                s0, s1 = [np.asarray(x, dtype=np.float64)[..., None, None] for x in args[1]]
                x0 = m0 + s0 * z0 + 0.0 * z1
                x1 = m1 + s1 * z1 + 0.0 * z0
            else:
                a, c, b = [np.asarray(x, dtype=np.float64)[..., None, None] for x in args[1]]
                l11, l21, l22 = chol2(a, c, b)
                x0 = m0 + l11 * z0 + 0.0 * z1
                x1 = m1 + l21 * z0 + l22 * z1
            lift()
            lift()
            env[j] = (x0, x1)
            W = W * (w[:, None] * w[None, :])
        else:
            raise ValueError(kind)
    for c in costs_at(prog, len(sites)):
        cost = cost + ev(c, theta, env)
    val = ev(prog["ret"], theta, env) + cost
    return float(np.sum(W * val))


def expect_checked(prog, theta):
    """(E, ok): ok is False when two quadrature resolutions disagree (reference not trusted)."""
    k = n_cont_axes(prog)
    n1 = {0: 8, 1: 96, 2: 64, 3: 40}.get(k, 24)
    n2 = {0: 8, 1: 128, 2: 80, 3: 48}.get(k, 28)
    a = expect(prog, theta, n1)
    b = expect(prog, theta, n2)
    ok = np.isfinite(a) and np.isfinite(b) and abs(a - b) <= 1e-7 * (1.0 + abs(a))
    return b, bool(ok)


def grad_expect(prog, theta, h=1e-4):
    """(E, [dE/dtheta_i], ok) by central differences of the exact expectation."""
    theta = [float(t) for t in theta]
    e0, ok = expect_checked(prog, theta)
    g = []
    for i in range(len(theta)):
        tp = list(theta)
        tm = list(theta)
        tp[i] += h
        tm[i] -= h
        tp2 = list(theta)
        tm2 = list(theta)
        tp2[i] += 2 * h
        tm2[i] -= 2 * h
        ep, em = expect(prog, tp), expect(prog, tm)
        ep2, em2 = expect(prog, tp2), expect(prog, tm2)
        d1 = (ep - em) / (2 * h)
        d2 = (ep2 - em2) / (4 * h)
        d = (4 * d1 - d2) / 3.0  # Richardson
        if not np.isfinite(d) or abs(d1 - d2) > 1e-5 * (1.0 + abs(d)):
            ok = False
        g.append(float(d))
    return e0, g, ok


# ------------------------------------------------------------------ one estimate, noise fixed


class Ambiguous(Exception):
    pass


class PathModel:
    """Expectation over enumeration sites with every sampled site's noise as observed.

    records: list of complete assignments (list indexed by site; vec sites as [x0, x1]).
    Every record describes one enumeration path (the values of the ENUM sites identify it).
    """

    def __init__(self, prog, theta0, records):
        self.prog = prog
        self.theta0 = [float(t) for t in theta0]
        self.sites = prog["sites"]
        self.enum_idx = [j for j, s in enumerate(self.sites) if s["kind"] in ENUM_KINDS]
        self.table = {}
        for r in records:
            key = tuple(self._norm(r[j]) for j in self.enum_idx)
            self.table.setdefault(key, [])
            if r not in self.table[key]:
                self.table[key].append(r)

    @staticmethod
    def _norm(v):
        if isinstance(v, (bool, np.bool_)):
            return bool(v)
        return int(v)

    def candidates(self):
        """All ways of choosing one record per enumeration path (only mvd makes >1)."""
        import itertools

        keys = sorted(self.table)
        lists = [self.table[k] for k in keys]
        n = 1
        for x in lists:
            n *= len(x)
        if n > 64:
            raise Ambiguous("too many candidate records")
        for combo in itertools.product(*lists):
            yield dict(zip(keys, combo))

    def noise_of(self, choice):
        """{path key: {site: noise}} computed at theta0 from the observed values."""
        out = {}
        for key, rec in choice.items():
            env = {}
            nz = {}
            for j, s in enumerate(self.sites):
                kind = s["kind"]
                val = rec[j]
                executed = s.get("guard") is None or bool(env[s["guard"]])
                if kind in VEC_KINDS:
                    val = (float(val[0]), float(val[1]))
                if executed and kind in ("normal_reparam", "normal_reinforce"):
                    mu, sg = site_args(s, self.theta0, env)
                    nz[j] = (float(val) - float(mu)) / float(sg)
                elif executed and kind == "mv_normal_diag_reparam":
                    (m0, m1), (s0, s1) = site_args(s, self.theta0, env)
                    nz[j] = ((val[0] - float(m0)) / float(s0), (val[1] - float(m1)) / float(s1))
                elif executed and kind == "mv_normal_reparam":
                    (m0, m1), (a, c, b) = site_args(s, self.theta0, env)
                    l11, l21, l22 = chol2(float(a), float(c), float(b))
                    e0 = (val[0] - float(m0)) / l11
                    e1 = (val[1] - float(m1) - l21 * e0) / l22
                    nz[j] = (e0, e1)
                env[j] = val
            out[key] = nz
        return out

    def contributions(self, theta, choice, noise, pathwise=True):
        """{path key: P(path; theta) * value(path; theta)}; sampled sites follow their noise
        (pathwise=True, REPARAM_DET kinds only) or stay at the observed value."""
        out = {}
        theta = [float(t) for t in theta]

        def rec(j, env, prob, key):
            if j == len(self.sites):
                out[key] = prob * float(value(self.prog, theta, env))
                return
            s = self.sites[j]
            kind = s["kind"]
            executed = s.get("guard") is None or bool(env[s["guard"]])
            if kind in ENUM_KINDS:
                if not executed:
                    k2 = key + (self._norm(s["else"]),)
                    rec(j + 1, {**env, j: s["else"]}, prob, k2)
                    return
                args = site_args(s, theta, env)
                if kind == "categorical_enum_parallel":
                    for k, p in enumerate(args[0]):
                        rec(j + 1, {**env, j: k}, prob * float(p), key + (k,))
                else:
                    p = float(args[0])
                    rec(j + 1, {**env, j: True}, prob * p, key + (True,))
                    rec(j + 1, {**env, j: False}, prob * (1.0 - p), key + (False,))
                return
            # sampled site: need the observation for this path; the path key is only complete
            # at the end, so look up by prefix
            full = [k for k in choice if k[: len(key)] == key]
            if not full:
                raise Ambiguous(f"no record for enumeration path {key}")
            # all records sharing the prefix must agree on this site's value/noise
            r0 = choice[full[0]]
            val = r0[j]
            if kind in VEC_KINDS:
                val = (float(val[0]), float(val[1]))
            nz = noise[full[0]].get(j)
            for k in full[1:]:
                v2 = choice[k][j]
                if kind in VEC_KINDS:
                    v2 = (float(v2[0]), float(v2[1]))
                if v2 != val:
                    raise Ambiguous("records sharing an enumeration prefix disagree on an earlier sampled site")
            if executed and pathwise and kind in REPARAM_DET_KINDS and kind != "uniform":
                args = site_args(s, theta, env)
                if kind == "normal_reparam":
                    val = float(args[0]) + float(args[1]) * nz
                elif kind == "mv_normal_diag_reparam":
                    (m0, m1), (s0, s1) = args
                    val = (float(m0) + float(s0) * nz[0], float(m1) + float(s1) * nz[1])
                else:
                    (m0, m1), (a, c, b) = args
                    l11, l21, l22 = chol2(float(a), float(c), float(b))
                    val = (float(m0) + l11 * nz[0], float(m1) + l21 * nz[0] + l22 * nz[1])
            rec(j + 1, {**env, j: val}, prob, key)

        rec(0, {}, 1.0, ())
        return out

    def primal_and_tangents(self, choice, h=1e-4):
        """Expected primal, per-parameter tangents (pathwise, central differences) and a
        magnitude scale for tolerances."""
        noise = self.noise_of(choice)
        c0 = self.contributions(self.theta0, choice, noise)
        primal = sum(c0.values())
        pscale = sum(abs(v) for v in c0.values())
        tangents, tscales = [], []
        for i in range(len(self.theta0)):
            ds = {}
            for mult in (1, 2):
                tp = list(self.theta0)
                tm = list(self.theta0)
                tp[i] += mult * h
                tm[i] -= mult * h
                cp = self.contributions(tp, choice, noise)
                cm = self.contributions(tm, choice, noise)
                ds[mult] = {k: (cp[k] - cm[k]) / (2 * mult * h) for k in cp}
            per = {k: (4 * ds[1][k] - ds[2][k]) / 3.0 for k in ds[1]}
            tangents.append(sum(per.values()))
            tscales.append(sum(abs(v) for v in per.values()))
        return primal, tangents, pscale, tscales

    def primal_only(self, choice):
        noise = self.noise_of(choice)
        c0 = self.contributions(self.theta0, choice, noise, pathwise=False)
        return sum(c0.values()), sum(abs(v) for v in c0.values())


# ------------------------------------------------------------------ pretty printer (witnesses)


def expr_src(e):
    op = e[0]
    if op == "c":
        return repr(float(e[1]))
    if op == "t":
        return f"t{e[1]}"
    if op == "v":
        return f"v{e[1]}"
    if op == "vk":
        return f"v{e[1]}[{e[2]}]"
    if op in ("add", "sub", "mul"):
        s = {"add": "+", "sub": "-", "mul": "*"}[op]
        return f"({expr_src(e[1])} {s} {expr_src(e[2])})"
    if op == "sq":
        return f"({expr_src(e[1])})**2"
    if op == "sin":
        return f"jnp.sin({expr_src(e[1])})"
    if op == "sig":
        return f"jax.nn.sigmoid({expr_src(e[1])})"
    if op == "where":
        return f"jnp.where(v{e[1]}, {expr_src(e[2])}, {expr_src(e[3])})"
    if op == "cond":
        return f"jax.lax.cond(v{e[1]}, lambda: {expr_src(e[2])}, lambda: {expr_src(e[3])})"
    if op == "tab":
        return f"jnp.stack([{', '.join(expr_src(x) for x in e[2])}])[v{e[1]}]"
    if op == "tabw":
        return "(" + " + ".join(f"jnp.where(v{e[1]} == {k}, {expr_src(x)}, 0.0)" for k, x in enumerate(e[2])) + ")"
    return repr(e)


def prog_src(prog):
    n = prog["n_theta"]
    if prog.get("theta_form") == "vector":
        head = "def f(th):  # th: array of %d\n    %s = %s\n" % (n, ", ".join(f"t{i}" for i in range(n)) + ("," if n == 1 else ""), ", ".join(f"th[{i}]" for i in range(n)) + ("," if n == 1 else ""))
    else:
        head = "def f(%s):\n" % ", ".join(f"t{i}" for i in range(n))
    lines = []
    sites = prog["sites"]
    for j, s in enumerate(sites):
        for c in costs_at(prog, j):
            lines.append(f"add_cost({expr_src(c)})")
        k = s["kind"]
        if k in VEC_KINDS:
            if k == "mv_normal_diag_reparam":
                a = "jnp.stack([%s]), jnp.stack([%s])" % (", ".join(map(expr_src, s["args"][0])), ", ".join(map(expr_src, s["args"][1])))
            else:
                ca, cc, cb = map(expr_src, s["args"][1])
                a = "jnp.stack([%s]), jnp.array([[%s, %s], [%s, %s]])" % (", ".join(map(expr_src, s["args"][0])), ca, cc, cc, cb)
        elif k == "categorical_enum_parallel":
            a = "jnp.stack([%s])" % ", ".join(map(expr_src, s["args"][0]))
        elif k == "geometric_reinforce":
            a = "(%s,)" % expr_src(s["args"][0])
        else:
            a = ", ".join(map(expr_src, s["args"]))
        k = s.get("prim", k)
        call = f"{k}({a})"
        if s.get("base") is not None:
            call = f"baseline({k})({expr_src(s['base'])}{', ' if a else ''}{a})"
        if s.get("guard") is not None:
            call = f"jax.lax.cond(v{s['guard']}, lambda: {call}, lambda: {s['else']!r})"
        lines.append(f"v{j} = {call}")
    for c in costs_at(prog, len(sites)):
        lines.append(f"add_cost({expr_src(c)})")
    lines.append(f"return {expr_src(prog['ret'])}")
    return head + "\n".join("    " + x for x in lines)
