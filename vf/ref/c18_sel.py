"""Reference model for C18: a selection denotes a set of static addresses.

Independent of genjax: plain Python predicates over address tuples.  An address is a tuple of
strings (``()`` is the empty address).  Documented meaning of the constructors
(docstrings of ``Selection`` in choice_map.py):

* ``all``            every address (``Selection.all()["any_address"]`` is True)
* ``none``           no address
* ``leaf``           only the empty address (``leaf.extend("a","b")`` selects ("a","b") but not
                     ("a","b","anything"))
* ``S.extend(c)``    {(x,)+r : r in S, x matches c}; the component ``...`` matches any x
* ``at[p1..pk]``     ``all.extend(p1..pk)`` : every address that has a prefix matching p1..pk;
                     ``at[()]`` is ``leaf``
* ``|  &  ~``        union, intersection, complement (relative to all addresses)
* ``ChmSel(m)``      the addresses that hold a value in the (static-address) choice map m

A *term* is a nested tuple:
  ("all",) ("none",) ("leaf",) ("at", pattern) ("exact", pattern) ("chm", addr-tuple-set)
  ("ext", comp, term) ("not", term) ("or", t, u) ("and", t, u)
where a pattern is a tuple of strings / Ellipsis.
"""

from __future__ import annotations

import itertools

WILD = Ellipsis


def universe(alphabet=("a", "b", "c"), maxlen=3):
    out = [()]
    for n in range(1, maxlen + 1):
        out.extend(itertools.product(alphabet, repeat=n))
    return out


def _match(c, x):
    return c is WILD or c == x


def member(term, addr) -> bool:
    """Denotational membership, by structural recursion on the term."""
    k = term[0]
    if k == "all":
        return True
    if k == "none":
        return False
    if k == "leaf":
        return addr == ()
    if k == "at":
        p = term[1]
        if len(p) == 0:
            return addr == ()
        return len(addr) >= len(p) and all(_match(c, x) for c, x in zip(p, addr))
    if k == "exact":
        p = term[1]
        return len(addr) == len(p) and all(_match(c, x) for c, x in zip(p, addr))
    if k == "chm":
        return addr in term[1]
    if k == "ext":
        return len(addr) >= 1 and _match(term[1], addr[0]) and member(term[2], addr[1:])
    if k == "not":
        return not member(term[1], addr)
    if k == "or":
        return member(term[1], addr) or member(term[2], addr)
    if k == "and":
        return member(term[1], addr) and member(term[2], addr)
    raise ValueError(k)


def bitmask(term, univ) -> int:
    m = 0
    for i, a in enumerate(univ):
        if member(term, a):
            m |= 1 << i
    return m


def has_binary(term) -> bool:
    k = term[0]
    if k in ("or", "and"):
        return True
    if k == "not":
        return has_binary(term[1])
    if k == "ext":
        return has_binary(term[2])
    return False


def has_wild_or_not(term) -> bool:
    k = term[0]
    if k == "not":
        return True
    if k in ("at", "exact"):
        return any(c is WILD for c in term[1])
    if k == "ext":
        return term[1] is WILD or has_wild_or_not(term[2])
    if k in ("or", "and"):
        return has_wild_or_not(term[1]) or has_wild_or_not(term[2])
    return False


def show(term) -> str:
    k = term[0]

    def pat(p):
        return ",".join("..." if c is WILD else repr(c) for c in p)

    if k in ("all", "none", "leaf"):
        return f"S.{k}()"
    if k == "at":
        return f"S.at[{pat(term[1])}]" if term[1] else "S.at[()]"
    if k == "exact":
        return f"S.leaf().extend({pat(term[1])})"
    if k == "chm":
        return "ChmSel{" + ";".join("/".join(a) for a in sorted(term[1])) + "}"
    if k == "ext":
        return f"({show(term[2])}).extend({pat((term[1],))})"
    if k == "not":
        return f"~({show(term[1])})"
    if k == "or":
        return f"({show(term[1])} | {show(term[2])})"
    if k == "and":
        return f"({show(term[1])} & {show(term[2])})"
    raise ValueError(k)
