"""Reference model for C19: Mask algebra as documented truth tables, elementwise.

Plain numpy.  A reference mask is (flag, value): `flag` a numpy bool array of batch shape B
(() for a scalar mask), `value` a pytree (dict / tuple / list nesting) of numpy arrays whose
leaf shapes start with B (the documented meaning of a vectorised flag: "each leaf in the
pytree must have the flag's shape as its prefix").  Every operation acts independently on
each batch element:

    a | b   flag = fa or fb ;  value = a's where fa, else b's            (both valid -> first)
    a ^ b   flag = fa xor fb;  value = a's where only fa, b's where only fb
    ~a      flag = not fa   ;  value unchanged
    build(v, f)            Mask(v, f)          ; build(Mask(v, g), f) = Mask(v, f and g)
    flatten / maybe_mask   same observable (flag, value) as the mask itself
    unmask(default)        value where flag else default, leafwise
    a[path]                flag[path restricted to the flag's dims], leaf[path]
    or_n / xor_n           left folds of | and ^

Only the observable (flag, value where flag is True) is ever compared.
"""

from __future__ import annotations

import numpy as np


class RMask:
    def __init__(self, value, flag):
        self.value = value
        self.flag = np.asarray(flag, dtype=bool)

    def __repr__(self):
        return f"RMask(flag={self.flag.tolist()}, value={self.value})"


def tmap(f, *trees):
    t = trees[0]
    if isinstance(t, dict):
        return {k: tmap(f, *[x[k] for x in trees]) for k in t}
    if isinstance(t, (tuple, list)):
        return type(t)(tmap(f, *xs) for xs in zip(*trees))
    return f(*trees)


def leaves(t):
    if isinstance(t, dict):
        out = []
        for k in sorted(t):
            out.extend(leaves(t[k]))
        return out
    if isinstance(t, (tuple, list)):
        out = []
        for x in t:
            out.extend(leaves(x))
        return out
    return [t]


def ex(flag, leaf):
    """Align a batch-shaped flag with a leaf of shape B + rest."""
    leaf = np.asarray(leaf)
    flag = np.asarray(flag, dtype=bool)
    return flag.reshape(flag.shape + (1,) * (leaf.ndim - flag.ndim))


def r_or(a: RMask, b: RMask) -> RMask:
    return RMask(tmap(lambda x, y: np.where(ex(a.flag, x), x, y), a.value, b.value), a.flag | b.flag)


def r_xor(a: RMask, b: RMask) -> RMask:
    only_a = a.flag & ~b.flag
    return RMask(tmap(lambda x, y: np.where(ex(only_a, x), x, y), a.value, b.value), a.flag ^ b.flag)


def r_inv(a: RMask) -> RMask:
    return RMask(a.value, ~a.flag)


def r_build(v, f) -> RMask:
    f = np.asarray(f, dtype=bool)
    if isinstance(v, RMask):
        return RMask(v.value, f & v.flag)
    return RMask(v, f)


def r_unmask(a: RMask, default):
    return tmap(lambda x, d: np.where(ex(a.flag, x), x, d), a.value, default)


def r_getitem(a: RMask, path) -> RMask:
    path = path if isinstance(path, tuple) else (path,)
    f = a.flag
    if f.ndim:
        f = f[path[: f.ndim]]
    return RMask(tmap(lambda x: np.asarray(x)[path], a.value), f)


def r_fold(op, masks):
    acc = masks[0]
    for m in masks[1:]:
        acc = op(acc, m)
    return acc


def element(m: RMask, idx) -> RMask:
    """Batch element idx (tuple) of a reference mask."""
    return RMask(tmap(lambda x: np.asarray(x)[idx], m.value), m.flag[idx])
