"""Reference model for small discrete hidden Markov models (C37) — numpy/scipy only, float64.

Model (the construction documented in discrete_hmm.py and used by its TFP formulation):
given an (N, N) matrix of transition logits `tt` and an (N, N) matrix of observation logits
`ot`,

    P(x_1 = j)             = softmax(tt[N // 2, :])[j]        (start row N // 2)
    P(x_t = j | x_{t-1}=i) = softmax(tt[i, :])[j]             (rows are the *from* state)
    P(y_t = y | x_t = i)   = softmax(ot[i, :])[y]

Everything below is brute force over all N**T latent sequences; the forward algorithm is
implemented separately and used to cross-check the enumeration (`self_check`).
"""

from __future__ import annotations

import itertools

import numpy as np
from scipy import special, stats


def log_softmax_rows(logits):
    a = np.asarray(logits, dtype=np.float64)
    return a - special.logsumexp(a, axis=-1, keepdims=True)


class HMM:
    """log_init (N,), log_trans (N,N) [from,to], log_obs (N,N) [state,symbol]."""

    def __init__(self, trans_logits, obs_logits):
        tt = np.asarray(trans_logits, dtype=np.float64)
        ot = np.asarray(obs_logits, dtype=np.float64)
        if tt.ndim != 2 or tt.shape[0] != tt.shape[1] or ot.shape != tt.shape:
            raise ValueError(f"logit tensors must be equal square matrices, got {tt.shape} / {ot.shape}")
        self.N = tt.shape[0]
        self.log_trans = log_softmax_rows(tt)
        self.log_obs = log_softmax_rows(ot)
        self.log_init = self.log_trans[self.N // 2].copy()

    def finite(self):
        return bool(np.all(np.isfinite(self.log_trans)) and np.all(np.isfinite(self.log_obs)))

    # ---- brute force
    def sequences(self, T):
        """All N**T latent sequences, row r is the base-N expansion of r (most significant first)."""
        return np.asarray(list(itertools.product(range(self.N), repeat=T)), dtype=np.int64).reshape(-1, T)

    def seq_index(self, seqs):
        seqs = np.asarray(seqs, dtype=np.int64)
        T = seqs.shape[-1]
        w = self.N ** np.arange(T - 1, -1, -1, dtype=np.int64)
        return (seqs * w).sum(-1)

    def log_joint(self, latents, obs):
        """log P(x_{1:T} = latents, y_{1:T} = obs), term by term in python."""
        lp = 0.0
        prev = None
        for x, y in zip(latents, obs):
            x = int(x)
            y = int(y)
            lp += self.log_init[x] if prev is None else self.log_trans[prev, x]
            lp += self.log_obs[x, y]
            prev = x
        return float(lp)

    def enumerate(self, obs):
        """-> (seqs (N^T,T), log_posterior (N^T,), log_marginal)."""
        obs = [int(o) for o in np.asarray(obs).ravel()]
        seqs = self.sequences(len(obs))
        lj = np.asarray([self.log_joint(s, obs) for s in seqs], dtype=np.float64)
        lm = float(special.logsumexp(lj))
        return seqs, lj - lm, lm

    # ---- independent second route (forward algorithm), used for self-check and filter monitor
    def forward(self, obs):
        """-> (filters (T,N) with filters[t,i] = log P(x_t=i | y_{1:t}), log_marginal)."""
        obs = [int(o) for o in np.asarray(obs).ravel()]
        alpha = self.log_init + self.log_obs[:, obs[0]]
        out = [alpha - special.logsumexp(alpha)]
        for y in obs[1:]:
            # alpha_t(j) = p(y|j) * sum_i alpha_{t-1}(i) P(j | i)
            alpha = special.logsumexp(alpha[:, None] + self.log_trans, axis=0) + self.log_obs[:, y]
            out.append(alpha - special.logsumexp(alpha))
        return np.asarray(out), float(special.logsumexp(alpha))


def self_check(rng, n=20):
    """Enumeration and forward algorithm agree on random (asymmetric) HMMs; posterior sums to 1."""
    for _ in range(n):
        N = int(rng.integers(2, 5))
        T = int(rng.integers(1, 5))
        h = HMM(rng.normal(size=(N, N)) * 2, rng.normal(size=(N, N)) * 2)
        obs = rng.integers(0, N, size=T)
        seqs, lp, lm = h.enumerate(obs)
        filt, lm2 = h.forward(obs)
        if abs(lm - lm2) > 1e-9 or abs(special.logsumexp(lp)) > 1e-9:
            return False
        # last filter == marginal of the last latent under the enumerated posterior
        marg = np.zeros(N)
        np.add.at(marg, seqs[:, -1], np.exp(lp))
        if np.max(np.abs(marg - np.exp(filt[-1]))) > 1e-9:
            return False
    return True


# ---------------------------------------------------------------- exact-probability G-test


def gtest(counts, probs, min_expected=10.0):
    """Likelihood-ratio test of observed cell counts against exact cell probabilities.
    Cells are pooled (smallest expected first) until every cell has expected >= min_expected.
    -> dict(p, G, dof, cells, impossible) ; impossible = an outcome of probability 0 was observed."""
    counts = np.asarray(counts, dtype=np.float64)
    probs = np.asarray(probs, dtype=np.float64)
    n = counts.sum()
    impossible = bool(np.any((probs <= 0) & (counts > 0)))
    exp = probs * n
    order = np.argsort(exp, kind="stable")
    cells_o, cells_e = [], []
    acc_o = acc_e = 0.0
    small = True
    for k in order:
        if small and exp[k] < min_expected:
            acc_o += counts[k]
            acc_e += exp[k]
            if acc_e >= min_expected:
                cells_o.append(acc_o)
                cells_e.append(acc_e)
                acc_o = acc_e = 0.0
        else:
            if small:
                small = False
            cells_o.append(counts[k])
            cells_e.append(exp[k])
    if acc_e > 0 or acc_o > 0:  # remainder of the small cells: merge into the smallest pooled cell
        if cells_e:
            j = int(np.argmin(cells_e))
            cells_o[j] += acc_o
            cells_e[j] += acc_e
        else:
            cells_o.append(acc_o)
            cells_e.append(acc_e)
    o = np.asarray(cells_o)
    e = np.asarray(cells_e)
    dof = len(o) - 1
    if dof < 1:
        return {"p": 1.0, "G": 0.0, "dof": 0, "cells": int(len(o)), "impossible": impossible}
    nz = o > 0
    G = 2.0 * float(np.sum(o[nz] * np.log(o[nz] / e[nz])))
    G = max(G, 0.0)
    return {"p": float(stats.chi2.sf(G, dof)), "G": G, "dof": int(dof), "cells": int(len(o)), "impossible": impossible}
