"""Worker: runs one shard of one property check in its own process and writes a JSON summary."""

from __future__ import annotations

import argparse
import hashlib
import importlib
import json
import os
import sys
import time
import traceback

import numpy as np


def _jsonable(x, depth=0):
    """Best-effort conversion of witnesses/samples to JSON."""
    if depth > 8:
        return repr(x)[:200]
    if x is None or isinstance(x, (bool, int, str)):
        return x
    if isinstance(x, float):
        return x if np.isfinite(x) else repr(x)
    if isinstance(x, (np.bool_,)):
        return bool(x)
    if isinstance(x, (np.integer,)):
        return int(x)
    if isinstance(x, (np.floating,)):
        return _jsonable(float(x))
    if isinstance(x, dict):
        return {str(k): _jsonable(v, depth + 1) for k, v in list(x.items())[:200]}
    if isinstance(x, (list, tuple, set, frozenset)):
        return [_jsonable(v, depth + 1) for v in list(x)[:200]]
    try:
        a = np.asarray(x)
        if a.dtype != object and a.size <= 64:
            return _jsonable(a.tolist(), depth + 1)
        if a.dtype != object:
            return {"array_shape": list(a.shape), "head": _jsonable(a.ravel()[:8].tolist())}
    except Exception:
        pass
    return repr(x)[:300]


class Ctx:
    """What a property module sees. All counts end up in the evidence file."""

    def __init__(self, prop, tier, seed, shard, nshards, replay=None):
        self.prop = prop
        self.tier = tier
        self.seed = seed
        self.shard = shard
        self.nshards = nshards
        self.replay = replay
        self.propnum = int(prop[1:])
        self.rng = np.random.default_rng(np.random.SeedSequence([seed, self.propnum, shard]))
        self.evaluations = 0
        self.fingerprints = set()
        self.counters = {}
        self.reach = {}
        self.rejected = {}
        self.violations = []
        self.samples = []
        self.notes = []
        self.t0 = time.time()
        self.c0 = time.process_time()
        self._vio_per_sig = {}
        self.only_case = None

    # -- bookkeeping
    def quick(self):
        return self.tier == "quick"

    def pick(self, quick, thorough):
        return quick if self.tier == "quick" else thorough

    def child_rng(self, *path):
        return np.random.default_rng(
            np.random.SeedSequence([self.seed, self.propnum, self.shard, *[int(p) for p in path]])
        )

    def my_share(self, total):
        """Indices of `range(total)` that belong to this shard (round robin).  In replay mode
        only the witness's case index (when the witness names one)."""
        if self.only_case is not None:
            return [self.only_case] if self.only_case < total and self.only_case % self.nshards == self.shard else []
        return range(self.shard, total, self.nshards)

    def evaluation(self, fingerprint=None, nontrivial=True, n=1):
        """One oracle comparison actually performed. `fingerprint` identifies the case class
        for the distinct_nontrivial count (only when nontrivial by the property's rule)."""
        self.evaluations += n
        if fingerprint is not None and nontrivial:
            h = hashlib.sha1(repr(fingerprint).encode()).hexdigest()[:16]
            self.fingerprints.add(h)

    def count(self, name, n=1):
        self.counters[name] = self.counters.get(name, 0) + n

    def reached(self, name, n=1):
        self.reach[name] = self.reach.get(name, 0) + n

    def reject(self, mechanism):
        self.rejected[mechanism] = self.rejected.get(mechanism, 0) + 1

    def sample(self, obj, limit=3):
        if len(self.samples) < limit:
            self.samples.append(_jsonable(obj))

    def note(self, s):
        if len(self.notes) < 20:
            self.notes.append(str(s)[:500])

    def violation(self, signature, **witness):
        from vf import findings

        findings.check_signature(signature)
        n = self._vio_per_sig.get(signature, 0)
        self._vio_per_sig[signature] = n + 1
        self.count("violations_raw")
        if n >= 5:  # keep the first few witnesses per mechanism
            return
        w = {"property": self.prop, "signature": signature, "tier": self.tier,
             "seed": self.seed, "shard": self.shard, "nshards": self.nshards}
        w.update({k: _jsonable(v) for k, v in witness.items()})
        self.violations.append(w)

    def elapsed(self):
        """Budget clock: the worker's own CPU time, so that a loaded machine does not shrink the
        workload (wall time is the cap: never less than a quarter of it, never more than it)."""
        wall = time.time() - self.t0
        cpu = time.process_time() - self.c0
        return min(wall, max(cpu, wall / 4.0))

    def summary(self):
        return {
            "prop": self.prop,
            "shard": self.shard,
            "evaluations": self.evaluations,
            "fingerprints": sorted(self.fingerprints),
            "counters": self.counters,
            "reach": self.reach,
            "rejected": self.rejected,
            "violations": self.violations,
            "samples": self.samples,
            "notes": self.notes,
            "wall_s": round(self.elapsed(), 2),
        }


def main(argv=None):
    ap = argparse.ArgumentParser()
    ap.add_argument("--prop", required=True)
    ap.add_argument("--tier", default="quick")
    ap.add_argument("--seed", type=int, default=0)
    ap.add_argument("--shard", type=int, default=0)
    ap.add_argument("--nshards", type=int, default=1)
    ap.add_argument("--out", required=True)
    ap.add_argument("--replay", default=None)
    a = ap.parse_args(argv)

    from vf import common

    common.import_repo()  # puts $VERIF_REPO/src first on sys.path and checks genjax's origin
    only_case = None
    if a.replay:
        # a replay file is one witness written by the parent: re-run exactly its shard / case
        with open(a.replay) as f:
            wit = json.load(f)
        a.seed = int(wit.get("seed", a.seed))
        a.tier = wit.get("tier", a.tier)
        a.shard = int(wit.get("shard", 0))
        a.nshards = int(wit.get("nshards", 16))
        try:
            only_case = int(str(wit.get("case", "")).split("/")[-1])
        except ValueError:
            only_case = None
    ctx = Ctx(a.prop, a.tier, a.seed, a.shard, a.nshards, a.replay)
    ctx.only_case = only_case
    mod = importlib.import_module(f"vf.props.{a.prop.lower()}")
    from vf import reach

    anchors = mod.CONFIG.get("reach_anchors", [])
    mon = reach.Monitor(anchors)
    mon.start()
    try:
        mod.run(ctx)
    except Exception:
        traceback.print_exc()
        ctx.note("worker crashed: " + traceback.format_exc()[-400:])
        mon.stop()
        for k, v in mon.counts().items():
            ctx.reached(k, v)
        with open(a.out, "w") as f:
            json.dump(ctx.summary(), f)
        return 3
    mon.stop()
    for k, v in mon.counts().items():
        ctx.reached(k, v)
    with open(a.out, "w") as f:
        json.dump(ctx.summary(), f, default=str)
    return 0


if __name__ == "__main__":
    sys.exit(main())
