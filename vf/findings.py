"""Known-findings file handling. The file is committed, never written at run time.

known_findings.json: {"findings": [ {property, signature, status: known|fixed, what, ...} ]}
A signature names the *mechanism* of a violation (operation, construct class, observable,
structural condition) — never random values or case ids.  `known` entries suppress exactly
their own signature for their own property; `fixed` entries suppress nothing.
"""

from __future__ import annotations

import json
import os
import re

HERE = os.path.dirname(os.path.dirname(os.path.abspath(__file__)))
PATH = os.path.join(HERE, "known_findings.json")

_NUM = re.compile(r"\d{3,}|\d+\.\d+")


def check_signature(sig: str) -> str:
    """Refuse signatures that smuggle in values (floats, long numbers)."""
    body = sig.split("|", 1)[1] if "|" in sig else sig
    if _NUM.search(body):
        raise ValueError(f"signature contains a value-like number: {sig}")
    return sig


def load() -> dict:
    if not os.path.exists(PATH):
        return {}
    with open(PATH) as f:
        data = json.load(f)
    out = {}
    for e in data.get("findings", []):
        if e.get("status") == "known":
            out[e["signature"]] = e
    return out


def classify(prop: str, violations: list, known: dict):
    unknown, hits = [], {}
    for v in violations:
        sig = v.get("signature", "")
        e = known.get(sig)
        if e is not None and e.get("property") == prop:
            hits.setdefault(sig, []).append(v)
        else:
            unknown.append(v)
    return unknown, hits
