"""C11 — vmap and repeat behave as independent elementwise calls.

Reference: N independent calls of the inner program on the i-th argument slices (per in_axes),
element i's choices under index i, scores/weights summed, returns stacked; repeat(n) = n copies;
zero-length maps are empty with score 0.  Non-interference: two importance runs with the same key
that differ only by a constraint at index i must agree at every other element."""

from vf.prog import gen
from vf.props import _drive

A = "genjax._src.generative_functions"
CONFIG = {
    "level": "exploration",
    "shards": {"quick": 16, "thorough": 16},
    "timeout_s": {"quick": 900, "thorough": 5400},
    "rule": 'case = program with a Vmap or Repeat root (inner programs from the grammar, in_axes with None entries, N in {0,1,2,3,5}) + importance with scalar-index / index-array constraints + updates + IndexRequest edits + same-key interference pairs. non-trivial: N>=2 and an op touches a strict subset of indices; distinct by (AST shape, op sequence).',
    "reach_anchors": ['genjax._src.generative_functions.combinators.vmap:Vmap.simulate', 'genjax._src.generative_functions.combinators.vmap:Vmap.generate', 'genjax._src.generative_functions.combinators.vmap:Vmap.edit_choice_map', 'genjax._src.generative_functions.combinators.vmap:Vmap.edit_index', 'genjax._src.generative_functions.combinators.vmap:Vmap.assess', 'genjax._src.generative_functions.combinators.repeat:RepeatCombinator'],
    "reach_required": ['genjax._src.generative_functions.combinators.vmap:Vmap.simulate', 'genjax._src.generative_functions.combinators.vmap:Vmap.generate', 'genjax._src.generative_functions.combinators.vmap:Vmap.edit_choice_map', 'genjax._src.generative_functions.combinators.vmap:Vmap.edit_index', 'genjax._src.generative_functions.combinators.vmap:Vmap.assess', 'genjax._src.generative_functions.combinators.repeat:RepeatCombinator'],
    "counters_required": ['interference_checks', 'ops:index_edit'],
    "assumptions": [
        "reference interpreter vf/prog/ast.py transcribes the documented combinator semantics; scipy float64 densities",
        "float32 tolerance 2e-4 (relative+absolute) scaled by sqrt(#terms)",
        "programs from the bounded grammar (depth<=2 quick, <=3 thorough; sizes<=3/5); values read through public choice-map lookups",
    ],
}

KINDS = ["Dist", "Static", "Vmap", "Repeat", "Dimap", "Scan"]


def cfg_fn(rng, ctx):
    depth = int(rng.choice([2, 2, 3])) if not ctx.quick() else 2
    return gen.Cfg(depth=depth, kinds=KINDS, root=["Vmap", "Vmap", "Repeat"], allow_zero_len=True, sizes=(1, 2, 3) if ctx.quick() else (1, 2, 3, 5))


def nontrivial(case, hist):
    n = getattr(case.node, "n", 0)
    return n >= 2 and any(h.startswith(("interference", "index_edit")) for h in hist)


PLAN = _drive.Plan(
    "C11", cfg_fn,
    clauses={"model.*", "imp.*", "upd.*", "req.*", "vmap.*", "assess.*", "raises"},
    ops={"update": 2, "interference": 2, "index_edit": 2},
    n_cases=(400, 3000), n_ops=(3, 6), nontrivial=nontrivial,
    always=("assess_self",),
    exc_is_violation=True,
)



def run(ctx):
    _drive.run(ctx, PLAN)
