"""C32 — generative function closures and keyword handling are transparent.

Differential monitor (the underlying function called with the full positional arguments is the
oracle, under the same key): `gen_fn(*stored)` / `gen_fn(*stored, **kw)` used as a generative
function, `partial_apply(*stored)`, and `handle_kwargs()` wrappers must give the same choices,
score, return value, weights, backward constraint and stored trace arguments in simulate,
importance, assess, update/edit (with argument changes) and project.
"""

from __future__ import annotations

import numpy as np

from vf import common, engine
from vf.engine import Discard, Issue
from vf.prog import ast, build, gen, obs, tree
from vf.props import _drive

GF = "genjax._src.core.generative.generative_function"
CONFIG = {
    "level": "exploration",
    "shards": {"quick": 16, "thorough": 16},
    "timeout_s": {"quick": 900, "thorough": 5400},
    "rule": "case = static function (1-4 parameters; calls into distributions/combinators) or distribution x a stored/extra argument split x a form {closure, closure with keyword arguments, partial_apply, partial_apply then keyword closure, handle_kwargs} x every GFI op, each compared under the same key with the underlying function on the full positional arguments. non-trivial: >=1 stored and >=1 extra argument and the op is an edit for >=1 comparison; distinct by (AST shape, form, split, op).",
    "reach_anchors": [f"{GF}:GenerativeFunctionClosure.simulate", f"{GF}:GenerativeFunctionClosure.generate", f"{GF}:GenerativeFunctionClosure.assess", f"{GF}:GenerativeFunctionClosure.edit", f"{GF}:GenerativeFunctionClosure.project", f"{GF}:IgnoreKwargs.simulate", "genjax._src.generative_functions.static:StaticGenerativeFunction.handle_kwargs", "genjax._src.generative_functions.static:StaticGenerativeFunction.partial_apply"],
    "reach_required": [f"{GF}:GenerativeFunctionClosure.simulate", f"{GF}:GenerativeFunctionClosure.generate", f"{GF}:GenerativeFunctionClosure.assess", f"{GF}:GenerativeFunctionClosure.edit", "genjax._src.generative_functions.static:StaticGenerativeFunction.handle_kwargs", "genjax._src.generative_functions.static:StaticGenerativeFunction.partial_apply"],
    "counters_required": ["closure_comparisons"],
    "assumptions": ["the underlying function itself is judged by the other properties; here only equality between the two call forms under one key"],
}


def run(ctx):
    n = ctx.pick(96, 900)
    budget = ctx.pick(75, 420)
    for ci in ctx.my_share(n):
        if ctx.elapsed() > budget:
            ctx.note(f"time budget reached at case {ci}")
            break
        rng = ctx.child_rng(ci)
        try:
            one_case(ctx, rng, ci)
        except Discard as d:
            ctx.count("discarded:" + d.why.split(":")[0])
        except Exception as e:
            import traceback

            ctx.count("harness_errors")
            ctx.note(f"harness error case {ci}: {type(e).__name__}: {e} {traceback.format_exc()[-500:]}")


def _obs_trace(node, tr):
    ex = obs.valid_assignment(obs.extract(node, tr.get_choices()))
    return ex, float(np.asarray(tr.get_score())), build.from_real(tr.get_retval()), build.from_real(tr.get_args())


def _cmp(ctx, case, form, op, a, b, what, hist):
    """a, b: (assign, score, ret, args) or scalars."""
    ctx.count("closure_comparisons")
    ctx.count(f"cmp:{form}:{op}")
    diff = None
    if isinstance(a, tuple):
        ea, sa, ra, aa = a
        eb, sb, rb, ab = b
        if set(ea) != set(eb):
            diff = f"address sets differ {sorted(set(ea) ^ set(eb), key=repr)[:3]}"
        else:
            for p in ea:
                if not engine._same_value(ea[p], eb[p]):
                    diff = f"choice {p}: {engine._d(ea[p])} vs {engine._d(eb[p])}"
                    break
        if diff is None and np.isfinite(sb) and not common.close(sa, sb, terms=max(1, len(ea))):
            diff = f"score {sa} vs {sb}"
        if diff is None:
            d = tree.tcompare(ra, rb, common.close)
            if d:
                diff = "retval " + d
        if diff is None and what != "noargs":
            d = tree.tcompare(aa, ab, common.close, path="args")
            if d:
                diff = "trace arguments: " + d
    else:
        if np.isfinite(b) and not common.close(a, b, terms=4):
            diff = f"{what}: {a} vs {b}"
    if diff:
        ctx.violation(
            f"C32|op={op}|on={form}|field=differs|cond={what}",
            case=case.cid, detail=f"{form} vs underlying function ({op}): {diff}", program=case.src, history=hist,
        )


def one_case(ctx, rng, ci):
    from genjax import ChoiceMap, Diff, Update

    depth = int(rng.choice([1, 2])) if ctx.quick() else int(rng.choice([1, 2, 2, 3]))
    use_dist = rng.random() < 0.15
    cfgk = gen.Cfg(depth=depth, kinds=[k for k in gen.ALL_KINDS if k not in ("MaskedIterate",)])
    g = gen.Gen(rng, cfgk)
    if use_dist:
        node = g.pick_dist()
        node.use_kw = False
        nparams = len(node.arg_specs)
        pnames = list(node.d.kwnames or [])
    else:
        nparams = int(rng.integers(1, 5))
        node = g.static(depth - 1, nparams=nparams, ret="scalar")
        pnames = list(node.params)
    if nparams < 1:
        return
    case = engine.Case(node, f"C32/s{ctx.seed}/sh{ctx.shard}/{ci}")
    gf = case.gf
    args = gen.gen_args(rng, node)
    ra = engine.real_args(args)
    split = int(rng.integers(0, nparams + 1))
    forms = ["closure"]
    if not use_dist:
        forms += ["partial_apply", "kwargs", "handle_kwargs", "pa_kwargs"]
    elif pnames and node.name not in ("flip",):
        forms += ["kwargs"]
    form = str(rng.choice(forms))
    stored, extra = ra[:split], ra[split:]
    kw = {}
    if form == "closure":
        wrapped = gf(*stored)
        call_args = extra
    elif form == "partial_apply":
        wrapped = gf.partial_apply(*stored)
        call_args = extra
    elif form in ("kwargs", "pa_kwargs"):
        # the last k parameters go in as keyword arguments of the closure; pa_kwargs: the closure
        # is made from the partially applied function (stored positional values live in the
        # source closure, keyword values in the GenerativeFunctionClosure)
        if form == "pa_kwargs" and split == 0:
            split = int(rng.integers(1, nparams)) if nparams >= 2 else 0
            stored, extra = ra[:split], ra[split:]
            if split == 0:
                form = "kwargs"
        k = int(rng.integers(1, nparams - split + 1)) if nparams - split >= 1 else 0
        if k == 0:
            form = "closure"
            wrapped = gf(*stored)
            call_args = extra
        else:
            kw = {pnames[i]: ra[i] for i in range(nparams - k, nparams)}
            wrapped = gf.partial_apply(*stored)(**kw) if form == "pa_kwargs" else gf(*stored, **kw)
            call_args = ra[split : nparams - k]
    else:  # handle_kwargs: GFI methods take ((args), {kwargs})
        k = int(rng.integers(0, nparams + 1))
        kw = {pnames[i]: ra[i] for i in range(nparams - k, nparams)}
        wrapped = gf.handle_kwargs()
        call_args = (tuple(ra[: nparams - k]), kw)
    hist = [f"form={form} split={split}/{nparams} kw={sorted(kw)} args={_drive._short(args, 120)}"]
    key = engine.key((ctx.seed * 1009 + ci * 17) % (2**30))
    nontriv = 0 < split < nparams

    def guarded(op, f):
        try:
            return f()
        except Exception as e:  # noqa
            mech = common.exc_mechanism(e)
            ctx.count("unexpected_exceptions")
            ctx.violation(f"C32|op={op}|on={form}|field=raises|cond={mech}", case=case.cid, detail=f"{form}.{op} raised {mech}: {str(e)[:160]} (the underlying function accepts the same arguments)", program=case.src, history=hist)
            return None

    # reference run on the underlying function first: if IT raises the case teaches nothing
    try:
        tr0 = gf.simulate(key, ra)
    except Exception as e:
        ctx.reject("underlying:" + common.exc_mechanism(e))
        return
    o0 = _obs_trace(node, tr0)
    tr1 = guarded("simulate", lambda: wrapped.simulate(key, call_args))
    if tr1 is not None:
        _cmp(ctx, case, form, "simulate", _obs_trace(node, tr1), o0, "trace" if form == "closure" else "noargs", hist)
    # importance
    rec0 = engine.observe(case, tr0, args, [], what="simulate")
    vals = engine.gen_constraint(rng, case, rec0, args) if rec0 is not None else {}
    chm = obs.build_constraint(vals)
    try:
        t0, w0 = gf.importance(key, chm, ra)
    except Exception as e:
        ctx.reject("underlying:" + common.exc_mechanism(e))
        return
    out = guarded("importance", lambda: wrapped.importance(key, chm, call_args))
    if out is not None:
        t1, w1 = out
        _cmp(ctx, case, form, "importance", _obs_trace(node, t1), _obs_trace(node, t0), "trace" if form == "closure" else "noargs", hist)
        _cmp(ctx, case, form, "importance", float(np.asarray(w1)), float(np.asarray(w0)), "weight", hist)
    # assess
    try:
        s0, r0 = gf.assess(tr0.get_choices(), ra)
        out = guarded("assess", lambda: wrapped.assess(tr0.get_choices(), call_args))
        if out is not None:
            s1, r1 = out
            _cmp(ctx, case, form, "assess", float(np.asarray(s1)), float(np.asarray(s0)), "score", hist)
            d = tree.tcompare(build.from_real(r1), build.from_real(r0), common.close)
            ctx.count("closure_comparisons")
            if d:
                ctx.violation(f"C32|op=assess|on={form}|field=differs|cond=retval", case=case.cid, detail=d, program=case.src, history=hist)
    except Exception as e:
        ctx.reject("underlying-assess:" + common.exc_mechanism(e))
    # edit / update with argument changes (extra arguments change, stored stay)
    new_args = list(args)
    lo = 0 if rng.random() < 0.5 else split
    for i in range(lo, nparams):
        if rng.random() < 0.6:
            new_args[i] = gen.gen_value(rng, node.arg_specs[i], 0.0) if not isinstance(args[i], build.PyVal) else args[i]
    new_args = tuple(new_args)
    rn = engine.real_args(new_args)
    vals2 = engine.gen_constraint(rng, case, rec0, args) if rec0 is not None else {}
    chm2 = obs.build_constraint(vals2)
    from genjax import Regenerate

    if rng.random() < 0.5:
        rterm = obs.gen_selection(rng, node, depth=1) if rng.random() < 0.7 else ("none",)
        request = Regenerate(obs.build_selection(rterm))
        hist.append(f"edit Regenerate({rterm}) new_args={_drive._short(new_args, 100)}")
    else:
        request = Update(chm2)
        hist.append(f"edit Update({_drive._short(vals2, 100)}) new_args={_drive._short(new_args, 100)}")
    try:
        full_ad = Diff.unknown_change(rn)
        t0, w0, rd0, b0 = gf.edit(key, tr0, request, full_ad)
    except Exception as e:
        ctx.reject("underlying-edit:" + common.exc_mechanism(e))
        t0 = None
    if t0 is not None and form in ("closure", "kwargs", "pa_kwargs", "handle_kwargs"):
        if form == "handle_kwargs":
            kk = len(kw)
            ad = (Diff.unknown_change(tuple(rn[: nparams - kk])), Diff.unknown_change({pnames[i]: rn[i] for i in range(nparams - kk, nparams)}))
            base_tr = tr1 if tr1 is not None else None
        elif form in ("kwargs", "pa_kwargs"):
            kk = len(kw)
            ad = Diff.unknown_change(tuple(rn[split : nparams - kk]))
            base_tr = tr1
        else:
            ad = Diff.unknown_change(tuple(rn[split:]))
            base_tr = tr1
        # stored / keyword arguments cannot change through a closure: only compare when they did not
        unchanged_fixed = all(engine.args_equal((args[i],), (new_args[i],)) for i in range(nparams) if i < split or (form in ("kwargs", "pa_kwargs") and pnames[i] in kw))
        if not unchanged_fixed and form in ("closure", "kwargs", "pa_kwargs"):
            # the stored / keyword values changed: the closure that carries the NEW values edits
            # the old trace, which must equal the underlying edit with the full new arguments
            if form == "closure":
                wrapped = gf(*rn[:split])
            elif form == "pa_kwargs":
                wrapped = gf.partial_apply(*rn[:split])(**{pnames[i]: rn[i] for i in range(nparams - len(kw), nparams)})
            else:
                wrapped = gf(*rn[:split], **{pnames[i]: rn[i] for i in range(nparams - len(kw), nparams)})
            ctx.count("closure_rebuilt_with_new_stored_args")
            unchanged_fixed = True
        if base_tr is not None and (unchanged_fixed or form == "handle_kwargs"):
            out = guarded("edit", lambda: wrapped.edit(key, base_tr, request, ad))
            if out is not None:
                t1, w1, rd1, b1 = out
                _cmp(ctx, case, form, "edit", _obs_trace(node, t1), _obs_trace(node, t0), "trace" if form == "closure" else "noargs", hist)
                _cmp(ctx, case, form, "edit", float(np.asarray(w1)), float(np.asarray(w0)), "weight", hist)
                try:
                    d0 = obs.valid_assignment(obs.extract(node, b0.constraint))
                    d1 = obs.valid_assignment(obs.extract(node, b1.constraint))
                    ctx.count("closure_comparisons")
                    if set(d0) != set(d1) or any(not engine._same_value(d0[p], d1[p]) for p in d0):
                        ctx.violation(f"C32|op=edit|on={form}|field=differs|cond=backward-constraint", case=case.cid, detail=f"backward constraints differ: {sorted(set(d0) ^ set(d1), key=repr)[:3]}", program=case.src, history=hist)
                except Exception:
                    pass
                nontriv = nontriv or form == "handle_kwargs"
    elif t0 is not None and form == "partial_apply":
        out = guarded("edit", lambda: wrapped.edit(key, tr1, request, Diff.unknown_change(tuple(rn[split:])))) if tr1 is not None and all(engine.args_equal((args[i],), (new_args[i],)) for i in range(split)) else None
        if out is not None:
            t1, w1, rd1, b1 = out
            _cmp(ctx, case, form, "edit", _obs_trace(node, t1)[:3] + (None,), _obs_trace(node, t0)[:3] + (None,), "noargs", hist)
            _cmp(ctx, case, form, "edit", float(np.asarray(w1)), float(np.asarray(w0)), "weight", hist)
    # project
    try:
        term = obs.gen_selection(rng, node, depth=1)
        sel = obs.build_selection(term)
        p0 = float(np.asarray(gf.project(key, tr0, sel)))
        if form in ("closure", "kwargs", "pa_kwargs") and tr1 is not None:
            out = guarded("project", lambda: wrapped.project(key, tr1, sel))
            if out is not None:
                _cmp(ctx, case, form, "project", float(np.asarray(out)), p0, "weight", hist)
    except Exception as e:
        ctx.reject("underlying-project:" + common.exc_mechanism(e))
    ctx.evaluation(fingerprint=(node.shape_sig(), form, split, nparams), nontrivial=nontriv)
    ctx.sample({"case": case.cid, "program": case.src, "history": hist}, limit=2)
