"""C03 — importance weights equal the log-density of the constrained choices.

Every constrained address present in the trace must hold the constraint value; the weight must
equal the sum of reference log-densities of exactly the constrained-and-present choices
(0 for the empty constraint, the score for a covering one)."""

from vf.prog import gen
from vf.props import _drive

A = "genjax._src.generative_functions"
CONFIG = {
    "level": "exploration",
    "shards": {"quick": 16, "thorough": 16},
    "timeout_s": {"quick": 900, "thorough": 5400},
    "rule": 'case = generated program + importance(key, constraint, args) with constraints: empty, full, random subsets, single/array indices of vector combinators, non-taken switch branches, addresses under a false mask; scalar and index-array constraint forms. non-trivial: constraint is a proper non-empty subset touching a combinator-nested address; distinct by (AST shape, constraint shape).',
    "reach_anchors": ['genjax._src.generative_functions.static:GenerateHandler.handle_trace', 'genjax._src.generative_functions.distributions.distribution:Distribution.generate_choice_map', 'genjax._src.generative_functions.combinators.vmap:Vmap.generate', 'genjax._src.generative_functions.combinators.scan:Scan.generate', 'genjax._src.generative_functions.combinators.switch:Switch.generate', 'genjax._src.generative_functions.combinators.mask:MaskCombinator.generate'],
    "reach_required": ['genjax._src.generative_functions.static:GenerateHandler.handle_trace', 'genjax._src.generative_functions.distributions.distribution:Distribution.generate_choice_map', 'genjax._src.generative_functions.combinators.vmap:Vmap.generate', 'genjax._src.generative_functions.combinators.scan:Scan.generate', 'genjax._src.generative_functions.combinators.switch:Switch.generate', 'genjax._src.generative_functions.combinators.mask:MaskCombinator.generate'],
    "counters_required": ['traces:importance'],
    "assumptions": [
        "reference interpreter vf/prog/ast.py transcribes the documented combinator semantics; scipy float64 densities",
        "float32 tolerance 2e-4 (relative+absolute) scaled by sqrt(#terms)",
        "programs from the bounded grammar (depth<=2 quick, <=3 thorough; sizes<=3/5); values read through public choice-map lookups",
    ],
}

def cfg_fn(rng, ctx):
    depth = int(rng.choice([1, 2, 2])) if ctx.quick() else int(rng.choice([1, 2, 2, 3]))
    return gen.Cfg(depth=depth, allow_zero_len=True, hostile_idx=rng.random() < 0.35, tuple_addr=0.4, weights={"Switch": 2.5, "Vmap": 2.5, "Repeat": 1.5})


def h_importance(ctx, plan, case, rec, rng, nk, hist, route, guarded):
    from vf import engine
    args = rec.args if rng.random() < 0.6 else gen.perturb_args(rng, case.node, rec.args)
    frac = float(rng.choice([0.0, 0.3, 0.6, 1.0]))
    vals = engine.gen_constraint(rng, case, None, args, only_live=False, frac=frac)
    form = str(rng.choice(["scalar", "array"]))
    hist.append(f"importance constraint={_drive._short(vals)} form={form} frac={frac}")
    out = guarded("importance", lambda: engine.op_importance(case, nk(), vals, args, form=form))
    if out is None:
        return None
    r, w, issues = out
    route("importance", issues)
    ctx.count("traces:importance")
    if r is not None:
        ctx.count("imp_cond:" + ("empty" if not vals else ("full" if set(vals) >= r.live() else "partial")))
    return r


def nontrivial(case, hist):
    return any("frac=0.3" in h or "frac=0.6" in h for h in hist) and any(k not in ("Dist", "Static") for k in case.kinds)


PLAN = _drive.Plan(
    "C03", cfg_fn,
    clauses={"imp.*", "model.*"},
    ops={"importance": 1},
    extra_ops={"importance": h_importance},
    start=("importance",),
    n_cases=(400, 3000), n_ops=(2, 5), nontrivial=nontrivial,
    always=(),
    exc_is_violation=True,
)



def run(ctx):
    _drive.run(ctx, PLAN)
