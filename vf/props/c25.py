"""C25 — Marginal(gen_fn, selection[, algorithm]) is an unbiased density sampler of the selected choices.

Workload: random small Bayesian networks as real @genjax.gen programs (vf/gen/smc_models.py; flip /
categorical / linear-Gaussian nodes, hierarchical addresses, parameters passed as arguments in three
calling conventions) x selections {everything, explicit union of every address, ancestrally closed
subsets (roots / prefixes), leaves, middle nodes, arbitrary subsets} x {no algorithm, Importance,
ImportanceK}.  Each cell is one jit(vmap) over a batch of parameter draws and keys.

Exact monitors (reference = float64 numpy, vf/ref/smc_ref.py), judged from the returned sample:
* random_weighted returns exactly the selected addresses;
* when no unselected choice influences a selected one (in particular when everything is selected)
  the weight is the exact marginal log-density of the returned sample, and estimate_logpdf of
  that same sample returns the same number.
Statistical monitors (exact expectations by enumeration, two-stage confirmation), any selection:
* the returned samples are distributed as the exact marginal p(s);
* E[1{S=s} exp(-w)] = 1 for every outcome s   (i.e. E[exp(-w) | s] = 1/p(s));
* E[exp(estimate_logpdf(s))] = p(s) for a fixed s (also for linear-Gaussian programs).
"""

from __future__ import annotations

import math
import re

import numpy as np

from vf import common
from vf.gen import smc_models as G
from vf.ref import smc_ref as R

SP = "genjax._src.inference.sp"
SMC = "genjax._src.inference.smc"
CONFIG = {
    "level": "exploration",
    "shards": {"quick": 16, "thorough": 16},
    "timeout_s": {"quick": 900, "thorough": 3600},
    "rule": "case = (random net of 2-5 flip/categorical/normal nodes with nested addresses; calling convention spread|packed|scalar; selection kind all|all-explicit|closed|leaves|middle|arbitrary; algorithm none|Importance|ImportanceK) x batch of random parameter tables and keys (exact cells: every returned sample is one evaluation; statistical cells: one target, 2048+ keys). non-trivial: the selection is non-empty and the net has an edge; distinct by (monitor, selection kind, algorithm, net structure, selected set).",
    "reach_anchors": [f"{SP}:Marginal.random_weighted", f"{SP}:Marginal.estimate_logpdf", f"{SMC}:SMCAlgorithm.estimate_reciprocal_normalizing_constant",
                      f"{SMC}:SMCAlgorithm.estimate_normalizing_constant", f"{SMC}:ChangeTarget.run_csmc_for_normalizing_constant"],
    "reach_required": [f"{SP}:Marginal.random_weighted", f"{SP}:Marginal.estimate_logpdf"],
    "counters_required": ["rw_exact_weight_checked", "rw_address_checks", "est_exact_checked", "rw_reciprocal_mean_tests", "rw_sample_distribution_tests", "est_mean_tests"],
    "counters_inconclusive": ["grey"],  # a statistical cell in the grey band (1e-9 <= stage-2 p < 1e-3) makes the run inconclusive
    "assumptions": [
        "float64 numpy/scipy reference densities; exact marginals by enumeration (<= 96 joint outcomes) or multivariate-normal closed form",
        "with an algorithm the statistical clause is only judged for selections whose unselected choices have no selected parent (otherwise the user-supplied algorithm's own target, not Marginal, decides the proposal of the retained particle)",
        "normal approximation of means of >= 2048 bounded terms with empirical standard errors, guarded by two-stage confirmation (1e-6, then 1e-9 with 8x samples)",
        "jax.jit / jax.vmap / jax.random as trusted base",
    ],
}

SELKINDS = ["all", "all-explicit", "closed", "leaves", "middle", "arbitrary"]
ALGS = [("none", 0), ("impk", 2), ("none", 0), ("imp", 1), ("impk", 5), ("none", 0), ("impkq", 3)]
NET_HI = [5]


class Scen:
    pass


def _plain(s):
    return re.sub(r"\x1b\[[0-9;]*m", "", s)


def exc_mech(e):
    s = str(e)
    if isinstance(e, TypeError) and "violates type hint" in s and "tuple[typing.Any, ...]" in s and "args" in s:
        return "beartype-varargs-annotation"
    return common.exc_mechanism(e)


def _algname(sc):
    return {"none": "no-algorithm", "impkq": "algorithm-with-proposal"}.get(sc.alg, "algorithm")


def choose_selection(rng, net, kind):
    n = len(net)
    allidx = list(range(n))
    children = {i: [j for j in allidx if i in net.nodes[j].parents] for i in allidx}
    if kind in ("all", "all-explicit"):
        return allidx
    if kind == "closed":
        # ancestrally closed proper subset: a prefix of the topological order
        k = int(rng.integers(1, n))
        sel = list(range(k))
        return sel
    if kind == "leaves":
        sel = [i for i in allidx if not children[i]]
        if len(sel) == n:
            sel = sel[1:]
        return sel
    if kind == "middle":
        sel = [i for i in allidx if children[i] and net.nodes[i].parents]
        if not sel:
            sel = [i for i in allidx if net.nodes[i].parents][:1]
        return sel
    k = int(rng.integers(1, n))
    return sorted(rng.choice(n, size=k, replace=False).tolist())


def is_closed(net, sel):
    s = set(sel)
    return all(net.ancestors(i) <= s for i in sel)


def unselected_parent_free(net, sel):
    """No unselected node has a selected parent."""
    s = set(sel)
    return all(not (set(net.nodes[j].parents) & s) for j in range(len(net)) if j not in s)


def make_scen(rng, selkind, alg, K, family=None, max_outcomes=96, conv=None, require=None):
    sc = Scen()
    sc.selkind, sc.alg, sc.K = selkind, alg, K
    if family is None:
        family = "gauss" if rng.random() < 0.3 else "disc"
    # ImportanceK's conditional run (used by Marginal.random_weighted with an algorithm) stacks whole
    # traces with a helper that only handles scalar leaves: most of those cells use programs whose
    # traces hold only scalars (flips / normals, flat addresses, one scalar argument per table entry)
    scalar_leaves = alg in ("impk", "impkq") and rng.random() < 0.7
    if scalar_leaves:
        conv = "scalar"
    for _ in range(500):
        if scalar_leaves:
            net = G.random_net(rng, family, n_hi=NET_HI[0], max_outcomes=max_outcomes, nested_p=0.0, flip_only=True)
        else:
            net = G.random_net(rng, family, n_hi=NET_HI[0], max_outcomes=max_outcomes)
        sel = choose_selection(rng, net, selkind)
        if not sel:
            continue
        if require is not None and not require(net, sel):
            continue
        break
    else:
        raise RuntimeError("no scenario")
    sc.net, sc.sel, sc.family = net, sel, family
    sc.unsel = [i for i in range(len(net)) if i not in sel]
    sc.closed = is_closed(net, sel)
    n_entries = sum(int(np.prod(net.param_shape(i))) for i in range(len(net)))
    convs = [False, True, True] + (["scalar"] if n_entries <= 40 else [])
    sc.conv = convs[int(rng.integers(len(convs)))] if conv is None else conv
    sc.model, sc.src = G.build(net, sc.conv)
    # algorithm with an exact custom proposal over the unselected choices
    sc.qspec = ()
    if alg == "impkq":
        if sc.unsel:
            sc.qspec = G.random_qnet(rng, net, sc.unsel)
        else:
            sc.alg = "impk"
    return sc


_CASE = [""]


def describe(sc):
    return {
        "case": _CASE[0],
        "net": sc.net.describe(), "selected": ["/".join(sc.net.nodes[i].addr) for i in sc.sel], "selection_kind": sc.selkind,
        "unselected_influence_selected": not sc.closed, "algorithm": sc.alg, "K": sc.K, "algorithm_proposal": [list(map(str, q)) for q in sc.qspec],
        "calling_convention": {False: "spread", True: "packed", "scalar": "scalar"}[sc.conv],
    }


def make_selection(sc):
    from genjax import Selection
    from genjax import SelectionBuilder as S

    net = sc.net
    if sc.selkind == "all":
        return Selection.all()
    # use a prefix selection S["s"] when every node under a nested callee is selected
    sel = Selection.none()
    by_prefix = {}
    for i, nd in enumerate(net.nodes):
        if len(nd.addr) == 2:
            by_prefix.setdefault(nd.addr[0], []).append(i)
    done = set()
    for pre, idxs in by_prefix.items():
        if all(i in sc.sel for i in idxs) and sc.prefix_form:
            sel = sel | S[pre]
            done.update(idxs)
    for i in sc.sel:
        if i not in done:
            sel = sel | S[G.addr_key(net.nodes[i].addr)]
    return sel


def make_fn(sc, mode):
    """mode 'rw': random_weighted then estimate_logpdf of the returned sample (exact cells and
    sampler statistics); mode 'est': estimate_logpdf of a given sample."""
    import jax
    import jax.numpy as jnp
    from genjax.inference import Marginal, Target
    from genjax.inference.smc import Importance, ImportanceK

    net = sc.net
    keys_of = [G.addr_key(nd.addr) for nd in net.nodes]
    sc.trace_errors = []

    def marginal_of(args, placeholder, qparams):
        selection = make_selection(sc)
        if sc.alg == "none":
            return Marginal(sc.model, selection)
        T0 = Target(sc.model, args, G.constraint(net, sc.sel, placeholder))
        q = G.proposal_class()(tuple(qparams), sc.qspec) if sc.alg == "impkq" else None
        alg = Importance(T0) if sc.alg == "imp" else ImportanceK(T0, q, sc.K)
        return Marginal(sc.model, selection, alg)

    def f(key, params, given, qparams, params0):
        args = G.model_args(net, sc.conv, params)
        # the algorithm is built beforehand, for a target of its own: its arguments need not be
        # the arguments the marginal is later called with
        mg = marginal_of(G.model_args(net, sc.conv, params0), given, qparams)
        k1, k2 = jax.random.split(key)
        if mode == "rw":
            w, chm = mg.random_weighted(k1, *args)
            out = {"w": w, "present": [jnp.asarray(k in chm) for k in keys_of]}
            try:
                out["vals"] = [chm[keys_of[i]] for i in sc.sel]
            except Exception as e:  # noqa: BLE001  a selected address is missing: reported via 'present'
                sc.trace_errors.append(("vals", e))
                return out
            if sc.want_est:
                try:
                    out["est"] = mg.estimate_logpdf(k2, chm, *args)
                except Exception as e:  # noqa: BLE001
                    sc.trace_errors.append(("est", e))
            return out
        v = G.constraint(net, sc.sel, given)
        return {"est": mg.estimate_logpdf(k2, v, *args)}

    return jax.jit(jax.vmap(f))


def call_fn(fn, sc, params, given, keyseed, B, qparams=(), params0=None):
    import jax
    import jax.numpy as jnp

    keys = jax.random.split(jax.random.key(int(keyseed)), B)
    out = fn(keys, [jnp.asarray(p) for p in params], [jnp.asarray(G.cast_value(sc.net, i, given[i])) for i in sc.sel],
             [jnp.asarray(p) for p in qparams], [jnp.asarray(p) for p in (params if params0 is None else params0)])
    return jax.tree_util.tree_map(np.asarray, out)


def _as_idx(net, i, a):
    a = np.asarray(a)
    return a.astype(np.float64) if net.nodes[i].kind == "normal" else a.astype(np.int64)


def _close_arr(a, b, terms):
    a = np.asarray(a, dtype=np.float64)
    b = np.asarray(b, dtype=np.float64)
    with np.errstate(invalid="ignore"):
        ok = np.abs(a - b) <= common.tol(a, b, terms)
    ok = np.where(np.isnan(a) | np.isnan(b), False, ok)
    return ok | (np.isinf(a) & np.isinf(b) & (a == b))


def _witness(sc, params, b, extra):
    w = describe(sc)
    w["program"] = sc.src
    w["params"] = [np.asarray(p)[b].tolist() for p in params]
    w.update(extra)
    return w


def report_raise(ctx, sc, op, e, params):
    mech = exc_mech(e)
    ctx.count(f"raised[{op}]")
    w = _witness(sc, params, 0, {})
    if mech == "beartype-varargs-annotation":
        m = re.search(r"inference\.\w+\.(\w+)\.estimate_logpdf", str(e))
        ctx.violation(f"C25|op=estimate_logpdf|on={m.group(1) if m else 'unknown'}|field=raises|cond={mech}",
                      detail=f"{type(e).__name__}: {_plain(str(e))[:400]}", reached_via=f"Marginal.{op}", **w)
    else:
        ctx.violation(f"C25|op={op}|on=Marginal|field=raises|cond={_algname(sc)},{mech}",
                      detail=f"{type(e).__name__}: {_plain(str(e))[:400]}", **w)


def exact_marginal_logp(sc, params, vals_sel):
    """Exact log-density of the selected values when the selection is ancestrally closed."""
    return R.joint_logp(sc.net, params, vals_sel, sc.sel)


# ------------------------------------------------------------------------------- exact cells


_PLANS = {}


def _stratified(name, seed, first, rest):
    """Plan of arms: cell i gets first[i % len(first)] and the (i // len(first))-th element of a
    seed-dependent shuffle of `rest` drawn separately for each value of the first arm."""
    key = (name, seed)
    if key not in _PLANS:
        rng = np.random.default_rng([977, seed, len(first), len(rest)])
        _PLANS[key] = [[rest[k] for k in rng.permutation(len(rest))] for _ in first]
    per = _PLANS[key]
    return lambda i: (first[i % len(first)], per[i % len(first)][(i // len(first)) % len(rest)])


def exact_plan(ci, seed):
    selkind, (alg, K) = _stratified("exact", seed, ["all", "closed", "all-explicit", "closed"], ALGS)(ci)
    if alg != "none" and selkind == "closed":
        # the algorithm proposes the unselected choices under its own target's placeholder values of
        # the selected ones, so exactness is only implied when everything is selected
        selkind = "all" if (ci // 4) % 2 else "all-explicit"
    return selkind, alg, K


def exact_cell(ctx, ci, B):
    _CASE[0] = f"ex/{ci}"
    rng = ctx.child_rng(1, ci)
    selkind, alg, K = exact_plan(ci, ctx.seed)
    sc = make_scen(rng, selkind, alg, K)
    sc.prefix_form = bool(rng.random() < 0.5)
    sc.want_est = True
    params = G.random_params(rng, sc.net, B)
    placeholder = R.sample_batch(sc.net, params, rng)
    qparams = G.random_qparams(rng, sc.net, sc.unsel, sc.qspec, B) if sc.qspec else []
    ctx.count("exact_cells")
    ctx.count(f"exact_cells[{selkind},{_algname(sc)}]")
    ctx.sample(describe(sc), limit=3)
    fn = make_fn(sc, "rw")
    params0 = None
    if alg != "none" and rng.random() < 0.5:
        params0 = G.random_params(rng, sc.net, B)
        ctx.count("exact_cells_algorithm_built_for_other_arguments")
    try:
        out = call_fn(fn, sc, params, placeholder, rng.integers(1 << 30), B, qparams, params0)
    except Exception as e:  # noqa: BLE001
        report_raise(ctx, sc, "random_weighted", e, params)
        return
    net = sc.net
    cond = f"{'all-selected' if not sc.unsel else 'closed-selection'},{_algname(sc)}"
    present = np.stack([np.broadcast_to(np.asarray(p), (B,)) for p in out["present"]], axis=1)
    ctx.count("rw_address_checks", B)
    for i in range(len(net)):
        want = i in sc.sel
        bad = present[:, i] != want
        if bad.any():
            field = "returns-unselected-address" if not want else "missing-selected-address"
            ctx.violation(f"C25|op=random_weighted|on=Marginal|field={field}|cond={cond}",
                          detail=f"address {'/'.join(net.nodes[i].addr)} present={bool(present[0, i])}", **_witness(sc, params, 0, {}))
    for what, e in sc.trace_errors:
        if what == "est":
            report_raise(ctx, sc, "estimate_logpdf", e, params)
    if "vals" not in out:
        return
    vals = {i: _as_idx(net, i, out["vals"][j]) for j, i in enumerate(sc.sel)}
    ref = exact_marginal_logp(sc, params, vals)
    fin = np.isfinite(ref)
    w = np.asarray(out["w"], dtype=np.float64)
    ok = _close_arr(w, ref, len(net) + 2) | ~fin
    ctx.count("rw_exact_weight_checked", int(fin.sum()))
    ctx.count(f"rw_exact_weight_checked[{cond}]", int(fin.sum()))
    ctx.evaluation(fingerprint=("exact", selkind, alg, K, net.sig(), tuple(sc.sel)), nontrivial=True, n=B)
    if not ok.all():
        b = int(np.argwhere(~ok)[0][0])
        ctx.violation(f"C25|op=random_weighted|on=Marginal|field=weight|cond={cond}",
                      detail=f"weight {w[b]} != exact marginal log-density {ref[b]} of the returned sample", n_bad=int((~ok).sum()), n_checked=int(fin.sum()),
                      **_witness(sc, params, b, {"sample": {str(i): vals[i][b].tolist() for i in sc.sel}, "observed_weight": float(w[b]), "expected_weight": float(ref[b])}))
    if "est" in out:
        est = np.asarray(out["est"], dtype=np.float64)
        ok2 = _close_arr(est, ref, len(net) + 2) | ~fin
        ctx.count("est_exact_checked", int(fin.sum()))
        if not ok2.all():
            b = int(np.argwhere(~ok2)[0][0])
            ctx.violation(f"C25|op=estimate_logpdf|on=Marginal|field=density|cond={cond}",
                          detail=f"estimate_logpdf {est[b]} of the sample returned by random_weighted != exact marginal log-density {ref[b]}", n_bad=int((~ok2).sum()),
                          **_witness(sc, params, b, {"sample": {str(i): vals[i][b].tolist() for i in sc.sel}}))
        ok3 = _close_arr(est, w, len(net) + 2) | ~np.isfinite(est)
        ctx.count("rw_vs_est_compared", B)
        if not ok3.all() and ok2.all() and ok.all():
            b = int(np.argwhere(~ok3)[0][0])
            ctx.violation(f"C25|op=random_weighted|on=Marginal|field=weight-vs-estimate_logpdf|cond={cond}", detail=f"{w[b]} vs {est[b]}", **_witness(sc, params, b, {}))


# ------------------------------------------------------------------------------- statistical cells


def _two_stage(ctx, name, p1, stage2, sig, witness):
    ctx.count("statistical_cells")
    ctx.count(f"stat[{name}]")
    verdict, ps = R.stage_verdict(p1, stage2)
    if verdict == "held":
        if ps[1] is not None:
            ctx.count("stage1_flags_cleared")
        return
    if verdict == "grey":
        ctx.count("grey")
        ctx.note(f"grey band: {name} p1={ps[0]:.3g} p2={ps[1]:.3g} {sig}")
        return
    ctx.violation(sig, detail=f"{name}: stage-1 p={ps[0]:.3g}, stage-2 (8x samples, fresh keys) p={ps[1]:.3g}", **witness)


def stat_plan(si, seed):
    rest = [(s, a) for s in ["leaves", "arbitrary", "middle", "closed", "leaves", "all"] for a in ALGS]
    mode, (selkind, (alg, K)) = _stratified("stat", seed, ["rw", "est", "rw"], rest)(si)
    return mode, selkind, alg, K


def exact_marginal_table(sc, params1):
    """Enumerate the joint; returns (ExactTarget-like helper for selected outcomes, p(s)[n_s])."""
    net = sc.net
    allidx = list(range(len(net)))
    outs, n = G.all_outcomes(net, allidx)
    lp = R.joint_logp(net, params1, {i: outs[i][None, :] for i in allidx})[0]
    cards = net.cards(sc.sel)
    idx = np.zeros(n, dtype=np.int64)
    for i, c in zip(sc.sel, cards):
        idx = idx * c + outs[i]
    ns = int(np.prod(cards))
    ps = np.bincount(idx, weights=np.exp(lp), minlength=ns)
    return ps, cards


def sel_index(sc, cards, vals):
    idx = 0
    for i, c in zip(sc.sel, cards):
        idx = idx * c + np.asarray(vals[i]).astype(np.int64)
    return idx


def stat_cell(ctx, si, N, reps):
    _CASE[0] = f"st/{si}"
    rng = ctx.child_rng(2, si)
    mode, selkind, alg, K = stat_plan(si, ctx.seed)
    family = "gauss" if (mode == "est" and rng.random() < 0.35) else "disc"
    require = unselected_parent_free if alg != "none" else None
    if alg != "none" and selkind in ("closed", "middle", "arbitrary"):
        selkind = "leaves"
    # estimate_logpdf(key, v, *args) only accepts tuple-valued arguments on the unchanged tree: the
    # packed convention keeps the estimator observable; the others are exercised in the exact cells
    conv = True if (mode == "est" and rng.random() < 0.75) else None
    sc = make_scen(rng, selkind, alg, K, family=family, max_outcomes=64, conv=conv, require=require)
    sc.prefix_form = bool(rng.random() < 0.5)
    sc.want_est = False
    net = sc.net
    params1 = G.random_params(rng, net, 1)
    draw0 = R.sample_batch(net, params1, rng)
    params = [np.repeat(p, N, axis=0) for p in params1]
    given = {i: np.repeat(np.asarray(draw0[i]), N, axis=0) for i in sc.sel}
    qparams = [np.repeat(p, N, axis=0) for p in G.random_qparams(rng, net, sc.unsel, sc.qspec, 1)] if sc.qspec else []
    ctx.count(f"stat_cells[{mode}]")
    ctx.sample(dict(describe(sc), statistical=mode, keys=N * reps), limit=3)
    fn = make_fn(sc, mode)
    params0 = None
    if alg != "none" and rng.random() < 0.4:
        params0 = [np.repeat(p, N, axis=0) for p in G.random_params(rng, net, 1)]
        ctx.count("stat_cells_algorithm_built_for_other_arguments")

    def draw(nrep):
        return [call_fn(fn, sc, params, given, int(rng.integers(1 << 30)), N, qparams, params0) for _ in range(nrep)]

    try:
        first = draw(reps)
    except Exception as e:  # noqa: BLE001
        report_raise(ctx, sc, "random_weighted" if mode == "rw" else "estimate_logpdf", e, params1)
        return
    # statistical signatures name the arm (with / without algorithm), not the selection shape: one
    # mechanism, one signature
    cond = _algname(sc)
    wit = _witness(sc, params1, 0, {"keys": N * reps})
    if mode == "est":
        s0 = {i: _as_idx(net, i, draw0[i]) for i in sc.sel}
        if family == "disc":
            ps, cards = exact_marginal_table(sc, params1)
            truth = float(ps[int(sel_index(sc, cards, s0)[0])])
        else:
            truth = float(np.exp(R.gaussian_marginal_logpdf(net, params1, sc.sel, np.array([[s0[i][0] for i in sc.sel]]))))

        def p_est(outs):
            e = np.concatenate([np.exp(np.asarray(o["est"], dtype=np.float64)).reshape(-1) for o in outs])
            n = e.shape[0]
            m = float(np.mean(e))
            cv2 = float(np.var(e, ddof=1)) / (m * m) if m > 0 else float("inf")
            if n / (1.0 + cv2) < 400.0:  # heavy-tailed estimator: the normal approximation is not trusted
                return None
            return R.z_pvalue(m, truth, float(np.std(e, ddof=1)) / math.sqrt(n))

        p1 = p_est(first)
        if p1 is None:
            ctx.count("est_mean_low_effective_sample_size_skipped")
            return
        ctx.count("est_mean_tests")
        ctx.evaluation(fingerprint=("est", selkind, alg, K, net.sig(), tuple(sc.sel)), nontrivial=True, n=N * reps)
        _two_stage(ctx, "estimate-mean", p1, lambda: (lambda q: 1.0 if q is None else q)(p_est(draw(8 * reps))),
                   f"C25|op=estimate_logpdf|on=Marginal|field=density-mean|cond={cond}",
                   dict(wit, sample={str(i): s0[i][0].tolist() for i in sc.sel}, exact_density=truth))
        return
    ps, cards = exact_marginal_table(sc, params1)
    ns = ps.shape[0]

    def tallies(outs):
        counts = np.zeros(ns)
        ysum = np.zeros(ns)
        ysq = np.zeros(ns)
        n = 0
        for o in outs:
            vals = {i: _as_idx(net, i, o["vals"][j]) for j, i in enumerate(sc.sel)}
            idx = sel_index(sc, cards, vals)
            y = np.exp(-np.asarray(o["w"], dtype=np.float64))
            counts += np.bincount(idx, minlength=ns)
            ysum += np.bincount(idx, weights=y, minlength=ns)
            ysq += np.bincount(idx, weights=y * y, minlength=ns)
            n += idx.shape[0]
        return counts, ysum, ysq, n

    def p_freq(outs):
        counts, _, _, _ = tallies(outs)
        return R.g_test(counts, ps)[0]

    def p_recip(outs):
        counts, ysum, ysq, n = tallies(outs)
        out = []
        for s in range(ns):
            if ps[s] < 0.03:
                continue
            m = ysum[s] / n
            var = max(ysq[s] / n - m * m, 0.0) * n / (n - 1)
            if counts[s] == 0:
                out.append(R.z_pvalue(0.0, 1.0, math.sqrt((1 - ps[s]) / ps[s] / n)))
            elif ysum[s] ** 2 / ysq[s] < 100.0:
                continue  # effective number of terms too small for a normal approximation
            else:
                out.append(R.z_pvalue(m, 1.0, math.sqrt(var / n)))
        return min(1.0, min(out) * len(out)) if out else 1.0

    if "vals" not in first[0]:
        ctx.violation(f"C25|op=random_weighted|on=Marginal|field=missing-selected-address|cond={cond}", detail=str(sc.trace_errors[:1]), **wit)
        return
    ctx.count("rw_sample_distribution_tests")
    ctx.count("rw_reciprocal_mean_tests")
    ctx.count(f"rw_reciprocal_mean_tests[{selkind}-selection,{cond}]")
    ctx.evaluation(fingerprint=("rw", selkind, alg, K, net.sig(), tuple(sc.sel)), nontrivial=True, n=N * reps)
    wit2 = dict(wit, exact_marginal=ps.tolist())
    _two_stage(ctx, "sample-distribution", p_freq(first), lambda: p_freq(draw(8 * reps)),
               f"C25|op=random_weighted|on=Marginal|field=sample-distribution|cond={cond}", wit2)
    _two_stage(ctx, "reciprocal-weight-mean", p_recip(first), lambda: p_recip(draw(8 * reps)),
               f"C25|op=random_weighted|on=Marginal|field=reciprocal-weight-mean|cond={cond}", wit2)


# ------------------------------------------------------------------------------- entry


def _replay_kind(ctx):
    """In replay mode (./check C25 --replay file) only the witness's kind of cell is re-run; the
    worker already restricts my_share() to the witness's case index."""
    if not getattr(ctx, "replay", None):
        return None
    try:
        import json

        with open(ctx.replay) as f:
            k = str(json.load(f).get("case", "")).split("/")[0]
        return k if k in ("ex", "st") else None
    except Exception:  # noqa: BLE001
        return None


def run(ctx):
    common.import_repo()
    R.selftest()
    NET_HI[0] = ctx.pick(4, 5)
    budget = ctx.pick(70.0, 600.0)
    n_ex = ctx.pick(64, 480)
    n_st = ctx.pick(64, 400)
    B = ctx.pick(192, 256)
    N = 2048
    reps = ctx.pick(1, 4)
    ex = list(ctx.my_share(n_ex))
    st = list(ctx.my_share(n_st))
    order = []
    for j in range(max(len(ex), len(st))):
        if j < len(ex):
            order.append(("ex", ex[j]))
        if j < len(st):
            order.append(("st", st[j]))
    rk = _replay_kind(ctx)
    for pos, (kind, idx) in enumerate(order):
        if rk is not None and kind != rk:
            continue
        # the first exact and the first statistical cell of a shard always run (a loaded machine
        # must not starve the required monitors); afterwards the time budget decides
        if pos >= 2 and ctx.elapsed() > budget:
            ctx.count("cells_skipped_budget")
            continue
        if kind == "ex":
            exact_cell(ctx, idx, B)
        else:
            stat_cell(ctx, idx, N, reps)
