"""C21 — Diff and Pytree utilities are structure-preserving round trips.

Runtime monitors over random nested pytrees (vf/gen/c21_trees.py).  The oracle is a plain-Python
pytree model (``ref_map`` / ``struct_eq``: own recursion, own static-field table, no
jax.tree_util) plus what the generator knows about each tree (leaf values, static sentinels,
Diff tags).

Monitors (one counter each):
* diff_primal      Diff.tree_primal(T) == T with every Diff replaced by its primal
* diff_tangent     Diff.tree_tangent(T): each Diff replaced by its tangent, structure kept
                   (the tangent given to a *non-Diff* leaf is recorded, not judged: code says
                   NoChange, the docstring says UnknownChange — see notes/C21_findings.md)
* diff_nochange    static_check_no_change(T)  (strict when T holds an UnknownChange Diff -> False,
                   or when every leaf is a Diff; otherwise must agree with tree_tangent's leaves)
* diff_treediff    static_check_tree_diff(T) == every leaf is a Diff
* diff_no_change / diff_unknown_change   Diff.no_change / unknown_change: primal structure kept,
                   every leaf Diff(primal, tag); round trips through tree_primal / tree_tangent
* diff_tree_diff   Diff.tree_diff(P, TT) for random per-leaf tangents + its two inverses
* diff_under_jit   no_change / unknown_change / tree_primal / tree_tangent / static checks applied to
                   traced leaves inside jax.jit: python-bool checks at trace time, outputs == reference
* py_flatten       leaves == the generator's dynamic leaves (multiset), no static sentinel among
                   the leaves, unflatten(flatten) == T, tree_map(token) == reference map,
                   static fields live in the treedef (changing one changes the treedef, changing
                   leaves does not)
* py_jit           jax.jit identity == T; at trace time every dynamic leaf is a tracer and every
                   static field is the concrete original
* py_vmap          jax.vmap identity on the batched tree == the batched tree; inside, leaves have
                   lost exactly the batch axis
* const_*          Pytree.const / Const.unwrap / tree_const / tree_const_unwrap / jit
* closure_*        Pytree.partial closures: call semantics, leaves, jit / vmap / creation under jit
"""

from __future__ import annotations

import numpy as np

from vf import common
from vf.gen import c21_trees as G

INC = "genjax._src.core.compiler.interpreters.incremental"
PT = "genjax._src.core.pytree"
CONFIG = {
    "level": "exploration",
    "shards": {"quick": 16, "thorough": 16},
    "timeout_s": {"quick": 600, "thorough": 3000},
    "rule": "random nested pytrees from a bounded grammar (depth<=3 quick / 4 thorough): tuples, lists, dicts, None, empty containers, jax/numpy arrays of 5 dtypes x 5 shapes, python scalars, 33 generated Pytree dataclasses (all static/dynamic layouts of 1..4 fields + defaulted fields), Diff leaves with NoChange/UnknownChange (primal a leaf or a small pytree), Mask, ChoiceMap (Static/Indexed/Or), Const, Closure. A case is non-trivial when the tree holds at least one Diff or one Pytree dataclass and at least 2 leaves; distinct by (monitor group, structural signature of the tree).",
    "reach_anchors": [f"{INC}:Diff.tree_diff", f"{INC}:Diff.tree_primal", f"{INC}:Diff.tree_tangent", f"{INC}:Diff.no_change", f"{INC}:Diff.unknown_change", f"{INC}:Diff.static_check_no_change", f"{INC}:Diff.static_check_tree_diff", f"{PT}:Pytree.const", f"{PT}:Pytree.tree_const", f"{PT}:Pytree.tree_const_unwrap", f"{PT}:Pytree.partial", f"{PT}:Closure.__call__", f"{PT}:Const.unwrap"],
    "reach_required": [f"{INC}:Diff.tree_diff", f"{INC}:Diff.tree_primal", f"{INC}:Diff.tree_tangent", f"{INC}:Diff.no_change", f"{INC}:Diff.unknown_change", f"{INC}:Diff.static_check_no_change", f"{INC}:Diff.static_check_tree_diff", f"{PT}:Pytree.const", f"{PT}:Pytree.partial", f"{PT}:Closure.__call__"],
    "counters_required": ["diff_primal", "diff_tangent", "diff_nochange", "diff_nochange_strict", "diff_treediff", "diff_no_change", "diff_unknown_change", "diff_tree_diff", "diff_under_jit", "py_flatten", "py_static_in_treedef", "py_structure_equivalence", "py_jit", "py_vmap", "const_cases", "closure_cases"],
    "assumptions": ["jax.tree_util flatten/unflatten/tree_structure, jax.jit and jax.vmap are the trusted base", "the tangent assigned by tree_tangent to a non-Diff leaf is not judged (code: NoChange, docstring: UnknownChange); static_check_no_change on a tree mixing plain leaves with all-NoChange Diffs is only required to agree with tree_tangent", "Diff with a non-leaf primal is generated (15% of Diffs) although the docstring recommends Diffs as leaves; only primal/tangent extraction is judged on it"],
}


def _v(ctx, op, on, field, cond, detail, spec=None):
    ctx.violation(f"C21|op={op}|on={on}|field={field}|cond={cond}", detail=detail, tree=common.short(spec, 600) if spec is not None else None)


def _call(ctx, op, on, fn, *a, spec=None):
    """Run a library helper; an exception on a valid tree is a violation (property says it returns)."""
    try:
        return True, fn(*a)
    except Exception as e:  # noqa: BLE001
        _v(ctx, op, on, "raises", common.exc_mechanism(e), f"{type(e).__name__}: {e}"[:400], spec)
        return False, None


def _on(kinds):
    """Construct class for signatures: the most specific 'special' node kind present."""
    for k in ("closure", "const", "chm", "mask", "dc", "diff"):
        if k in kinds:
            return {"dc": "PytreeDataclass", "diff": "DiffLeaf", "chm": "ChoiceMap", "mask": "Mask", "const": "Const", "closure": "Closure"}[k]
    return "containers"


# ---------------------------------------------------------------------------------- Diff monitors
def diff_monitors(ctx, spec, T, P, info, trng):
    L = G.Lib
    Diff = L.Diff
    kinds = G.kinds_of(spec)
    on = _on(kinds)
    tags = info["tags"]
    n_plain = info["n_plain"]
    has_unknown = "U" in tags
    all_diff = n_plain == 0

    # -- tree_primal
    ok, got = _call(ctx, "tree_primal", on, Diff.tree_primal, T, spec=spec)
    if ok:
        ctx.count("diff_primal")
        r = G.struct_eq(got, P)  # P was built by the generator without any Diff
        if r is None:
            r = G.struct_eq(got, G.ref_primal(T))
        if r is None and G.contains_instance(got, Diff):
            r = "a Diff survived tree_primal"
        if r:
            _v(ctx, "tree_primal", on, "structure+primal", "vs-generator-primal", r, spec)

    # -- tree_tangent
    ok, tt = _call(ctx, "tree_tangent", on, Diff.tree_tangent, T, spec=spec)
    tangent_leaves = None
    if ok:
        ctx.count("diff_tangent")
        r = G.struct_eq(tt, G.ref_tangent_expected(T))
        if r:
            _v(ctx, "tree_tangent", on, "structure+tangent", "vs-reference-map", r, spec)
        else:
            tangent_leaves = _collect_tangents(tt)
            if n_plain:
                # observed convention for plain leaves (recorded only)
                plain_t = _plain_tangents(tt, T)
                for t in plain_t:
                    ctx.count("plain_leaf_tangent_NoChange" if t is L.NoChange or type(t) is type(L.NoChange) else "plain_leaf_tangent_UnknownChange")

    # -- static_check_no_change
    ok, got = _call(ctx, "static_check_no_change", on, Diff.static_check_no_change, T, spec=spec)
    if ok:
        ctx.count("diff_nochange")
        if not isinstance(got, bool):
            _v(ctx, "static_check_no_change", on, "type", "not-bool", f"returned {type(got).__name__}", spec)
        elif has_unknown:
            ctx.count("diff_nochange_strict")
            if got:
                _v(ctx, "static_check_no_change", on, "value", "true-with-unknownchange-leaf", f"tags={tags} plain={n_plain}", spec)
        elif all_diff:
            ctx.count("diff_nochange_strict")
            if not got:
                _v(ctx, "static_check_no_change", on, "value", "false-with-all-nochange", f"tags={tags} plain=0", spec)
        else:
            ctx.count("diff_nochange_mixed_consistency")
            if tangent_leaves is not None:
                exp = all(type(t) is type(L.NoChange) for t in tangent_leaves)
                if got != exp:
                    _v(ctx, "static_check_no_change", on, "value", "disagrees-with-tree_tangent", f"got {got}, tangents all NoChange = {exp}", spec)

    # -- static_check_tree_diff
    ok, got = _call(ctx, "static_check_tree_diff", on, Diff.static_check_tree_diff, T, spec=spec)
    if ok:
        ctx.count("diff_treediff")
        if got is not all_diff and got != all_diff:
            _v(ctx, "static_check_tree_diff", on, "value", "all-diff" if all_diff else "has-plain-leaf", f"got {got}, plain leaves={n_plain}", spec)

    # -- no_change / unknown_change
    for name, tang, tagc in (("no_change", L.NoChange, "N"), ("unknown_change", L.UnknownChange, "U")):
        ok, got = _call(ctx, name, on, getattr(Diff, name), T, spec=spec)
        if not ok:
            continue
        ctx.count("diff_" + name)
        exp = G.ref_wrap_all(P, tang)
        r = G.struct_eq(got, exp)
        if r:
            _v(ctx, name, on, "structure+primal+tangent", "vs-reference-map", r, spec)
            continue
        n_leaves = len(info["leaves"])
        # round trips
        ok2, back = _call(ctx, "tree_primal", on, Diff.tree_primal, got, spec=spec)
        if ok2:
            r = G.struct_eq(back, P)
            if r:
                _v(ctx, "tree_primal", on, "roundtrip", "after-" + name, r, spec)
        ok2, chk = _call(ctx, "static_check_no_change", on, Diff.static_check_no_change, got, spec=spec)
        if ok2:
            ctx.count("diff_nochange_strict")
            exp_chk = (tagc == "N") or n_leaves == 0
            if bool(chk) != exp_chk:
                _v(ctx, "static_check_no_change", on, "value", "after-" + name, f"got {chk}, expected {exp_chk}, leaves={n_leaves}", spec)
        ok2, chk = _call(ctx, "static_check_tree_diff", on, Diff.static_check_tree_diff, got, spec=spec)
        if ok2 and not chk:
            _v(ctx, "static_check_tree_diff", on, "value", "after-" + name, "false on a fully wrapped tree", spec)
        ok2, tg = _call(ctx, "tree_tangent", on, Diff.tree_tangent, got, spec=spec)
        if ok2:
            r = G.struct_eq(tg, G.ref_map(lambda v: tang, P))
            if r:
                _v(ctx, "tree_tangent", on, "roundtrip", "after-" + name, r, spec)

    # -- tree_diff with random per-leaf tangents
    seq = [bool(trng.integers(2)) for _ in range(len(info["leaves"]) + 1)]
    it1, it2 = iter(seq), iter(seq)
    TT = G.ref_map(lambda v: L.NoChange if next(it1) else L.UnknownChange, P)
    exp = G.ref_map(lambda v: Diff(v, L.NoChange if next(it2) else L.UnknownChange), P)
    ok, got = _call(ctx, "tree_diff", on, Diff.tree_diff, P, TT, spec=spec)
    if ok:
        ctx.count("diff_tree_diff")
        r = G.struct_eq(got, exp)
        if r:
            _v(ctx, "tree_diff", on, "structure+primal+tangent", "vs-reference-zip", r, spec)
        else:
            ok2, back = _call(ctx, "tree_primal", on, Diff.tree_primal, got, spec=spec)
            if ok2 and (r := G.struct_eq(back, P)):
                _v(ctx, "tree_primal", on, "roundtrip", "after-tree_diff", r, spec)
            ok2, tg = _call(ctx, "tree_tangent", on, Diff.tree_tangent, got, spec=spec)
            if ok2 and (r := G.struct_eq(tg, TT)):
                _v(ctx, "tree_tangent", on, "roundtrip", "after-tree_diff", r, spec)
            ok2, chk = _call(ctx, "static_check_no_change", on, Diff.static_check_no_change, got, spec=spec)
            if ok2:
                ctx.count("diff_nochange_strict")
                used = seq[: len(info["leaves"])]
                if bool(chk) != all(used):
                    _v(ctx, "static_check_no_change", on, "value", "after-tree_diff", f"got {chk}, tangents NoChange={used}", spec)
    # -- the same helpers at trace time (leaves are tracers; the static checks must stay python bools)
    if info["leaves"]:
        seen = []

        def under_jit(t):
            d = Diff.unknown_change(t)
            n = Diff.no_change(t)
            seen.append((Diff.static_check_no_change(d), Diff.static_check_no_change(n), Diff.static_check_tree_diff(d), Diff.static_check_tree_diff(t)))
            return Diff.tree_primal(d), d, n, Diff.tree_tangent(d)

        try:
            o_p, o_d, o_n, o_t = L.jax.jit(under_jit)(P)
            ctx.count("diff_under_jit")
            if seen[0] != (False, True, True, False):
                _v(ctx, "static_checks", on, "value", "at-trace-time", f"(no_change(unknown), no_change(nochange), tree_diff(wrapped), tree_diff(plain)) = {seen[0]}", spec)
            r = G.struct_eq(o_p, P, loose=True) or G.struct_eq(o_d, G.ref_wrap_all(P, L.UnknownChange), loose=True) or G.struct_eq(o_n, G.ref_wrap_all(P, L.NoChange), loose=True) or G.struct_eq(o_t, G.ref_map(lambda v: L.UnknownChange, P))
            if r:
                _v(ctx, "diff-helpers", on, "roundtrip", "through-jit", r, spec)
        except Exception as e:  # noqa: BLE001
            _v(ctx, "diff-helpers", on, "raises", "under-jit," + common.exc_mechanism(e), f"{type(e).__name__}: {e}"[:400], spec)
    nontrivial = (("diff" in kinds) or ("dc" in kinds)) and len(info["leaves"]) >= 2
    ctx.evaluation(fingerprint=("diff", G.spec_signature(spec)), nontrivial=nontrivial, n=9)


def _collect_tangents(tt):
    """All ChangeTangent instances in a tangent tree (plain python walk)."""
    L = G.Lib
    out = []

    def walk(v):
        if isinstance(v, L.ChangeTangent):
            out.append(v)
        elif isinstance(v, (tuple, list)):
            for c in v:
                walk(c)
        elif isinstance(v, dict):
            for c in v.values():
                walk(c)
        elif G._is_pytree_dc(v):
            import dataclasses

            st = G._static_names(v)
            for f in dataclasses.fields(v):
                if f.name not in st:
                    walk(getattr(v, f.name))

    walk(tt)
    return out


def _plain_tangents(tt, T):
    """Tangents that tree_tangent put at the positions of T's non-Diff leaves."""
    L = G.Lib
    out = []

    def walk(a, b):
        if isinstance(b, L.Diff):
            return
        if isinstance(b, (tuple, list)):
            for x, y in zip(a, b):
                walk(x, y)
        elif isinstance(b, dict):
            for k in b:
                walk(a[k], b[k])
        elif b is None:
            return
        elif G._is_pytree_dc(b):
            import dataclasses

            st = G._static_names(b)
            for f in dataclasses.fields(b):
                if f.name not in st:
                    walk(getattr(a, f.name), getattr(b, f.name))
        else:
            out.append(a)

    walk(tt, T)
    return out


# ---------------------------------------------------------------------------------- Pytree monitors
def _multiset(leaves):
    from collections import Counter

    return Counter(G.leaf_key(x) for x in leaves)


def pytree_monitors(ctx, spec, T, info, gen_args):
    L = G.Lib
    jax = L.jax
    jtu = jax.tree_util
    kinds = G.kinds_of(spec)
    on = _on(kinds)

    # -- flatten / unflatten
    ok, fl = _call(ctx, "tree_flatten", on, jtu.tree_flatten, T, spec=spec)
    if not ok:
        return
    leaves, treedef = fl
    ctx.count("py_flatten")
    bad = [x for x in leaves if not (G.is_arraylike(x) or isinstance(x, (bool, int, float)))]
    if bad:
        _v(ctx, "tree_flatten", on, "leaves", "non-data-leaf", f"leaf of type {type(bad[0]).__name__}: {common.short(bad[0])}", spec)
    else:
        big = [x for x in leaves if np.asarray(x).size and np.asarray(x).dtype != np.bool_ and np.max(np.abs(np.asarray(x).astype(np.float64))) >= G.STATIC_BASE]
        if big:
            _v(ctx, "tree_flatten", on, "leaves", "static-field-among-leaves", f"static sentinel {common.short(big[0])} is a leaf", spec)
        elif _multiset(leaves) != _multiset(info["leaves"]):
            _v(ctx, "tree_flatten", on, "leaves", "dynamic-leaf-multiset", f"{len(leaves)} leaves vs {len(info['leaves'])} generated", spec)
    ok, back = _call(ctx, "tree_unflatten", on, jtu.tree_unflatten, treedef, leaves, spec=spec)
    if ok and (r := G.struct_eq(back, T)):
        _v(ctx, "tree_unflatten", on, "roundtrip", "flatten-unflatten", r, spec)
    # tree_map with opaque tokens == reference map
    tok = lambda x: G.Token(G.leaf_key(x))  # noqa: E731
    ok, mapped = _call(ctx, "tree_map", on, jtu.tree_map, tok, T, spec=spec)
    if ok and (r := G.struct_eq(mapped, G.ref_map(tok, T))):
        _v(ctx, "tree_map", on, "structure", "token-leaves", r, spec)
    # statics live in the treedef
    statics = [s for s in info["statics"]]
    T2, info2 = G.build(spec, with_diff=True, static_bump=3)
    if info2["bumped"]:
        ctx.count("py_static_in_treedef")
        td2 = jtu.tree_structure(T2)
        if td2 == treedef:
            _v(ctx, "tree_structure", on, "treedef", "static-change-invisible", "changing a static field left the treedef equal", spec)
        if _multiset(jtu.tree_leaves(T2)) != _multiset(leaves):
            _v(ctx, "tree_flatten", on, "leaves", "static-change-changes-leaves", "changing a static field changed the leaves", spec)
    if leaves:
        ok, shifted = _call(ctx, "tree_map", on, jtu.tree_map, lambda x: x, T, spec=spec)
        if ok and jtu.tree_structure(shifted) != treedef:
            _v(ctx, "tree_structure", on, "treedef", "identity-map-changes-treedef", "tree_map(identity) changed the treedef", spec)
    # Pytree.static_check_tree_structure_equivalence / Pytree.treedef
    eqv = L.Pytree.static_check_tree_structure_equivalence
    ok, same3 = _call(ctx, "static_check_tree_structure_equivalence", on, eqv, [T, back if back is not None else T, G.ref_map(tok, T)], spec=spec)
    if ok:
        ctx.count("py_structure_equivalence")
        if same3 is not True:
            _v(ctx, "static_check_tree_structure_equivalence", on, "value", "same-structure-trees", f"returned {same3!r}", spec)
        if info2["bumped"]:
            ok, diff2 = _call(ctx, "static_check_tree_structure_equivalence", on, eqv, [T, T2], spec=spec)
            if ok and diff2 is not False:
                _v(ctx, "static_check_tree_structure_equivalence", on, "value", "static-field-differs", f"returned {diff2!r}", spec)
        ok, wrapped = _call(ctx, "static_check_tree_structure_equivalence", on, eqv, [T, (T,)], spec=spec)
        if ok and wrapped is not False:
            _v(ctx, "static_check_tree_structure_equivalence", on, "value", "extra-container-level", f"returned {wrapped!r}", spec)
    if G._is_pytree_dc(T):
        ok, td_m = _call(ctx, "Pytree.treedef", on, T.treedef, spec=spec)
        if ok and td_m != treedef:
            _v(ctx, "Pytree.treedef", on, "treedef", "vs-tree_structure", "method and jax.tree_util disagree", spec)
    del statics

    # -- jit identity with trace-time inspection
    problems = []

    def inspect(t):
        leaves_in = []
        G.ref_map(lambda v: leaves_in.append(v) or v, t)
        for v in leaves_in:
            if not isinstance(v, jax.core.Tracer):
                problems.append(f"dynamic leaf is not traced under jit: {type(v).__name__}")
                break
        r = G.struct_eq(G.ref_map(lambda v: 0, t), G.ref_map(lambda v: 0, T))
        if r:
            problems.append("structure/static fields under jit: " + r)
        return t

    try:
        out = jax.jit(inspect)(T)
        ctx.count("py_jit")
        if problems:
            _v(ctx, "jit", on, "trace-time", "static-or-dynamic-role", problems[0], spec)
        elif (r := G.struct_eq(out, T, loose=True)):
            _v(ctx, "jit", on, "roundtrip", "identity", r, spec)
    except Exception as e:  # noqa: BLE001
        _v(ctx, "jit", on, "raises", common.exc_mechanism(e), f"{type(e).__name__}: {e}"[:400], spec)

    # -- vmap identity on the batched tree
    B = 3
    TB, infoB = G.build(spec, with_diff=True, batch=B)
    vproblems = []
    if infoB["leaves"]:
        unb = [np.asarray(x).shape for x in infoB["leaves"]]

        def vinspect(t):
            ls = []
            G.ref_map(lambda v: ls.append(v) or v, t)
            from collections import Counter

            if Counter(tuple(np.shape(v)) for v in ls) != Counter(s[1:] for s in unb):
                vproblems.append("leaf shapes inside vmap are not the unbatched shapes")
            r = G.struct_eq(G.ref_map(lambda v: 0, t), G.ref_map(lambda v: 0, TB))
            if r:
                vproblems.append("structure/static fields under vmap: " + r)
            return t

        try:
            out = jax.vmap(vinspect)(TB)
            ctx.count("py_vmap")
            if vproblems:
                _v(ctx, "vmap", on, "trace-time", "static-or-dynamic-role", vproblems[0], spec)
            elif (r := G.struct_eq(out, TB, loose=False)):
                _v(ctx, "vmap", on, "roundtrip", "identity", r, spec)
        except Exception as e:  # noqa: BLE001
            _v(ctx, "vmap", on, "raises", common.exc_mechanism(e), f"{type(e).__name__}: {e}"[:400], spec)
    nontrivial = (("diff" in kinds) or ("dc" in kinds)) and len(info["leaves"]) >= 2
    ctx.evaluation(fingerprint=("pytree", G.spec_signature(spec)), nontrivial=nontrivial, n=5)


# ---------------------------------------------------------------------------------- Const
def const_cases(ctx, n):
    L = G.Lib
    jax, jnp, Pytree, Const = L.jax, L.jnp, L.Pytree, L.Const
    jtu = jax.tree_util
    for ci in ctx.my_share(n):
        rng = ctx.child_rng(7, ci)
        g = G.Gen(rng, 2)
        v = g.static_value()
        if ci % 5 == 0:
            v = ["lit", 3, 2.5, True, (1, "a")][ci // 5 % 5]
        on = "Const"
        ctx.count("const_cases")
        ok, c = _call(ctx, "const", on, Pytree.const, v)
        if not ok:
            continue
        same = lambda a, b: a is b or (type(a) is type(b) and a == b)  # noqa: E731
        if type(c) is not Const or not same(c.val, v):
            _v(ctx, "const", on, "value", "wrap", f"Pytree.const({v!r}) = {c!r}")
        if not same(c.unwrap(), v):
            _v(ctx, "Const.unwrap", on, "value", "instance", f"{c.unwrap()!r} vs {v!r}")
        if not same(Const.unwrap(v), v):
            _v(ctx, "Const.unwrap", on, "value", "static-call-on-plain", f"{Const.unwrap(v)!r} vs {v!r}")
        cc = Pytree.const(c)
        if type(cc) is not Const or not same(cc.val, v):
            _v(ctx, "const", on, "value", "double-wrap", f"Pytree.const(Const) = {cc!r}")
        leaves, td = jtu.tree_flatten(c)
        if leaves:
            _v(ctx, "tree_flatten", on, "leaves", "static-field-among-leaves", f"Const has leaves {leaves!r}")
        back = jtu.tree_unflatten(td, leaves)
        if type(back) is not Const or not same(back.val, v):
            _v(ctx, "tree_unflatten", on, "roundtrip", "flatten-unflatten", f"{back!r}")
        if not callable(v) and jtu.tree_structure(Pytree.const((v, 1))) == td:
            _v(ctx, "tree_structure", on, "treedef", "static-change-invisible", "different constants, equal treedefs")
        # jit: constant is concrete inside and survives
        seen = []

        def f(k, x):
            seen.append(k.unwrap())
            return k, (x + 1.0 if same(k.unwrap(), v) else x - 1.0)

        try:
            kout, y = jax.jit(f)(c, jnp.asarray(1.0))
            if not seen or isinstance(seen[0], jax.core.Tracer) or not same(seen[0], v):
                _v(ctx, "jit", on, "trace-time", "static-or-dynamic-role", f"inside jit the constant is {seen[:1]!r}")
            if type(kout) is not Const or not same(kout.val, v) or float(y) != 2.0:
                _v(ctx, "jit", on, "roundtrip", "identity", f"{kout!r}, y={y}")
        except Exception as e:  # noqa: BLE001
            _v(ctx, "jit", on, "raises", common.exc_mechanism(e), f"{type(e).__name__}: {e}"[:300])
        if callable(v):
            args = {G._fn_const_a: (2.0,), G._fn_const_b: (2.0, 3.0), G._fn_affine: (2.0, 3.0, 4.0)}[v]
            ok, r = _call(ctx, "Const.__call__", on, c, *args)
            if ok and r != v(*args):
                _v(ctx, "Const.__call__", on, "value", "call", f"{r} vs {v(*args)}")
        # tree_const / tree_const_unwrap on a tree of python literals (+ already wrapped consts)
        lits = [3, 2.5, "s", True, (4,)]
        tree = {"a": lits[ci % 5], "b": [lits[(ci + 1) % 5], Pytree.const(lits[(ci + 2) % 5])], "c": (lits[(ci + 3) % 5],)}
        ok, tc = _call(ctx, "tree_const", on, Pytree.tree_const, tree)
        if ok:
            ctx.count("const_tree_const")
            flat = [tc["a"], tc["b"][0], tc["b"][1], tc["c"][0]]
            exp_vals = [tree["a"], tree["b"][0], tree["b"][1].val, tree["c"][0]]
            # a tuple literal is a pytree container: its elements get wrapped, not the tuple
            for pos, (got_c, ev) in enumerate(zip(flat, exp_vals)):
                if isinstance(ev, tuple) and pos != 2:  # pos 2 was already a Const: kept as is
                    if not (isinstance(got_c, tuple) and all(type(x) is Const for x in got_c) and tuple(x.val for x in got_c) == ev):
                        _v(ctx, "tree_const", on, "value", "tuple-literal", f"{got_c!r} vs {ev!r}")
                elif type(got_c) is not Const or not same(got_c.val, ev):
                    _v(ctx, "tree_const", on, "value", "wrap-or-double-wrap", f"{got_c!r} vs Const({ev!r})")
            if jtu.tree_leaves(tc):
                _v(ctx, "tree_const", on, "leaves", "static-field-among-leaves", f"{jtu.tree_leaves(tc)!r}")
            ok, un = _call(ctx, "tree_const_unwrap", on, Pytree.tree_const_unwrap, tc)
            exp_un = {"a": tree["a"], "b": [tree["b"][0], tree["b"][1].val], "c": (tree["c"][0],)}
            if ok and un != exp_un:
                _v(ctx, "tree_const_unwrap", on, "roundtrip", "tree_const-then-unwrap", f"{un!r} vs {exp_un!r}")
        ctx.evaluation(fingerprint=("const", type(v).__name__, ci % 5), nontrivial=True, n=3)
    # tree_const leaves tracers alone
    if ctx.shard == 0:
        def h(x):
            t = Pytree.tree_const((x, 3, "k"))
            return t

        try:
            out = jax.jit(h)(jnp.asarray(2.0))
            ok = (not isinstance(out[0], Const)) and float(out[0]) == 2.0 and type(out[1]) is Const and out[1].val == 3 and type(out[2]) is Const and out[2].val == "k"
            ctx.count("const_tree_const")
            if not ok:
                _v(ctx, "tree_const", "Const", "value", "traced-leaf", f"{out!r}")
        except Exception as e:  # noqa: BLE001
            _v(ctx, "tree_const", "Const", "raises", common.exc_mechanism(e), f"{type(e).__name__}: {e}"[:300])


# ---------------------------------------------------------------------------------- Closure
def closure_cases(ctx, n):
    L = G.Lib
    jax, jnp, Pytree, Closure = L.jax, L.jnp, L.Pytree, L.Closure
    jtu = jax.tree_util
    for ci in ctx.my_share(n):
        rng = ctx.child_rng(8, ci)
        form = ci % 4
        r3 = lambda: float(np.round(rng.normal() * 2, 3))  # noqa: E731
        if form == 0:
            fn, dyn, args, kw = G._fn_affine, (jnp.asarray([r3(), r3()], dtype=jnp.float32), r3()), (jnp.asarray(r3(), dtype=jnp.float32),), {}
        elif form == 1:
            fn, dyn, args, kw = G._fn_sumsq, (jnp.asarray([r3(), r3(), r3()], dtype=jnp.float32),), (jnp.asarray(r3(), dtype=jnp.float32),), {"y": jnp.asarray(r3(), dtype=jnp.float32)}
        elif form == 2:
            fn, dyn, args, kw = G._fn_pair, ((jnp.asarray(r3(), dtype=jnp.float32), jnp.asarray([r3(), r3()], dtype=jnp.float32)),), (jnp.asarray(r3(), dtype=jnp.float32),), {}
        else:
            fn, dyn, args, kw = G._fn_nodyn, (), (jnp.asarray(r3(), dtype=jnp.float32), jnp.asarray(r3(), dtype=jnp.float32)), {}
        on = "Closure"
        ctx.count("closure_cases")
        ok, clo = _call(ctx, "partial", on, lambda: Pytree.partial(*dyn)(fn))
        if not ok:
            continue
        exp = np.asarray(fn(*dyn, *args, **kw))
        if type(clo) is not Closure or clo.fn is not fn or G.struct_eq(clo.dyn_args, dyn):
            _v(ctx, "partial", on, "fields", "fn-or-dyn_args", f"{clo!r}")
            continue
        ok, got = _call(ctx, "Closure.__call__", on, lambda: clo(*args, **kw))
        if ok and not common.close(got, exp):
            _v(ctx, "Closure.__call__", on, "value", "eager", f"{got} vs {exp}")
        leaves, td = jtu.tree_flatten(clo)
        dl = []
        G.ref_map(lambda v: dl.append(v) or v, dyn)
        if _multiset(leaves) != _multiset(dl):
            _v(ctx, "tree_flatten", on, "leaves", "dynamic-leaf-multiset", f"{len(leaves)} leaves vs {len(dl)} dyn leaves")
        back = jtu.tree_unflatten(td, leaves)
        if type(back) is not Closure or back.fn is not fn or G.struct_eq(back.dyn_args, dyn):
            _v(ctx, "tree_unflatten", on, "roundtrip", "flatten-unflatten", f"{back!r}")
        try:
            out = jax.jit(lambda c: c)(clo)
            if type(out) is not Closure or out.fn is not fn or G.struct_eq(out.dyn_args, dyn, loose=True):
                _v(ctx, "jit", on, "roundtrip", "identity", f"{out!r}")
            got = jax.jit(lambda c, a, k: c(*a, **k))(clo, args, kw)
            if not common.close(got, exp):
                _v(ctx, "Closure.__call__", on, "value", "under-jit", f"{got} vs {exp}")
            # closure created under jit and returned (documented usage)
            made = jax.jit(lambda d: Pytree.partial(*d)(fn))(dyn)
            if type(made) is not Closure or made.fn is not fn or G.struct_eq(made.dyn_args, dyn, loose=True):
                _v(ctx, "partial", on, "roundtrip", "created-under-jit", f"{made!r}")
            elif not common.close(made(*args, **kw), exp):
                _v(ctx, "Closure.__call__", on, "value", "created-under-jit", f"{made(*args, **kw)} vs {exp}")
            # vmap over dyn args and call args
            B = 3
            stack = lambda x: jnp.stack([jnp.asarray(x, dtype=jnp.float32) * (i + 1) for i in range(B)])  # noqa: E731
            sdyn = G.ref_map(stack, dyn)
            sargs = G.ref_map(stack, args)
            skw = G.ref_map(stack, kw)
            sclo = Pytree.partial(*sdyn)(fn)
            got = jax.vmap(lambda c, a, k: c(*a, **k))(sclo, sargs, skw)
            for i in range(B):
                pick = lambda x: jnp.asarray(x, dtype=jnp.float32) * (i + 1)  # noqa: E731
                e_i = np.asarray(fn(*G.ref_map(pick, dyn), *G.ref_map(pick, args), **G.ref_map(pick, kw)))
                if not common.close(np.asarray(got)[i], e_i):
                    _v(ctx, "Closure.__call__", on, "value", "under-vmap", f"row {i}: {np.asarray(got)[i]} vs {e_i}")
                    break
            if dyn:
                vout = jax.vmap(lambda c: c)(sclo)
                if type(vout) is not Closure or vout.fn is not fn or G.struct_eq(vout.dyn_args, sdyn):
                    _v(ctx, "vmap", on, "roundtrip", "identity", f"{vout!r}")
        except Exception as e:  # noqa: BLE001
            _v(ctx, "jit-or-vmap", on, "raises", common.exc_mechanism(e), f"{type(e).__name__}: {e}"[:300])
        ctx.evaluation(fingerprint=("closure", form), nontrivial=True, n=6)


# ---------------------------------------------------------------------------------- driver
def run(ctx):
    common.import_repo()
    G.Lib.init()
    n_trees = ctx.pick(2400, 20000)
    budget = ctx.pick(150.0, 800.0)
    max_depth = ctx.pick(3, 4)
    const_cases(ctx, ctx.pick(48, 400))
    closure_cases(ctx, ctx.pick(32, 200))
    for ti in ctx.my_share(n_trees):
        if ctx.elapsed() > budget:
            ctx.count("trees_skipped_budget")
            continue
        rng = ctx.child_rng(1, ti)
        g = G.Gen(rng, max_depth)
        spec = g.node(0)
        try:
            T, info = G.build(spec, with_diff=True)
            P, _ = G.build(spec, with_diff=False)
        except Exception as e:  # noqa: BLE001  -- constructing the workload itself failed
            ctx.reject("build:" + common.exc_mechanism(e))
            ctx.note(f"build failed: {type(e).__name__}: {e} on {common.short(spec, 300)}")
            continue
        ctx.count("trees")
        for k in G.kinds_of(spec):
            ctx.count("kind_" + k)
        diff_monitors(ctx, spec, T, P, info, ctx.child_rng(2, ti))
        # Pytree round trips: on the Diff-carrying tree (Diff is itself a Pytree dataclass)
        pytree_monitors(ctx, spec, T, info, None)
        ctx.sample({"tree": common.short(spec, 400), "leaves": len(info["leaves"]), "diff_tags": info["tags"], "plain_leaves": info["n_plain"]}, limit=2)
