"""C16 — masked iteration steps with a false mask are inert.

Reference loops (from the docstrings): a step whose mask entry is False contributes nothing to
the score; in masked_iterate_final it also leaves the iterated value unchanged; steps with mask
True are ordinary iterate steps.  Mask sequences are enumerated exhaustively for the lengths used.
"""

import itertools

import numpy as np

from vf import common, engine
from vf.engine import Discard, Issue, Rejected
from vf.prog import ast, gen
from vf.props import _drive

G = "genjax._src.generative_functions"
CONFIG = {
    "level": "exploration",
    "shards": {"quick": 16, "thorough": 16},
    "timeout_s": {"quick": 900, "thorough": 5400},
    "rule": "case = step kernel from the grammar (value-changing, drawing choices whose parameters depend on the current value) x length n x EVERY mask sequence of that length (n<=3 quick, n<=4 thorough; random sequences for n=5) for masked_iterate and masked_iterate_final: simulate + importance + assess on own choices, judged by the documented loops. non-trivial: the sequence has a False entry followed by a True entry and the kernel draws >=1 choice; distinct by (kernel AST shape, combinator, mask sequence).",
    "reach_anchors": [f"{G}.combinators.scan:masked_iterate", f"{G}.combinators.scan:masked_iterate_final", f"{G}.combinators.mask:MaskTrace.build", f"{G}.combinators.scan:Scan.simulate"],
    "reach_required": [f"{G}.combinators.scan:masked_iterate", f"{G}.combinators.scan:masked_iterate_final", f"{G}.combinators.mask:MaskTrace.build"],
    "counters_required": ["mask_sequences"],
    "assumptions": ["masked_iterate's recorded value after a masked-off step is undocumented: each True step is judged from the value the implementation reports as its input"],
}

CLAUSES = ("model.", "assess.", "imp.")


def run(ctx):
    nk = ctx.pick(48, 400)
    budget = ctx.pick(75, 420)
    for ci in ctx.my_share(nk):
        if ctx.elapsed() > budget:
            ctx.note(f"time budget reached at kernel {ci}")
            break
        rng = ctx.child_rng(ci)
        try:
            one_kernel(ctx, rng, ci)
        except Discard as d:
            ctx.count("discarded:" + d.why.split(":")[0])
        except Exception as e:
            import traceback

            ctx.count("harness_errors")
            ctx.note(f"harness error kernel {ci}: {type(e).__name__}: {e} {traceback.format_exc()[-400:]}")


def one_kernel(ctx, rng, ci):
    depth = 1 if ctx.quick() or rng.random() < 0.6 else 2
    cfg = gen.Cfg(depth=depth, kinds=["Dist", "Static", "Vmap", "Dimap"], vector_dists=True)
    g = gen.Gen(rng, cfg)
    nmax = ctx.pick(3, 4)
    n = int(rng.integers(1, nmax + 1))
    final = bool(ci % 2 == 0)  # alternate so that both combinators are exercised by every shard
    f = g.static(depth, nparams=1, ret="carry", names=["c"])
    node = (ast.MaskedIterateFinal if final else ast.MaskedIterate)(f, n)
    case = engine.Case(node, f"C16/s{ctx.seed}/sh{ctx.shard}/{ci}")
    nchoices = sum(1 for s in f.sites() for _ in s.paths())
    init = np.float64(np.round(rng.normal(), 3))
    r_init = rng.random()
    if r_init < 0.12:
        init = np.float64(np.inf)  # sentinels (running max / min accumulators) are valid states
    elif r_init < 0.24:
        init = np.float64(-np.inf)
    patterns = list(itertools.product([False, True], repeat=n))
    if n >= 5:
        patterns = [tuple(bool(b) for b in rng.random(n) < 0.5) for _ in range(12)]
    kk = (ctx.seed * 7919 + ci * 131) % (2**30)
    for pi, pat in enumerate(patterns):
        masks = np.asarray(pat, dtype=bool)
        args = (init, masks)
        hist = [f"{node.kind} n={n} masks={''.join('T' if b else 'F' for b in pat)} init={init}"]
        issues = []
        try:
            rec, iss = engine.op_simulate(case, kk + pi, args)
            issues += [("simulate", i) for i in iss]
            if rec is not None:
                a = []
                engine.check_assess_self(rec, a, "simulate")
                issues += [("simulate", i) for i in a]
                # constrain some choices at masked-off and live steps alike
                vals = engine.gen_constraint(rng, case, None, args, only_live=False, frac=0.5)
                rec2, w, iss2 = engine.op_importance(case, kk + pi + 1000, vals, args)
                issues += [("importance", i) for i in iss2]
                hist.append(f"importance constraint={_drive._short(vals, 120)}")
        except Rejected as r:
            ctx.count("unexpected_exceptions")
            issues.append(("simulate", Issue("raises", f"raised {r.mech}: {str(r.exc)[:120]}", r.mech)))
        ctx.count("mask_sequences")
        ctx.count("combinator:" + node.kind)
        inert_then_live = any((not pat[i]) and any(pat[i + 1 :]) for i in range(n))
        ctx.evaluation(fingerprint=(f.shape_sig(), node.kind, pat), nontrivial=inert_then_live and nchoices >= 1)
        for op, iss in issues:
            ctx.count("issues_seen:" + iss.clause)
            if iss.clause.startswith(CLAUSES) or iss.clause == "raises":
                pcls = "has-false-then-true" if inert_then_live else ("all-true" if all(pat) else "other")
                ctx.violation(
                    f"C16|op={op}|on={node.kind}|field={iss.clause}|cond={iss.cond + ',' if iss.cond else ''}{pcls}",
                    case=case.cid, detail=iss.detail, program=case.src, history=hist,
                )
    ctx.sample({"case": case.cid, "program": case.src, "n": n, "patterns": len(patterns)}, limit=2)
    if len(patterns) == 2**n:
        ctx.count("kernels_with_exhaustive_mask_sequences")
