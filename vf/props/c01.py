"""C01 — every trace agrees with assess on its own choices and arguments.

Monitor 1 (invariant at the hook, the property verbatim): after every operation that returns a
trace, call the real `assess(tr.get_choices(), tr.get_args())` and compare with
(tr.get_score(), tr.get_retval()).
Monitor 2 (model): the same score / return value must equal the reference interpreter's value
for the trace's own choices, so that a bug shared by assess and the trace path cannot hide.
"""

from vf.prog import gen
from vf.props import _drive

ANCH = "genjax._src.generative_functions"
CONFIG = {
    "level": "exploration",
    "shards": {"quick": 16, "thorough": 16},
    "timeout_s": {"quick": 900, "thorough": 5400},
    "rule": "case = generated program (grammar of distributions, static functions and all combinators, depth<=2 quick / <=3 thorough) + history of GFI ops (simulate|importance, then update/regenerate edits); after every trace-producing op the real assess() is called on the trace's own choices and compared, and score/retval are compared with the reference interpreter. non-trivial: program has >=1 combinator and >=2 random choices and the history has >=1 edit; distinct by (AST shape, op-kind sequence).",
    "reach_anchors": [
        f"{ANCH}.combinators.scan:ScanTrace.build",
        f"{ANCH}.combinators.vmap:VmapTrace.build",
        f"{ANCH}.combinators.switch:Switch.simulate",
        f"{ANCH}.combinators.switch:Switch.edit",
        f"{ANCH}.combinators.mask:MaskTrace.build",
        f"{ANCH}.combinators.dimap:Dimap.edit_change_target",
        f"{ANCH}.static:StaticGenerativeFunction.edit_update",
        f"{ANCH}.static:StaticGenerativeFunction.assess",
    ],
    "reach_required": [
        f"{ANCH}.combinators.scan:ScanTrace.build",
        f"{ANCH}.combinators.vmap:VmapTrace.build",
        f"{ANCH}.combinators.switch:Switch.edit",
        f"{ANCH}.combinators.mask:MaskTrace.build",
        f"{ANCH}.combinators.dimap:Dimap.edit_change_target",
        f"{ANCH}.static:StaticGenerativeFunction.assess",
    ],
    "counters_required": ["assess_self_checks"],
    "assumptions": [
        "reference interpreter (vf/prog/ast.py) transcribes the documented combinator semantics; scipy float64 densities",
        "float32 tolerance 2e-4 relative/absolute per sqrt(term)",
        "programs come from the bounded grammar; values read through public choice-map lookups",
    ],
}


def cfg_fn(rng, ctx):
    depth = int(rng.choice([1, 2, 2])) if ctx.quick() else int(rng.choice([1, 2, 2, 3]))
    return gen.Cfg(depth=depth, allow_zero_len=True, literal_ret=0.25, hostile_idx=rng.random() < 0.2, weights={"Dimap": 2.0})


def nontrivial(case, hist):
    nchoices = sum(1 for s in case.node.sites() for _ in s.paths())
    has_comb = any(k not in ("Dist", "Static") for k in case.kinds)
    has_edit = any(h.startswith(("update", "regenerate")) for h in hist)
    return has_comb and nchoices >= 2 and has_edit


PLAN = _drive.Plan(
    "C01",
    cfg_fn,
    clauses={"assess.*", "model.retval", "model.score", "model.addrs", "model.structure"},
    ops={"update": 3, "regenerate": 1},
    n_cases=(96, 800),
    n_ops=(3, 8),
    nontrivial=nontrivial,
    always=("assess_self",),
    exc_is_violation=False,
)


def run(ctx):
    _drive.run(ctx, PLAN)
