"""C04 — simulate samples the program's distribution and is a function of the key.

Three monitors:
1. determinism (exact): simulate / propose twice with the same (key, args) — back to back, after
   other programs were traced in between, and under jit — give identical choices/score/retval;
2. key ledger (exact, exactly-once): taps (vf/taps.py) stream the PRNG key consumed by every
   sampler invocation that actually executes; within one simulate no two executed sample sites
   may consume the same key (batched-switch branches exempt).  With a counter-based PRNG key
   reuse is the only way two sites can draw dependent randomness, whatever derivation scheme
   (split / fold_in) the library uses;
3. joint frequencies (statistical): for finite discrete programs, N simulations (vmap over keys)
   against the exact probabilities of every complete assignment enumerated with the reference
   interpreter (G-test, two-stage confirmation), plus exact-probability pairwise checks.
"""

from __future__ import annotations

import itertools
import math

import numpy as np

from vf import common, engine, taps
from vf.engine import Discard, Rejected
from vf.prog import ast, build, gen, obs
from vf.props import _drive

G = "genjax._src.generative_functions"
CONFIG = {
    "level": "exploration",
    "shards": {"quick": 16, "thorough": 16},
    "timeout_s": {"quick": 900, "thorough": 5400},
    "rule": "cases: (a) generated programs (all combinators, nested static calls inside scan kernels / vmap-in-scan / scan-in-vmap) simulated under the key ledger and re-simulated for determinism; (b) finite discrete programs (flip / bernoulli / categorical, <=64 joint outcomes) simulated N times, joint histogram vs exact enumeration. non-trivial: >=2 sample sites under >=1 combinator; distinct by (AST shape, monitor).",
    "reach_anchors": [f"{G}.static:SimulateHandler.fresh_key_and_increment", f"{G}.combinators.vmap:Vmap.simulate", f"{G}.combinators.scan:Scan.simulate", f"{G}.combinators.switch:Switch.simulate"],
    "reach_required": [f"{G}.static:SimulateHandler.fresh_key_and_increment", f"{G}.combinators.vmap:Vmap.simulate", f"{G}.combinators.scan:Scan.simulate"],
    "counters_required": ["ledger_simulations", "ledger_key_events", "determinism_checks", "freq_cells"],
    "counters_inconclusive": ["freq_grey"],
    "assumptions": ["jax.random is a counter-based PRNG: distinct keys give independent streams", "exact joint probabilities from the reference interpreter (scipy float64)", "G-test p-values from the chi-square approximation with cells pooled to expected count >= 8; two-stage confirmation (1e-6 then 1e-9 on 8x samples)"],
}


def run(ctx):
    common.import_repo()
    taps.install()
    budget = ctx.pick(80, 480)
    ledger_and_determinism(ctx, ctx.pick(160, 1600), budget * 0.55)
    frequencies(ctx, ctx.pick(48, 400), budget * 0.45)


# ------------------------------------------------------------------------------ ledger


def ledger_and_determinism(ctx, n, budget):
    import jax

    t0 = ctx.elapsed()
    prev_case = None
    for ci in ctx.my_share(n):
        if ctx.elapsed() - t0 > budget:
            ctx.note(f"ledger: time budget reached at case {ci}")
            break
        rng = ctx.child_rng(1, ci)
        depth = int(rng.choice([2, 2, 3])) if not ctx.quick() else 2
        # bias toward nesting that stresses key derivation
        w = {"Scan": 3.0, "Vmap": 2.5, "Repeat": 1.5, "Static": 3.0, "Iterate": 1.5, "Accumulate": 1.5}
        cfg = gen.Cfg(depth=depth, weights=w, kinds=[k for k in gen.ALL_KINDS if k != "MaskedIterate"], root=["Scan", "Vmap", "Static", "Repeat", "Iterate"] if rng.random() < 0.7 else None)
        if rng.random() < 0.4:
            # nested generative-function calls inside the kernels of vector combinators: the
            # place where per-iteration and per-site key derivations meet
            cfg = gen.Cfg(depth=3, kinds=["Dist", "Static"], weights={"Static": 2.0, "Dist": 1.5}, max_stmts=3, sizes=(2, 3),
                          root=["Scan", "Iterate", "Accumulate", "Vmap", "Repeat"], vector_dists=False)
        node = gen.gen_program(rng, cfg)
        args = gen.gen_args(rng, node)
        try:
            case = engine.Case(node, f"C04/ledger/s{ctx.seed}/sh{ctx.shard}/{ci}")
        except Exception as e:
            ctx.reject("build:" + common.exc_mechanism(e))
            continue
        ra = engine.real_args(args)
        key = engine.key((ctx.seed * 7907 + ci * 13) % (2**30))
        nsites = sum(1 for s in node.sites() for _ in s.paths())
        nt = nsites >= 2 and any(k not in ("Dist", "Static") for k in case.kinds)
        # ---- ledger
        taps.reset()
        taps.enabled(True)
        try:
            tr = case.gf.simulate(key, ra)
            evs = taps.events()
        except Exception as e:
            taps.enabled(False)
            ctx.reject("simulate:" + common.exc_mechanism(e))
            continue
        finally:
            taps.enabled(False)
        ctx.count("ledger_simulations")
        ctx.count("ledger_key_events", len(evs))
        if not evs and nsites > 0:
            ctx.count("ledger_no_events")
        for k, c1, c2 in taps.key_reuse(evs)[:3]:
            kinds = _reuse_cond(c1, c2)
            ctx.violation(
                f"C04|op=simulate|on={node.kind}|field=key-reuse|cond={kinds}",
                case=case.cid,
                detail=f"two executed sample sites consumed the same PRNG key: {taps.describe_ctx(c1)}  and  {taps.describe_ctx(c2)}",
                program=case.src, args=_drive._short(args, 200),
            )
        ctx.evaluation(fingerprint=("ledger", node.shape_sig()), nontrivial=nt)
        # ---- determinism: same key again (after another program was traced in between)
        try:
            if prev_case is not None:
                prev_case[0].gf.simulate(key, prev_case[1])  # interleave another program
            # both runs without taps: the tapped run above compiles different XLA programs
            # (callbacks inside the fused computation), which may differ in the last ulp
            tr2 = case.gf.simulate(key, ra)
            tr2b = case.gf.simulate(key, ra)
            d = _trace_diff(node, tr2, tr2b, exact=True)
            if d is None:
                d = _trace_close(node, tr, tr2)
            ctx.count("determinism_checks")
            if d:
                ctx.violation(f"C04|op=simulate|on={node.kind}|field=nondeterministic|cond=same-process", case=case.cid, detail=f"simulate twice with the same key and arguments differs: {d}", program=case.src)
            if rng.random() < ctx.pick(0.25, 0.5):
                chm, score, ret = case.gf.propose(key, ra)
                ex = obs.valid_assignment(obs.extract(node, chm))
                # against the untapped simulate, to float tolerance: propose runs the same sampling
                # code under the same key, but nothing promises the two graphs fuse identically
                ex0 = obs.valid_assignment(obs.extract(node, tr2.get_choices()))
                ctx.count("determinism_checks")
                if set(ex) != set(ex0) or any(not np.allclose(np.asarray(ex[p], dtype=np.float64), np.asarray(ex0[p], dtype=np.float64), rtol=1e-5, atol=1e-6, equal_nan=True) for p in ex):
                    ctx.violation(f"C04|op=propose|on={node.kind}|field=nondeterministic|cond=propose-vs-simulate", case=case.cid, detail="propose(key,args) choices differ from simulate(key,args)", program=case.src)
            if rng.random() < ctx.pick(0.15, 0.4):
                f = jax.jit(case.gf.simulate)
                ja = build.to_real(build.strip_py(args))
                t3 = f(key, ja)
                t4 = f(key, ja)
                d = _trace_diff(node, t3, t4, exact=True)
                ctx.count("determinism_checks")
                ctx.count("determinism_jit")
                if d:
                    ctx.violation(f"C04|op=simulate|on={node.kind}|field=nondeterministic|cond=jit", case=case.cid, detail=f"jitted simulate twice with the same key differs: {d}", program=case.src)
        except Exception as e:
            ctx.reject("resimulate:" + common.exc_mechanism(e))
        prev_case = (case, ra)
        ctx.sample({"monitor": "ledger", "case": case.cid, "program": case.src, "key_events": len(evs), "sites": nsites}, limit=1)


def _reuse_cond(c1, c2):
    """Structural class of a key collision: which construct levels the two sites share."""
    a1 = [x for x in c1 if x[0] == "addr"]
    a2 = [x for x in c2 if x[0] == "addr"]
    same_site = c1 == c2
    if same_site:
        return "same-site-different-iterations"
    if len(a1) != len(a2):
        return "nested-call-vs-sibling"
    return "sibling-sites"


def _trace_close(node, ta, tb):
    """Tapped vs untapped run: same choices up to float32 rounding."""
    ea = obs.valid_assignment(obs.extract(node, ta.get_choices()))
    eb = obs.valid_assignment(obs.extract(node, tb.get_choices()))
    if set(ea) != set(eb):
        return f"address sets differ {sorted(set(ea) ^ set(eb), key=repr)[:3]}"
    for p in ea:
        if not np.allclose(np.asarray(ea[p], dtype=np.float64), np.asarray(eb[p], dtype=np.float64), rtol=1e-4, atol=1e-5):
            return f"{p}: {ea[p]} vs {eb[p]}"
    return None


def _trace_diff(node, ta, tb, exact):
    ea = obs.valid_assignment(obs.extract(node, ta.get_choices()))
    eb = obs.valid_assignment(obs.extract(node, tb.get_choices()))
    if set(ea) != set(eb):
        return f"address sets differ {sorted(set(ea) ^ set(eb), key=repr)[:3]}"
    for p in ea:
        if not np.array_equal(np.asarray(ea[p]), np.asarray(eb[p])):
            return f"{p}: {ea[p]} vs {eb[p]}"
    sa, sb = np.asarray(ta.get_score()), np.asarray(tb.get_score())
    if not (np.array_equal(sa, sb) or (np.isnan(sa) and np.isnan(sb))):
        return f"score {sa} vs {sb}"
    return None


# ------------------------------------------------------------------------------ frequencies

DISCRETE = ["flip", "bernoulli", "categorical"]


def _supports(node):
    """[(path, values)] for every potential site (all discrete)."""
    out = []
    for s in node.sites():
        d = s.dist
        if d.name == "flip":
            vals = [False, True]
        elif d.name == "bernoulli":
            vals = [0, 1]
        elif d.name == "categorical":
            vals = list(range(d.veclen))
        else:
            return None
        for p, _ in s.paths():
            out.append((p, vals))
    return out


def _enumerate(case, args, max_outcomes=64):
    """Exact probabilities of all complete assignments: {outcome tuple over live paths: prob}."""
    node = case.node
    sup = _supports(node)
    if sup is None:
        return None
    uniq = {}
    for p, v in sup:
        uniq.setdefault(p, v)
    paths = sorted(uniq, key=repr)
    if not paths:
        return None
    total = 1
    for p in paths:
        total *= len(uniq[p])
        if total > 4096:
            return None
    rargs = build.strip_py(args)
    table = {}
    for combo in itertools.product(*[uniq[p] for p in paths]):
        assign = dict(zip(paths, combo))
        env = ast.RefEnv(assign)
        try:
            node.ref(env, (), rargs)
        except ast.MissingChoice:
            continue
        live = tuple(sorted(env.terms, key=repr))
        okey = tuple((p, int(assign[p])) for p in live)
        if okey in table:
            continue
        table[okey] = math.exp(env.score())
    if not table or len(table) > max_outcomes:
        return None
    z = sum(table.values())
    if abs(z - 1.0) > 1e-6:
        raise RuntimeError(f"reference enumeration does not sum to 1: {z}")
    return paths, table


def frequencies(ctx, n, budget):
    import jax
    import jax.numpy as jnp
    from scipy import stats

    t0 = ctx.elapsed()
    N1 = ctx.pick(3000, 20000)
    for ci in ctx.my_share(n):
        if ctx.elapsed() - t0 > budget:
            ctx.note(f"frequencies: time budget reached at case {ci}")
            break
        rng = ctx.child_rng(2, ci)
        depth = int(rng.choice([1, 2]))
        cfg = gen.Cfg(depth=depth, dists=DISCRETE, vector_dists=False, sizes=(1, 2, 2, 3), max_stmts=2,
                      kinds=["Dist", "Static", "Vmap", "Repeat", "Scan", "Iterate", "IterateFinal", "Switch", "OrElse", "Mix", "Mask", "Dimap", "Accumulate", "Reduce"])
        node = gen.gen_program(rng, cfg)
        args = gen.gen_args(rng, node, concrete_flags=0.0)
        try:
            case = engine.Case(node, f"C04/freq/s{ctx.seed}/sh{ctx.shard}/{ci}")
            en = _enumerate(case, args)
        except ast.Fragile:
            ctx.count("discarded:fragile")
            continue
        except Exception as e:
            ctx.reject("build:" + common.exc_mechanism(e))
            continue
        if en is None:
            ctx.count("freq_skipped_not_enumerable")
            continue
        paths, table = en
        if len(table) < 2:
            ctx.count("freq_skipped_single_outcome")
            continue
        ra = build.to_real(build.strip_py(args))

        def sample_counts(N, stream):
            keys = jax.random.split(jax.random.key((ctx.seed * 104729 + ci * 31 + stream * 977) % (2**30)), N)
            trs = jax.jit(jax.vmap(case.gf.simulate, in_axes=(0, None)))(keys, ra)
            chm = trs.get_choices()
            cols = {}
            valid = {}
            for s in node.sites():
                present, val, flag = obs.lookup_static(chm, s.static_path)
                if not present:
                    continue
                val = np.asarray(val)
                fl = np.ones(val.shape, bool) if flag is None else np.broadcast_to(np.asarray(flag).reshape(np.asarray(flag).shape + (1,) * (val.ndim - np.asarray(flag).ndim)), val.shape)
                for p, idx in s.paths():
                    sl = (slice(None),) + tuple(idx)
                    cols[p] = val[sl].astype(np.int64)
                    valid[p] = fl[sl].astype(bool)
            counts = {}
            ps = sorted(cols, key=repr)
            mat = np.stack([cols[p] for p in ps], axis=1) if ps else np.zeros((N, 0), int)
            vm = np.stack([valid[p] for p in ps], axis=1) if ps else np.zeros((N, 0), bool)
            for r in range(N):
                okey = tuple((p, int(mat[r, j])) for j, p in enumerate(ps) if vm[r, j])
                counts[okey] = counts.get(okey, 0) + 1
            return counts

        def gtest(counts, N):
            keys = list(table)
            exp = np.array([table[k] * N for k in keys])
            obsv = np.array([counts.get(k, 0) for k in keys], dtype=float)
            unknown = sum(v for k, v in counts.items() if k not in table)
            # pool small cells
            order = np.argsort(exp)
            pe, po = [], []
            ce = co = 0.0
            for i in order:
                ce += exp[i]
                co += obsv[i]
                if ce >= 8:
                    pe.append(ce)
                    po.append(co)
                    ce = co = 0.0
            if ce > 0:
                if pe:
                    pe[-1] += ce
                    po[-1] += co
                else:
                    pe.append(ce)
                    po.append(co)
            pe, po = np.array(pe), np.array(po)
            if len(pe) < 2:
                return None, unknown
            with np.errstate(divide="ignore", invalid="ignore"):
                g = 2.0 * np.sum(np.where(po > 0, po * np.log(po / pe), 0.0))
            p = float(stats.chi2.sf(g, len(pe) - 1))
            return p, unknown

        try:
            c1 = sample_counts(N1, 0)
        except Exception as e:
            ctx.reject("vmap-simulate:" + common.exc_mechanism(e))
            continue
        p1, unk = gtest(c1, N1)
        ctx.count("freq_cells")
        ctx.count("freq_samples", N1)
        nt = len(paths) >= 2 and any(k not in ("Dist", "Static") for k in case.kinds)
        ctx.evaluation(fingerprint=("freq", node.shape_sig()), nontrivial=nt)
        if unk:
            bad = next(k for k in c1 if k not in table)
            ctx.violation(f"C04|op=simulate|on={node.kind}|field=impossible-outcome|cond=discrete", case=case.cid, detail=f"{unk} of {N1} simulations produced an assignment of probability 0 under the program, e.g. {bad}", program=case.src, args=_drive._short(args))
            continue
        if p1 is None:
            ctx.count("freq_skipped_small")
            continue
        if p1 < 1e-6:
            ctx.count("freq_stage2")
            c2 = sample_counts(8 * N1, 1)
            p2, unk2 = gtest(c2, 8 * N1)
            if p2 is not None and p2 < 1e-9:
                worst = max(table, key=lambda k: abs(c2.get(k, 0) / (8 * N1) - table[k]))
                ctx.violation(
                    f"C04|op=simulate|on={node.kind}|field=joint-frequency|cond=discrete",
                    case=case.cid,
                    detail=f"joint frequencies differ from the exact probabilities: stage1 p={p1:.2e} (N={N1}), stage2 p={p2:.2e} (N={8*N1}); e.g. outcome {worst}: freq {c2.get(worst,0)/(8*N1):.4f} vs prob {table[worst]:.4f}",
                    program=case.src, args=_drive._short(args),
                )
            elif p2 is not None and p2 < 1e-3:
                ctx.count("freq_grey")
        ctx.sample({"monitor": "frequencies", "case": case.cid, "program": case.src, "outcomes": len(table), "N": N1, "p": p1}, limit=1)
    if ctx.counters.get("freq_grey", 0):
        ctx.note("statistical grey band hit: run is inconclusive for those cells")
