"""Shared driver for the engine-based properties: generate program -> history of GFI
operations -> route the engine's issues to the property's violations."""

from __future__ import annotations

import json
import os
import time
import traceback

import numpy as np

from vf import common, engine
from vf.engine import Discard, Issue, Rejected
from vf.prog import ast, build, gen, obs

HERE = os.path.dirname(os.path.abspath(__file__))

with open(os.path.join(os.path.dirname(HERE), "rejections_allowed.json")) as _f:
    _ALLOWED = json.load(_f)["allowed"]


def _pick_form(rng, vals):
    """Constraint spelling: per-index entries or index arrays; a constraint that covers one site
    at several indices is mostly written as one index-array entry."""
    pats = {tuple(c for c in p if isinstance(c, str)) for p in vals}
    if len(vals) > 1 and len(pats) == 1:
        return "array" if rng.random() < 0.8 else "scalar"
    return str(rng.choice(["scalar", "array"]))


def rejection_allowed(op, mech):
    parts = op.split(":")
    for e in _ALLOWED:
        if e["mechanism"] == mech and (e.get("op") in (None, "*", op) or e.get("op") in parts):
            return True
    return False


def kinds_path(node, depth=3):
    """Outermost→inner construct classes along the first non-leaf spine."""
    out = [node.kind]
    n = node
    for _ in range(depth - 1):
        nxt = next((c for c in n.children if c.kind != "Dist"), None)
        if nxt is None:
            break
        out.append(nxt.kind)
        n = nxt
    return ">".join(out)


class Plan:
    """What a property check does with each case."""

    def __init__(
        self,
        prop,
        cfg_fn,
        clauses,
        ops,
        n_cases,
        n_ops,
        nontrivial=None,
        start=("simulate", "importance"),
        always=("assess_self",),
        cond_fn=None,
        extra_ops=None,
        exc_is_violation=True,
        fingerprint=None,
    ):
        self.prop = prop
        self.cfg_fn = cfg_fn  # (rng, ctx) -> gen.Cfg
        self.clauses = clauses  # set of issue clause names / prefixes that belong to this property
        self.ops = ops  # {op name: weight}
        self.n_cases = n_cases
        self.n_ops = n_ops
        self.nontrivial = nontrivial or (lambda case, hist: True)
        self.start = start
        self.always = always
        self.cond_fn = cond_fn
        self.extra_ops = extra_ops or {}
        self.exc_is_violation = exc_is_violation
        self.fingerprint = fingerprint


def mine(plan, issue: Issue):
    c = issue.clause
    for pat in plan.clauses:
        if c == pat or (pat.endswith("*") and c.startswith(pat[:-1])):
            return True
    return False


def run(ctx, plan: Plan):
    total = ctx.pick(*plan.n_cases)
    nops = ctx.pick(*plan.n_ops)
    budget = ctx.pick(*getattr(plan, "budget_s", (75, 420)))
    for ci in ctx.my_share(total):
        if ctx.elapsed() > budget:
            ctx.note(f"time budget reached after case {ci}")
            break
        rng = ctx.child_rng(ci)
        try:
            run_case(ctx, plan, rng, ci, nops)
        except Discard as d:
            ctx.count("discarded:" + d.why.split(":")[0])
        except Exception as e:  # a bug in our own machinery must not look like "held"
            ctx.count("harness_errors")
            ctx.note(f"harness error case {ci}: {type(e).__name__}: {e} :: {traceback.format_exc()[-600:]}")


def emit(ctx, plan, case, hist, op, issue: Issue, extra=None):
    cond = issue.cond
    if plan.cond_fn is not None:
        cond = plan.cond_fn(case, hist, op, issue) or cond
    sig = f"{plan.prop}|op={op}|on={case.node.kind}|field={issue.clause}|cond={cond or 'any'}"
    if getattr(plan, "sig_fn", None) is not None:
        sig = plan.sig_fn(case, hist, op, issue, sig) or sig
    ctx.violation(
        sig,
        case=case.cid,
        detail=issue.detail,
        program=case.src,
        construct_path=kinds_path(case.node),
        history=[h for h in hist][-12:],
        **(extra or {}),
    )


def run_case(ctx, plan, rng, ci, nops):
    cfg = plan.cfg_fn(rng, ctx)
    node = gen.gen_program(rng, cfg)
    args = gen.gen_args(rng, node)
    cid = f"{plan.prop}/s{ctx.seed}/sh{ctx.shard}/{ci}"
    try:
        case = engine.Case(node, cid)
    except Exception as e:
        ctx.reject("build:" + common.exc_mechanism(e))
        return
    hist = []
    kbase = (ctx.seed * 1000003 + ci * 101) % (2**30)
    kc = [kbase]

    def nk():
        kc[0] += 1
        return kc[0]

    def route(op, issues, extra=None):
        for iss in issues:
            ctx.count("issues_seen:" + iss.clause)
            if mine(plan, iss):
                emit(ctx, plan, case, hist, op, iss, extra)

    def guarded(op, fn):
        """Run an operation; library exceptions are rejections (allow-listed) or violations."""
        try:
            return fn()
        except Rejected as r:
            if rejection_allowed(op, r.mech):
                ctx.reject(f"{op}:{r.mech}")
                return None
            ctx.count("unexpected_exceptions")
            if plan.exc_is_violation:
                emit(ctx, plan, case, hist, op, Issue("raises", f"{op} raised {r.mech}: {str(r.exc)[:160]}", r.mech))
            return None

    # ---- start
    start = str(rng.choice(list(plan.start)))
    rec = None
    if start == "simulate":
        # (only when every argument is an array: a Python flag / index closed over by jit comes
        # back as an array in trace.get_args(), i.e. a different trace than the one judged)
        jit_start = rng.random() < 0.25 and not any(isinstance(a, build.PyVal) for a in args)
        hist.append(f"simulate args={_short(args)}" + (" [under jax.jit]" if jit_start else ""))
        if jit_start:
            ctx.count("traces:simulate-under-jit")
        out = guarded("simulate", lambda: engine.op_simulate(case, nk(), args, jit=jit_start))
        if out is None:
            return
        rec, issues = out
        route("simulate", issues)
    else:
        vals = engine.gen_constraint(rng, case, None, args, only_live=False)
        form = _pick_form(rng, vals)
        hist.append(f"importance constraint={_short(vals)} form={form} args={_short(args)}")
        out = guarded("importance", lambda: engine.op_importance(case, nk(), vals, args, form=form))
        if out is None:
            return
        rec, w, issues = out
        route("importance", issues)
    if rec is None:
        ctx.evaluation()
        return
    ctx.count("traces:" + start)
    if "assess_self" in plan.always:
        iss = []
        engine.check_assess_self(rec, iss, what=start)
        route(start, iss)
        ctx.count("assess_self_checks")
    # ---- history
    names = list(plan.ops)
    weights = np.array([plan.ops[n] for n in names], dtype=float)
    nedit = 0
    budget = ctx.pick(*getattr(plan, "budget_s", (75, 420)))
    for step in range(nops):
        if not names:
            break
        if ctx.elapsed() > budget + 20:
            ctx.count("histories_cut_by_budget")
            break
        op = names[int(rng.choice(len(names), p=weights / weights.sum()))]
        handler = plan.extra_ops.get(op) or OPS.get(op)
        if handler is None:
            raise RuntimeError(f"unknown op {op}")
        res = handler(ctx, plan, case, rec, rng, nk, hist, route, guarded)
        if res is not None:
            rec = res
            nedit += 1
            if "assess_self" in plan.always:
                iss = []
                engine.check_assess_self(rec, iss, what=op)
                route(op, iss)
                ctx.count("assess_self_checks")
        ctx.count("ops:" + op)
    nt = plan.nontrivial(case, hist)
    fp = plan.fingerprint(case, hist) if plan.fingerprint else (case.node.shape_sig(), tuple(h.split(" ")[0] for h in hist))
    ctx.evaluation(fingerprint=fp, nontrivial=nt)
    ctx.count("kinds:" + case.node.kind)
    ctx.sample({"case": cid, "program": case.src, "history": hist[:10]}, limit=2)


def _short(x, n=200):
    s = repr(x)
    s = s.replace("array(", "").replace(", dtype=int32)", "").replace(", dtype=float32)", "")
    return s if len(s) <= n else s[: n - 1] + "…"


# ---------------------------------------------------------------------------- op handlers
# signature: (ctx, plan, case, rec, rng, nk, hist, route, guarded) -> new rec or None


def h_update(ctx, plan, case, rec, rng, nk, hist, route, guarded, bwd=True):
    change_args = rng.random() < 0.5
    new_args = gen.perturb_args(rng, case.node, rec.args) if change_args else None
    tags = None
    if not change_args:
        tags = "nochange" if rng.random() < 0.6 else None
    vals = engine.gen_constraint(rng, case, rec, rec.args)
    form = _pick_form(rng, vals)
    hist.append(f"update constraint={_short(vals)} form={form} new_args={_short(new_args)} tags={tags}")
    out = guarded("update", lambda: engine.op_update(case, rec, nk(), vals, new_args, tags, form=form))
    if out is None:
        return None
    new, w, rd, bwd_req, issues = out
    route("update", issues)
    if new is None:
        return None
    iss = []
    engine.check_retdiff(rec, new, rd, iss, what="update")
    route("update", iss)
    ctx.count("retdiff_checks")
    if bwd and "bwd" in plan.always:
        _apply_bwd(ctx, plan, case, rec, new, nk, hist, route, bwd_req, w, "update")
    return new


def _apply_bwd(ctx, plan, case, rec, new, nk, hist, route, bwd_req, w, op):
    hist.append(f"apply-backward({type(bwd_req).__name__}) after {op}")
    back, issues = engine.op_apply_bwd(case, rec, new, nk(), bwd_req, w)
    route("bwd:" + op, issues)
    ctx.count("bwd_checks")


def h_regenerate(ctx, plan, case, rec, rng, nk, hist, route, guarded):
    term = obs.gen_selection(rng, case.node, depth=int(rng.integers(0, 3)))
    # a regenerate may come with changed arguments (a parent call site whose inputs moved)
    change_args = rng.random() < 0.3
    new_args = gen.perturb_args(rng, case.node, rec.args) if change_args else None
    hist.append(f"regenerate sel={term}" + (f" new_args={_short(new_args)} tags=None" if change_args else ""))
    if change_args:
        ctx.count("regenerate_with_changed_args")
    out = guarded("regenerate", lambda: engine.op_regenerate(case, rec, nk(), term, new_args=new_args, tags=None if change_args else "nochange"))
    if out is None:
        return None
    new, w, rd, bwd, issues = out
    if new is not None:
        selected = [p for p in rec.live() if obs.sel_contains(term, obs.static_of(p))]
        if change_args:
            pass
        elif not selected:
            d = engine.same_trace(new, rec)
            if d:
                issues.append(Issue("regen.identity", f"empty selection, unchanged arguments, but the trace changed: {d}"))
            # (a trace of zero density - an unselected choice left outside its support by an
            # earlier argument change - has score -inf; score differences are then undefined)
            if np.isfinite(rec.score) and not common.close(w, 0.0):
                issues.append(Issue("regen.identity", f"empty selection, unchanged arguments, weight {w}"))
            ctx.count("regen_identity_checks")
        else:
            ctx.count("regen_nonempty")
            if new.changed:
                ctx.count("regen_changed_something")
    route("regenerate", issues)
    if new is None:
        return None
    iss = []
    engine.check_retdiff(rec, new, rd, iss, what="regenerate")
    route("regenerate", iss)
    ctx.count("retdiff_checks")
    if "bwd" in plan.always:
        _apply_bwd(ctx, plan, case, rec, new, nk, hist, route, bwd, w, "regenerate")
    new.sel_term = term
    return new


def h_project(ctx, plan, case, rec, rng, nk, hist, route, guarded):
    term = obs.gen_selection(rng, case.node, depth=int(rng.integers(0, 3)))
    hist.append(f"project sel={term}")
    out = guarded("project", lambda: engine.op_project(case, rec, nk(), term))
    if out is None:
        return None
    w, exp, issues = out
    route("project", issues)
    ctx.count("project_checks")
    return None


OPS = {
    "update": h_update,
    "regenerate": h_regenerate,
    "project": h_project,
}


# ---------------------------------------------------------------------------- more handlers


def _index_levels(node):
    """Size of the top index level if the root is a vector combinator, else None."""
    from vf.prog import ast as A

    if isinstance(node, (A.Vmap, A.Repeat, A.Scan, A.Accumulate, A.Iterate, A.MaskedIterateFinal)):
        return node.n
    return None


def h_index_edit(ctx, plan, case, rec, rng, nk, hist, route, guarded):
    """edit(IndexRequest(i, Update|Regenerate)) on a vector-combinator root."""
    import jax.numpy as jnp
    from genjax import IndexRequest, Regenerate, Update

    n = _index_levels(case.node)
    if not n:
        return None
    i = int(rng.choice([0, n // 2, n - 1, n - 1]))
    pos = "first" if i == 0 and n > 1 else ("last" if i == n - 1 else "middle")
    if n == 1:
        pos = "only"
    live_i = [p for p in rec.live() if p and p[0] == i]
    use_regen = rng.random() < 0.35
    idx = jnp.asarray(i, dtype=jnp.int32) if rng.random() < 0.7 else i
    if use_regen:
        term = obs.gen_selection(rng, case.node, depth=1)
        req = IndexRequest(jnp.asarray(i, dtype=jnp.int32), Regenerate(obs.build_selection(term)))
        hist.append(f"index_edit i={i}({pos}) Regenerate sel={term}")
        out = guarded(
            "index_edit:regenerate",
            lambda: engine.op_request(case, rec, nk(), req, {}, lambda p: bool(p) and p[0] == i and obs.sel_contains(term, obs.static_of(p)), what=f"IndexRequest[{pos}]/Regenerate"),
        )
        opname = "index_edit:regenerate"
    else:
        sub = engine.gen_constraint(rng, case, rec, rec.args, paths=set(live_i))
        subc = obs.build_constraint({p[1:]: v for p, v in sub.items()})
        req = IndexRequest(idx if not isinstance(idx, int) else jnp.asarray(idx, dtype=jnp.int32), Update(subc))
        hist.append(f"index_edit i={i}({pos}) Update constraint={_short(sub)}")
        out = guarded(
            "index_edit:update",
            lambda: engine.op_request(case, rec, nk(), req, sub, lambda p: False, what=f"IndexRequest[{pos}]/Update"),
        )
        opname = "index_edit:update"
    if out is None:
        return None
    new, w, rd, bwd, issues = out
    for iss in issues:
        iss.cond = (iss.cond + "," if iss.cond else "") + f"idx={pos}"
    route(opname, issues)
    if new is None:
        return None
    iss = []
    engine.check_retdiff(rec, new, rd, iss, what=opname)
    for x in iss:
        x.cond = f"idx={pos}"
    route(opname, iss)
    ctx.count("retdiff_checks")
    if "bwd" in plan.always:
        _apply_bwd(ctx, plan, case, rec, new, nk, hist, route, bwd, w, opname)
    return new


def h_static_request(ctx, plan, case, rec, rng, nk, hist, route, guarded):
    """edit(StaticRequest{addr: Update|Regenerate|EmptyRequest}) on a static-function root."""
    from genjax import EmptyRequest, Regenerate, StaticRequest, Update
    from vf.prog import ast as A

    node = case.node
    if not isinstance(node, A.Static) or not node.stmts:
        return None
    addressed = {}
    constrained = {}
    regen = []  # (prefix, term)
    desc = []
    for s in node.stmts:
        r = rng.random()
        comps = A.addr_components(s.addr)
        if r < 0.35:
            continue  # not addressed: must behave as EmptyRequest
        if r < 0.45:
            addressed[s.addr] = EmptyRequest()
            desc.append(f"{s.addr!r}:Empty")
        elif r < 0.8:
            under = {p for p in rec.live() if p[: len(comps)] == comps}
            sub = engine.gen_constraint(rng, case, rec, rec.args, paths=under, frac=float(rng.choice([0.5, 1.0])))
            addressed[s.addr] = Update(obs.build_constraint({p[len(comps):]: v for p, v in sub.items()}))
            constrained.update(sub)
            desc.append(f"{s.addr!r}:Update{_short(sub, 80)}")
        else:
            term = obs.gen_selection(rng, s.callee, depth=1)
            addressed[s.addr] = Regenerate(obs.build_selection(term))
            regen.append((comps, term))
            desc.append(f"{s.addr!r}:Regenerate{term}")

    def may_change(p):
        for comps, term in regen:
            if p[: len(comps)] == comps and obs.sel_contains(term, obs.static_of(p[len(comps):])):
                return True
        return False

    hist.append("static_request {" + ", ".join(desc) + "}")
    out = guarded("static_request", lambda: engine.op_request(case, rec, nk(), StaticRequest(addressed), constrained, may_change, what="StaticRequest"))
    if out is None:
        return None
    new, w, rd, bwd, issues = out
    route("static_request", issues)
    if new is None:
        return None
    iss = []
    engine.check_retdiff(rec, new, rd, iss, what="static_request")
    route("static_request", iss)
    ctx.count("retdiff_checks")
    if "bwd" in plan.always:
        _apply_bwd(ctx, plan, case, rec, new, nk, hist, route, bwd, w, "static_request")
    return new


def h_assess_ref(ctx, plan, case, rec, rng, nk, hist, route, guarded):
    """assess on values drawn by the reference sampler (not only what simulate produced)."""
    if engine.overlapping_sites(case.node):
        ctx.count("assess_ref_skipped_overlap")
        return None
    args = rec.args if rng.random() < 0.5 else gen.perturb_args(rng, case.node, rec.args)
    vals, _ = engine.ref_forward_sample(rng, case, args)
    hist.append(f"assess values={_short(vals)} args={_short(args)}")
    out = guarded("assess", lambda: engine.op_assess(case, nk(), vals, args))
    if out is None:
        return None
    env, issues = out
    route("assess", issues)
    ctx.count("assess_ref_checks")
    return None


def h_project_ids(ctx, plan, case, rec, rng, nk, hist, route, guarded):
    """project(all)=score, project(none)=0, project(S)+project(~S)=score — on the real values."""
    term = obs.gen_selection(rng, case.node, depth=int(rng.integers(0, 3)))
    hist.append(f"project identities sel={term}")

    def go():
        issues = []
        wa, _, i1 = engine.op_project(case, rec, nk(), ("all",))
        wn, _, i2 = engine.op_project(case, rec, nk(), ("none",))
        ws, _, i3 = engine.op_project(case, rec, nk(), term)
        wc, _, i4 = engine.op_project(case, rec, nk(), ("not", term))
        issues += i1 + i2 + i3 + i4
        n = max(1, len(rec.assign))
        if np.isfinite(rec.score):
            if not common.close(wa, rec.score, terms=n):
                issues.append(Issue("proj.all", f"project(all)={wa} vs score {rec.score}"))
            if not common.close(wn, 0.0, terms=1):
                issues.append(Issue("proj.none", f"project(none)={wn}"))
            if not common.close(ws + wc, rec.score, terms=n):
                issues.append(Issue("proj.split", f"project(S)+project(~S)={ws}+{wc} vs score {rec.score}"))
        return issues

    out = guarded("project", go)
    if out is None:
        return None
    route("project", out)
    ctx.count("project_checks", 4)
    return None


def h_empty_request(ctx, plan, case, rec, rng, nk, hist, route, guarded):
    """EmptyRequest: identity with weight 0 under NoChange; Update(empty) under changed args."""
    from genjax import ChoiceMap, EmptyRequest, Update

    # a function without arguments has no argument that could change: EmptyRequest is the identity
    change = rng.random() < 0.5 and len(rec.args) > 0
    if not change:
        hist.append("empty_request nochange")
        out = guarded("empty_request", lambda: engine.op_edit(case, rec, nk(), EmptyRequest(), None, "nochange", what="EmptyRequest"))
        if out is None:
            return None
        new, w, rd, bwd, issues = out
        if new is not None:
            d = engine.same_trace(new, rec)
            if d:
                issues.append(Issue("derived.empty.identity", f"EmptyRequest with unchanged arguments changed the trace: {d}"))
            if not common.close(w, 0.0):
                issues.append(Issue("derived.empty.weight", f"EmptyRequest with unchanged arguments has weight {w}"))
        route("empty_request", issues)
        ctx.count("derived_checks")
        return None
    new_args = gen.perturb_args(rng, case.node, rec.args)
    hist.append(f"empty_request new_args={_short(new_args)}")
    k = nk()
    o1 = guarded("empty_request", lambda: engine.op_edit(case, rec, k, EmptyRequest(), new_args, None, what="EmptyRequest"))
    o2 = guarded("update", lambda: engine.op_edit(case, rec, k, Update(ChoiceMap.empty()), new_args, None, what="Update(empty)"))
    if o1 is None or o2 is None:
        return None
    n1, w1, _, _, i1 = o1
    n2, w2, _, _, i2 = o2
    issues = list(i1)
    if n1 is not None and n2 is not None:
        d = engine.same_trace(n1, n2)
        if d:
            issues.append(Issue("derived.empty.update", f"EmptyRequest under changed arguments differs from Update(empty): {d}"))
        if np.isfinite(w2) and not common.close(w1, w2, terms=max(1, len(n1.assign))):
            issues.append(Issue("derived.empty.update", f"weights {w1} vs {w2}"))
    route("empty_request", issues)
    ctx.count("derived_checks")
    return n1


def h_diff_annotate(ctx, plan, case, rec, rng, nk, hist, route, guarded):
    """DiffAnnotate(request) with identity maps equals the inner request (same key)."""
    from genjax import DiffAnnotate, Regenerate, Update

    if rng.random() < 0.6:
        vals = engine.gen_constraint(rng, case, rec, rec.args)
        mk = lambda: Update(obs.build_constraint(vals))  # noqa
        hist.append(f"diff_annotate Update {_short(vals)}")
    else:
        term = obs.gen_selection(rng, case.node, depth=1)
        mk = lambda: Regenerate(obs.build_selection(term))  # noqa
        hist.append(f"diff_annotate Regenerate {term}")
    k = nk()
    form = int(rng.integers(3))

    def wrap(r):
        if form == 0:
            return DiffAnnotate(r)
        if form == 1:
            return r.dimap(pre=lambda a: a, post=lambda rd: rd)
        return r.map(lambda rd: rd)

    o1 = guarded("diff_annotate", lambda: engine.op_edit(case, rec, k, wrap(mk()), None, "nochange", what="DiffAnnotate"))
    o2 = guarded("diff_annotate", lambda: engine.op_edit(case, rec, k, mk(), None, "nochange", what="inner request"))
    if o1 is None or o2 is None:
        return None
    n1, w1, _, _, i1 = o1
    n2, w2, _, _, i2 = o2
    issues = []
    if n1 is not None and n2 is not None:
        d = engine.same_trace(n1, n2)
        if d:
            issues.append(Issue("derived.annotate", f"DiffAnnotate(identity) differs from its inner request: {d}"))
        if np.isfinite(w2) and not common.close(w1, w2, terms=max(1, len(n1.assign))):
            issues.append(Issue("derived.annotate", f"weights {w1} vs {w2}"))
    route("diff_annotate", issues)
    ctx.count("derived_checks")
    return n2


def h_derived(ctx, plan, case, rec, rng, nk, hist, route, guarded):
    """propose == simulate; importance == generate; Trace.update/edit/project == gen fn methods."""
    from genjax import Diff, Update

    gf = case.gf
    args = rec.args
    ra = engine.real_args(args)
    k = engine.key(nk())
    which = int(rng.integers(4))
    issues = []

    def cmp_tr(ta, tb, what):
        ia, ib = [], []
        a = engine.observe(case, ta, args, ia, what=what)
        b = engine.observe(case, tb, args, ib, what=what)
        if a is None or b is None:
            return
        d = engine.same_trace(a, b)
        if d:
            issues.append(Issue("derived." + what, f"{what}: {d}"))

    try:
        if which == 0:
            hist.append("derived propose==simulate")
            tr = gf.simulate(k, ra)
            chm, score, ret = gf.propose(k, ra)
            ex = obs.valid_assignment(obs.extract(case.node, chm))
            r = engine.observe(case, tr, args, [], what="simulate")
            if r is not None:
                if set(ex) != set(r.assign) or any(not engine._same_value(ex[p], r.assign[p]) for p in ex):
                    issues.append(Issue("derived.propose", "propose choices differ from simulate's under the same key"))
                if np.isfinite(r.score) and not common.close(float(np.asarray(score)), r.score, terms=max(1, len(ex))):
                    issues.append(Issue("derived.propose", f"propose score {float(np.asarray(score))} vs simulate {r.score}"))
                from vf.prog import build as B, tree as T

                d = T.tcompare(B.from_real(ret), r.ret, common.close)
                if d and not engine._unspecified_ret(case.node):
                    issues.append(Issue("derived.propose", f"propose retval: {d}"))
        elif which == 1:
            vals = engine.gen_constraint(rng, case, rec, args)
            hist.append(f"derived importance==generate {_short(vals)}")
            chm = obs.build_constraint(vals)
            t1, w1 = gf.importance(k, chm, ra)
            t2, w2 = gf.generate(k, chm, ra)
            cmp_tr(t1, t2, "importance")
            if np.isfinite(float(np.asarray(w2))) and not common.close(float(np.asarray(w1)), float(np.asarray(w2)), terms=max(1, len(vals))):
                issues.append(Issue("derived.importance", f"weights {w1} vs {w2}"))
        elif which == 2:
            vals = engine.gen_constraint(rng, case, rec, args)
            hist.append(f"derived Trace.update==gen_fn.update==edit(Update) {_short(vals)}")
            chm = obs.build_constraint(vals)
            ad = Diff.no_change(ra)
            t1, w1, _, d1 = rec.tr.update(k, chm, ad)
            t2, w2, _, d2 = gf.update(k, rec.tr, chm, ad)
            t3, w3, _, b3 = gf.edit(k, rec.tr, Update(chm), ad)
            t4, w4, _, d4 = rec.tr.update(k, chm)  # default argdiffs = no change
            cmp_tr(t1, t2, "update")
            cmp_tr(t1, t3, "update")
            cmp_tr(t1, t4, "update")
            ws = [float(np.asarray(x)) for x in (w1, w2, w3, w4)]
            if np.isfinite(ws[0]) and not all(common.close(ws[0], x, terms=max(1, len(rec.assign))) for x in ws[1:]):
                issues.append(Issue("derived.update", f"weights differ across update/edit forms: {ws}"))
        else:
            term = obs.gen_selection(rng, case.node, depth=1)
            hist.append(f"derived Trace.project==gen_fn.project {term}")
            sel = obs.build_selection(term)
            w1 = float(np.asarray(rec.tr.project(k, sel)))
            w2 = float(np.asarray(gf.project(k, rec.tr, sel)))
            if np.isfinite(w2) and not common.close(w1, w2):
                issues.append(Issue("derived.project", f"{w1} vs {w2}"))
    except Exception as e:
        mech = common.exc_mechanism(e)
        op = ["simulate", "importance", "update", "project"][which]
        if rejection_allowed(op, mech) or rejection_allowed("regenerate", mech):
            ctx.reject(f"derived:{mech}")
            return None
        issues.append(Issue("derived.raises", f"raised {mech}: {str(e)[:120]}", mech))
    route("derived", issues)
    ctx.count("derived_checks")
    return None


OPS.update(
    {
        "index_edit": h_index_edit,
        "static_request": h_static_request,
        "assess_ref": h_assess_ref,
        "project_ids": h_project_ids,
        "empty_request": h_empty_request,
        "diff_annotate": h_diff_annotate,
        "derived": h_derived,
    }
)


def h_interference(ctx, plan, case, rec, rng, nk, hist, route, guarded):
    """C11: two importance runs with the same key that differ only by a constraint at index i
    must agree at every other element (elements are independent given the key)."""
    n = _index_levels(case.node)
    if not n or n < 2:
        return None
    i = int(rng.integers(n))
    sites = []
    for s in case.node.sites():
        for p, _ in s.paths():
            if p and p[0] == i:
                sites.append((p, s.dist))
    if not sites:
        return None
    base = engine.gen_constraint(rng, case, None, rec.args, only_live=False, frac=0.3)
    base = {p: v for p, v in base.items() if p[0] != i}
    extra = {}
    for p, d in sites:
        if rng.random() < 0.6 and not any(q[: len(p)] == p or p[: len(q)] == q for q in list(extra) + list(base)):
            extra[p] = engine.sample_site_value(rng, d)
    if not extra:
        return None
    k = nk()
    hist.append(f"interference i={i} base={_short(base, 80)} extra={_short(extra, 80)}")
    o1 = guarded("importance", lambda: engine.op_importance(case, k, base, rec.args))
    both = dict(base)
    both.update(extra)
    o2 = guarded("importance", lambda: engine.op_importance(case, k, both, rec.args))
    if o1 is None or o2 is None:
        return None
    r1, w1, i1 = o1
    r2, w2, i2 = o2
    issues = list(i1) + list(i2)
    if r1 is not None and r2 is not None:
        for p in sorted(set(r1.assign) & set(r2.assign), key=repr):
            if p[0] != i and not engine._same_value(r1.assign[p], r2.assign[p]):
                issues.append(Issue("vmap.interference", f"constraint at index {i} changed element {p[0]}: {p} {engine._d(r1.assign[p])} -> {engine._d(r2.assign[p])}"))
                break
    route("interference", issues)
    ctx.count("interference_checks")
    return None


OPS["interference"] = h_interference
