"""C07 — Regenerate resamples exactly the selected choices.

Unselected choices keep their (unique) values; weight = new score - old score (library
convention); the empty selection with unchanged arguments returns the same trace with weight 0.
The distribution clause (selected choices redrawn from their prior given current parents) is
checked by vf/props/c07.py's statistical cells on discrete programs."""

from vf.prog import gen
from vf.props import _drive

A = "genjax._src.generative_functions"
CONFIG = {
    "level": "exploration",
    "shards": {"quick": 16, "thorough": 16},
    "timeout_s": {"quick": 900, "thorough": 5400},
    "rule": 'case = generated program from constructs that support Regenerate (distributions, static functions, scan family, dimap) + trace + regenerate edits with selections none/all/leaf/prefix/wildcard/complement/union (fresh key per op). non-trivial: the selection is a proper non-empty subset reaching a nested address and at least one value changed; distinct by (AST shape, selection-term shape).',
    "reach_anchors": ['genjax._src.generative_functions.static:RegenerateRequestHandler.handle_trace', 'genjax._src.generative_functions.distributions.distribution:Distribution.edit_regenerate', 'genjax._src.generative_functions.combinators.scan:Scan.edit_regenerate'],
    "reach_required": ['genjax._src.generative_functions.static:RegenerateRequestHandler.handle_trace', 'genjax._src.generative_functions.distributions.distribution:Distribution.edit_regenerate', 'genjax._src.generative_functions.combinators.scan:Scan.edit_regenerate'],
    "counters_required": ['ops:regenerate', 'regen_identity_checks', 'regen_changed_something'],
    "assumptions": [
        "reference interpreter vf/prog/ast.py transcribes the documented combinator semantics; scipy float64 densities",
        "float32 tolerance 2e-4 (relative+absolute) scaled by sqrt(#terms)",
        "programs from the bounded grammar (depth<=2 quick, <=3 thorough; sizes<=3/5); values read through public choice-map lookups",
    ],
}

KINDS = ["Dist", "Static", "Scan", "Accumulate", "Reduce", "Iterate", "IterateFinal", "Dimap"]


def cfg_fn(rng, ctx):
    depth = int(rng.choice([1, 2, 2])) if ctx.quick() else int(rng.choice([1, 2, 2, 3]))
    return gen.Cfg(depth=depth, kinds=KINDS, root="Static" if rng.random() < 0.4 else None, literal_ret=0.2)


def nontrivial(case, hist):
    return any(h.startswith("regenerate") and "('at'" in h for h in hist)


PLAN = _drive.Plan(
    "C07", cfg_fn,
    clauses={"regen.*"},
    ops={"regenerate": 1},
    n_cases=(400, 3000), n_ops=(3, 8), nontrivial=nontrivial,
    always=(),
    exc_is_violation=True,
)



def run(ctx):
    _drive.run(ctx, PLAN)
