"""C19 — Mask algebra matches its truth tables for concrete and traced flags.

Runtime monitors; the oracle is vf/ref/c19_mask.py (documented truth tables, elementwise, numpy).
Every operation ``|  ^  ~  build  flatten  maybe_mask  unmask(default)  unmask()  or_n  xor_n
__getitem__`` is run on the real ``Mask`` class for every flag combination under several flag
*representations* ("arms") and its observable (flag, value where the flag is True) is compared
with the reference; since all arms are compared with the same reference value, agreement of
concrete / traced / per-element evaluation follows (counted as crossrep_cells).

arms (scalar flags, one evaluation per flag combination)
  py          Python bools                      arr0       0-d jax arrays (eager)
  mixed-a/b   Python bool and 0-d array mixed   jit        flags and values traced under jax.jit
  jit-mixed   first flag a Python bool closed over, the rest traced
arms (vector flags: all combinations at once, leaves have the flag shape as prefix)
  vec         eager array flags of shape (n,)   vec-jit    the same under jax.jit
  vec2d       flags of shape (2, n/2)           vmap       jax.vmap of the scalar expression

value pytrees: scalar float / int / bool, vector, square vector, dict, nested tuple, Python
numbers.  thorough adds random pytrees / batch shapes / random flags.
"""

from __future__ import annotations

import itertools

import numpy as np

from vf import common
from vf.ref import c19_mask as R

FT = "genjax._src.core.generative.functional_types"
ST = "genjax._src.core.compiler.staging"
_ANCH = [
    f"{FT}:Mask.__or__", f"{FT}:Mask.__xor__", f"{FT}:Mask.__invert__", f"{FT}:Mask.build",
    f"{FT}:Mask.flatten", f"{FT}:Mask.maybe_mask", f"{FT}:Mask.unmask", f"{FT}:Mask._or_idx",
    f"{FT}:Mask.or_n", f"{FT}:Mask.xor_n", f"{FT}:Mask.__getitem__", f"{FT}:Mask.primal_flag",
    f"{ST}:FlagOp.and_", f"{ST}:FlagOp.not_", f"{ST}:FlagOp.xor_", f"{ST}:tree_choose",
    f"{ST}:FlagOp.concrete_true", f"{ST}:FlagOp.concrete_false",
]

CONFIG = {
    "level": "exploration",
    "shards": {"quick": 16, "thorough": 16},
    "timeout_s": {"quick": 600, "thorough": 3000},
    "rule": "table: every op in {or, xor, inv, build_raw, build_nested, maybe_raw, maybe_nested, flatten, unmask_default, "
    "unmask, or_n3, xor_n3, or_n4, xor_n4} x value kind {f32, i32, bool, vec3, sq4, dict, nest, py} (n-ary folds: a subset of kinds each) x every flag "
    "combination (2^n) x arm {py, arr0, mixed-a, mixed-b, jit, jit-mixed, vec, vec-jit, vec2d, vmap}; __getitem__ table over flag shapes "
    "(), (3,), (2,2) x paths x {py, arr0, jit, vec, vec-jit}; Diff-wrapped flags for ~ and []; random cases: random pytree "
    "(<=4 leaves, shapes (), (1,), (2,), (3,), (4,), (2,2), dtypes f32/i32/bool), random batch shape, random flags under "
    "{vec, jit(vmap), py, arr0}. One cell = one (op, kind, arm, flag combination / batch element). non-trivial: an array or "
    "traced flag, or a non-scalar value; distinct by (op, kind, arm, combination).",
    "reach_anchors": _ANCH,
    "reach_required": _ANCH,
    "counters_required": [
        "cells_py", "cells_arr0", "cells_mixed", "cells_jit", "cells_jit-mixed", "cells_vec", "cells_vec-jit",
        "cells_vec2d", "cells_vmap", "getitem_cells", "diff_cells", "random_cells", "crossrep_cells", "kind_checks",
    ],
    "assumptions": [
        "numpy elementwise where/logical ops as the truth-table reference",
        "jax.jit / jax.vmap themselves are trusted",
        "values are compared only where the resulting flag is True",
    ],
}

# ----------------------------------------------------------------------------- values


def is_leaf_spec(x):
    return isinstance(x, tuple) and len(x) == 2 and isinstance(x[1], str)


KINDS = {
    "f32": ((), "float32"),
    "i32": ((), "int32"),
    "bool": ((), "bool"),
    "vec3": ((3,), "float32"),
    "sq4": ((4,), "float32"),  # with 4 flag combinations the leaves are square: misaligned broadcasting is silent
    "dict": {"a": ((), "int32"), "b": ((2,), "float32")},
    "nest": ((((), "bool"), ((2,), "int32")), ((2, 2), "float32")),
}


def spec_map(f, spec):
    if is_leaf_spec(spec):
        return f(spec)
    if isinstance(spec, dict):
        return {k: spec_map(f, v) for k, v in spec.items()}
    return type(spec)(spec_map(f, v) for v in spec)


def spec_leaves(spec):
    if is_leaf_spec(spec):
        return [spec]
    vs = [spec[k] for k in sorted(spec)] if isinstance(spec, dict) else list(spec)
    out = []
    for v in vs:
        out.extend(spec_leaves(v))
    return out


def trailing(spec):
    return any(s[0] != () for s in spec_leaves(spec))


def make_value(spec, batch, slot):
    """numpy pytree, leaf shapes batch+shape, values unique per (slot, leaf, position)."""
    counter = [0]

    def mk(leaf):
        shape, dt = leaf
        li = counter[0]
        counter[0] += 1
        full = tuple(batch) + tuple(shape)
        n = int(np.prod(full)) if full else 1
        base = (slot + 1) * 100 + 7 * li
        if dt == "bool":
            bits = ((np.arange(n) + slot + li) % 2).astype(bool)
            return bits.reshape(full)
        sign = -1 if slot % 2 else 1
        arr = sign * (base + np.arange(n))
        if dt.startswith("float"):
            arr = arr + 0.25 * sign
        return arr.astype(dt).reshape(full)

    return spec_map(mk, spec)


def to_jnp(tree):
    import jax.numpy as jnp

    return R.tmap(lambda x: jnp.asarray(x), tree)


def to_np(tree):
    return R.tmap(lambda x: np.asarray(x), tree)


# ----------------------------------------------------------------------------- operations


def ops_table(Mask):
    RM = R.RMask
    T = {}
    T["or"] = (2, 2, lambda F, V: Mask(V[0], F[0]) | Mask(V[1], F[1]),
               lambda F, V: ("mask", R.r_or(RM(V[0], F[0]), RM(V[1], F[1]))))
    T["xor"] = (2, 2, lambda F, V: Mask(V[0], F[0]) ^ Mask(V[1], F[1]),
                lambda F, V: ("mask", R.r_xor(RM(V[0], F[0]), RM(V[1], F[1]))))
    T["inv"] = (1, 1, lambda F, V: ~Mask(V[0], F[0]), lambda F, V: ("mask", R.r_inv(RM(V[0], F[0]))))
    T["build_raw"] = (1, 1, lambda F, V: Mask.build(V[0], F[0]), lambda F, V: ("mask", R.r_build(V[0], F[0])))
    T["build_nested"] = (2, 1, lambda F, V: Mask.build(Mask(V[0], F[1]), F[0]),
                         lambda F, V: ("mask", R.r_build(RM(V[0], F[1]), F[0])))
    T["maybe_raw"] = (1, 1, lambda F, V: Mask.maybe_mask(V[0], F[0]), lambda F, V: ("mask", R.r_build(V[0], F[0])))
    T["maybe_nested"] = (2, 1, lambda F, V: Mask.maybe_mask(Mask(V[0], F[1]), F[0]),
                         lambda F, V: ("mask", R.r_build(RM(V[0], F[1]), F[0])))
    T["flatten"] = (1, 1, lambda F, V: Mask(V[0], F[0]).flatten(), lambda F, V: ("mask", RM(V[0], F[0])))
    T["unmask_default"] = (1, 2, lambda F, V: Mask(V[0], F[0]).unmask(V[1]),
                           lambda F, V: ("raw", R.r_unmask(RM(V[0], F[0]), V[1])))
    T["unmask"] = (1, 1, lambda F, V: Mask(V[0], F[0]).unmask(), lambda F, V: ("valid-where", RM(V[0], F[0])))
    for n in (3, 4):
        T[f"or_n{n}"] = (n, n, lambda F, V, n=n: Mask.or_n(*[Mask(V[i], F[i]) for i in range(n)]),
                         lambda F, V, n=n: ("mask", R.r_fold(R.r_or, [RM(V[i], F[i]) for i in range(n)])))
        T[f"xor_n{n}"] = (n, n, lambda F, V, n=n: Mask.xor_n(*[Mask(V[i], F[i]) for i in range(n)]),
                          lambda F, V, n=n: ("mask", R.r_fold(R.r_xor, [RM(V[i], F[i]) for i in range(n)])))
    return T


FLATTENING = ("flatten", "maybe_raw", "maybe_nested")
BROADCASTING = ("or", "xor", "unmask_default", "or_n3", "xor_n3", "or_n4", "xor_n4")


def observe(res, Mask):
    """-> (kind, flag ndarray | None, value tree of ndarrays | None)"""
    if res is None:
        return ("none", np.asarray(False), None)
    if isinstance(res, Mask):
        return ("mask", np.asarray(res.primal_flag()), to_np(res.value))
    return ("raw", None, to_np(res))


def agree(obs, exp_kind, exp):
    """Compare an observation with the reference.  Returns (ok, field, why)."""
    kind, oflag, oval = obs
    if exp_kind == "raw":
        if kind != "raw":
            return False, "kind", f"expected a raw value, got {kind}"
        return _values_agree(oval, exp, None)
    eflag = exp.flag
    if exp_kind == "valid-where":  # unmask(): value must be right wherever the flag was True
        if kind != "raw":
            return False, "kind", f"expected a raw value, got {kind}"
        return _values_agree(oval, exp.value, eflag)
    # expected a mask observable
    if kind == "none":
        if eflag.shape != () or bool(eflag):
            return False, "flag", f"result None but reference flag {eflag.tolist()}"
        return True, "", ""
    if kind == "raw":
        if eflag.shape != () or not bool(eflag):
            return False, "flag", f"result unwrapped (valid) but reference flag {eflag.tolist()}"
        return _values_agree(oval, exp.value, None)
    if oflag.dtype != np.bool_:
        return False, "flag", f"flag dtype {oflag.dtype}"
    if oflag.shape != eflag.shape:
        return False, "flag-shape", f"flag shape {oflag.shape} vs reference {eflag.shape}"
    if not np.array_equal(oflag, eflag):
        return False, "flag", f"flag {oflag.tolist()} vs reference {eflag.tolist()}"
    return _values_agree(oval, exp.value, eflag)


def _values_agree(oval, eval_, flag):
    try:
        ol, el = R.leaves(oval), R.leaves(eval_)
    except Exception as e:
        return False, "structure", f"cannot read result value: {e}"
    if len(ol) != len(el) or _shape_of(oval) != _shape_of(eval_):
        return False, "structure", f"value structure {_shape_of(oval)} vs reference {_shape_of(eval_)}"
    for i, (o, e) in enumerate(zip(ol, el)):
        o, e = np.asarray(o), np.asarray(e)
        if o.shape != e.shape:
            return False, "value-shape", f"leaf {i} shape {o.shape} vs reference {e.shape}"
        if flag is None:
            sel = np.ones(e.shape, dtype=bool)
        else:
            sel = np.broadcast_to(R.ex(flag, e), e.shape)
        if not np.array_equal(o.astype(np.float64)[sel], e.astype(np.float64)[sel]):
            return False, "value", f"leaf {i}: {o.tolist()} vs reference {e.tolist()} (valid where {None if flag is None else flag.tolist()})"
    return True, "", ""


def _shape_of(t):
    if isinstance(t, dict):
        return {k: _shape_of(v) for k, v in sorted(t.items())}
    if isinstance(t, (tuple, list)):
        return [_shape_of(v) for v in t]
    return "*"


# ----------------------------------------------------------------------------- bookkeeping


class Book:
    def __init__(self, ctx):
        self.ctx = ctx
        self.cells = {}

    def cell(self, op, kname, arm, combo, ok, field, why, known_cond=None, counter=None):
        ctx = self.ctx
        armc = "mixed" if arm.startswith("mixed-") else arm
        ctx.count(counter or f"cells_{armc}")
        scalar_kind = kname in ("f32", "i32", "bool", "py")
        ctx.evaluation(fingerprint=(op, kname, arm, combo), nontrivial=(arm != "py") or not scalar_kind)
        key = (op, kname, combo)
        st = self.cells.setdefault(key, [0, True])
        st[0] += 1
        st[1] = st[1] and ok
        if not ok:
            cond = known_cond or f"{arm},{'pytree' if not scalar_kind else 'scalar'}"
            ctx.violation(
                f"C19|op={op}|on=Mask|field={field}|cond={cond}",
                detail=f"{op} kind={kname} arm={arm} flags={combo}: {why}"[:600],
            )

    def raised(self, op, kname, arm, combo, e, known_cond=None, counter=None):
        ctx = self.ctx
        armc = "mixed" if arm.startswith("mixed-") else arm
        ctx.count(counter or f"cells_{armc}")
        key = (op, kname, combo)
        st = self.cells.setdefault(key, [0, True])
        st[1] = False
        cond = known_cond or f"{arm},{common.exc_mechanism(e)}"
        ctx.violation(
            f"C19|op={op}|on=Mask|field=raises|cond={cond}",
            detail=f"{op} kind={kname} arm={arm} flags={combo}: {type(e).__name__}: {e}"[:500],
        )

    def finish(self):
        n = sum(1 for k, (cnt, ok) in self.cells.items() if cnt >= 2 and ok)
        self.ctx.count("crossrep_cells", n)


def known_cond(op, arm, spec, batch):
    """Structural class of the cells hit by the vectorised-flag broadcasting defect (see notes/C19_findings.md)."""
    if op in BROADCASTING and arm in ("vec", "vec-jit", "vec2d") and len(batch) >= 1 and trailing(spec):
        return "vec-flag,leaf-trailing-dims"
    return None


# ----------------------------------------------------------------------------- the table


def run_task(ctx, book, Mask, T, op, kname):
    import jax
    import jax.numpy as jnp

    nf, nv, fn, ref = T[op]
    combos = list(itertools.product([False, True], repeat=nf))
    nb = len(combos)
    py_kind = kname == "py"
    spec = KINDS["f32"] if py_kind else KINDS[kname]

    # reference on the whole batch of combinations
    Fnp = [np.asarray([c[i] for c in combos]) for i in range(nf)]
    Vnp = [make_value(spec, (nb,), s) for s in range(nv)]
    ekind, ebatch = ref(Fnp, Vnp)

    def expected(ci):
        if ekind == "raw":
            return R.tmap(lambda x: np.asarray(x)[ci], ebatch)
        return R.element(ebatch, (ci,))

    def elem_values(ci, as_py=False):
        out = []
        for v in Vnp:
            e = R.tmap(lambda x: np.asarray(x)[ci], v)
            out.append(float(e) if as_py else to_jnp(e))
        return out

    def judge(arm, ci, res, kc=None):
        obs = observe(res, Mask)
        ok, field, why = agree(obs, ekind, expected(ci))
        book.cell(op, kname, arm, combos[ci], ok, field, why, kc)
        return obs

    # ---- scalar eager arms
    eager_arms = ["py", "arr0", "mixed-a", "mixed-b"] if nf >= 2 else ["py", "arr0"]
    for arm in eager_arms:
        for ci, c in enumerate(combos):
            if arm == "py":
                F = [bool(b) for b in c]
            elif arm == "arr0":
                F = [jnp.asarray(bool(b)) for b in c]
            elif arm == "mixed-a":
                F = [bool(b) if i % 2 == 0 else jnp.asarray(bool(b)) for i, b in enumerate(c)]
            else:
                F = [bool(b) if i % 2 == 1 else jnp.asarray(bool(b)) for i, b in enumerate(c)]
            try:
                res = fn(F, elem_values(ci, as_py=py_kind))
            except Exception as e:
                book.raised(op, kname, arm, c, e)
                continue
            obs = judge(arm, ci, res)
            if arm == "py" and op in FLATTENING:
                # documented: concretely False -> None, concretely True -> the raw value (not a Mask)
                want = "raw" if bool(expected(ci).flag) else "none"
                ctx.count("kind_checks")
                if obs[0] != want:
                    ctx.violation(f"C19|op={op}|on=Mask|field=kind|cond=py,concrete-flag",
                                  detail=f"{op} flags={c}: result kind {obs[0]}, documented {want}")
    if py_kind:
        return  # Python-number values only make sense eagerly

    # ---- jit (all flags and values traced): one compilation
    try:
        jf = jax.jit(lambda F, V: fn(F, V))
        for ci, c in enumerate(combos):
            try:
                res = jf([jnp.asarray(bool(b)) for b in c], elem_values(ci))
            except Exception as e:
                book.raised(op, kname, "jit", c, e)
                continue
            judge("jit", ci, res)
    except Exception as e:  # pragma: no cover
        book.raised(op, kname, "jit", "setup", e)

    # ---- jit-mixed: first flag a Python bool closed over, the rest traced
    for b0 in (False, True):
        jf = jax.jit(lambda Frest, V, b0=b0: fn([b0] + list(Frest), V))
        for ci, c in enumerate(combos):
            if c[0] != b0:
                continue
            try:
                res = jf([jnp.asarray(bool(b)) for b in c[1:]], elem_values(ci))
            except Exception as e:
                book.raised(op, kname, "jit-mixed", c, e)
                continue
            obs = judge("jit-mixed", ci, res)
            if nf == 1 and op in FLATTENING:
                want = "raw" if b0 else "none"
                ctx.count("kind_checks")
                if obs[0] != want:
                    ctx.violation(f"C19|op={op}|on=Mask|field=kind|cond=jit,concrete-flag",
                                  detail=f"{op} flag={b0} (Python bool inside jit): result kind {obs[0]}, documented {want}")

    # ---- vector arms: all combinations in one vectorised mask
    def batch_judge(arm, res, bshape, ek, eb, kc):
        obs = observe(res, Mask)
        ok, field, why = agree(obs, ek, eb)
        if ok or field in ("kind", "structure", "flag-shape", "value-shape"):
            # one verdict for all elements
            for ci, c in enumerate(combos):
                book.cell(op, kname, arm, c, ok, field, why, kc)
            return
        # element-wise verdicts
        kind_, oflag, oval = obs
        for ci, c in enumerate(combos):
            idx = np.unravel_index(ci, bshape) if len(bshape) > 1 else (ci,)
            try:
                o_el = (kind_, None if oflag is None else oflag[idx], R.tmap(lambda x: np.asarray(x)[idx], oval))
                ok1, f1, w1 = agree(o_el, ek, expected(ci))
            except Exception as e:
                ok1, f1, w1 = False, "structure", str(e)
            book.cell(op, kname, arm, c, ok1, f1, w1, kc)

    Fj = [jnp.asarray(f) for f in Fnp]
    Vj = [to_jnp(v) for v in Vnp]
    for arm in ("vec", "vec-jit", "vmap"):
        kc = known_cond(op, arm, spec, (nb,))
        try:
            if arm == "vec":
                res = fn(Fj, Vj)
            elif arm == "vec-jit":
                res = jax.jit(lambda F, V: fn(F, V))(Fj, Vj)
            else:
                res = jax.vmap(lambda F, V: fn(F, V))(Fj, Vj)
        except Exception as e:
            for c in combos:
                book.raised(op, kname, arm, c, e, kc)
            continue
        batch_judge(arm, res, (nb,), ekind, ebatch, kc)

    # ---- vec2d: the same elements arranged with a 2-d flag
    reps = 2 if nb == 2 else 1
    tot = nb * reps
    b2 = (2, tot // 2)
    F2 = [np.tile(f, reps).reshape(b2) for f in Fnp]
    V2 = [make_value(spec, b2, s) for s in range(nv)]
    ek2, eb2 = ref(F2, V2)
    kc = known_cond(op, "vec2d", spec, b2)
    try:
        res = fn([jnp.asarray(f) for f in F2], [to_jnp(v) for v in V2])
        obs = observe(res, Mask)
        ok, field, why = agree(obs, ek2, eb2)
        for ci in range(tot):
            book.cell(op, kname, "vec2d", ("2d", ci), ok, field, why, kc)
    except Exception as e:
        for ci in range(tot):
            book.raised(op, kname, "vec2d", ("2d", ci), e, kc)


# ----------------------------------------------------------------------------- __getitem__


def getitem_table(ctx, book, Mask):
    import jax
    import jax.numpy as jnp

    S = slice
    cases = [
        ((), {"x": ((3, 2), "float32")}, [0, 2, -1, (1,), (1, 1), (2, -1), S(0, 2), (S(None), 1)]),
        ((), (((3, 2), "int32"), ((3, 4), "float32")), [0, -1, (1, 1), (2, 0), (S(None), 1)]),
        ((), ((3,), "float32"), [0, 1, -1, S(1, 3)]),
        ((3,), (((3,), "float32"),), [0, 2, -1, S(0, 2)]),
        ((3,), {"p": ((3, 2), "float32"), "q": ((3,), "int32")}, [0, 1, -1, S(1, 3)]),
        ((3,), (((3, 2), "int32"), ((3, 4), "float32")), [0, (1, 1), (2, 0), (-1, -1), (S(None), 1), (S(0, 2), 0)]),
        ((2, 2), (((2, 2), "float32"), ((2, 2, 3), "int32")), [0, (1,), (1, 0), (0, 1), (-1, 0), (S(None), 1)]),
        ((2, 2), (((2, 2, 3), "float32"),), [(1, 0, 2), (0, 1, 0), (1, 1), (S(None), 0, 1)]),
    ]
    for ci, (fshape, spec_full, paths) in enumerate(cases):
        if ci % ctx.nshards != ctx.shard:
            continue
        jitted = {}
        # spec_full already includes the batch dims: build with batch=() and full shapes
        val = make_value(spec_full, (), ci % 3)
        nflag = int(np.prod(fshape)) if fshape else 1
        if fshape == ():
            flagsets = [np.asarray(False), np.asarray(True)]
        else:
            rng = ctx.child_rng(19, ci)
            flagsets = [((np.arange(nflag) % 2) == 0).reshape(fshape), (rng.random(fshape) < 0.5)]
            if flagsets[1].all() or not flagsets[1].any():
                flagsets[1] = ((np.arange(nflag) % 3) == 0).reshape(fshape)
        for fl in flagsets:
            rm = R.RMask(val, fl)
            arms = ["py", "arr0", "jit"] if fshape == () else ["vec", "vec-jit"]
            for path in paths:
                exp = R.r_getitem(rm, path)
                for arm in arms:
                    pname = _path_name(path)
                    try:
                        if arm == "py":
                            res = Mask(to_jnp(val), bool(fl))[path]
                        elif arm in ("arr0", "vec"):
                            res = Mask(to_jnp(val), jnp.asarray(fl))[path]
                        else:
                            if pname + repr(path) not in jitted:
                                jitted[pname + repr(path)] = jax.jit(lambda f, v, path=path: Mask(v, f)[path])
                            res = jitted[pname + repr(path)](jnp.asarray(fl), to_jnp(val))
                    except Exception as e:
                        book.raised("getitem", f"flag{len(fshape)}d", arm, pname, e, counter="getitem_cells")
                        continue
                    ok, field, why = agree(observe(res, Mask), "mask", exp)
                    # fingerprint / verdict
                    ctx.count("getitem_cells")
                    ctx.evaluation(fingerprint=("getitem", ci, arm, pname, bool(fl.any())), nontrivial=True)
                    if not ok:
                        ctx.violation(
                            f"C19|op=getitem|on=Mask|field={field}|cond={arm},flag{len(fshape)}d,path-{pname}",
                            detail=f"Mask(value shapes {_shape_list(val)}, flag {fl.tolist()})[{path}]: {why}"[:600],
                        )
    ctx.sample({"monitor": "getitem", "cases": len(cases), "flag_shapes": ["()", "(3,)", "(2,2)"]}, limit=3)


def _path_name(path):
    path = path if isinstance(path, tuple) else (path,)
    return "+".join("slice" if isinstance(p, slice) else ("neg" if p < 0 else "int") for p in path)


def _shape_list(val):
    return [list(np.asarray(x).shape) for x in R.leaves(val)]


# ----------------------------------------------------------------------------- Diff-wrapped flags


def diff_flags(ctx, Mask):
    import jax.numpy as jnp
    from genjax._src.core.compiler.interpreters.incremental import Diff, NoChange, UnknownChange

    for tname, tan in (("nochange", NoChange), ("unknown", UnknownChange)):
        for b in (False, True):
            for rep in ("py", "arr0"):
                fl = bool(b) if rep == "py" else jnp.asarray(bool(b))
                v = jnp.asarray([1.5, 2.5, 3.5])
                try:
                    m = Mask(v, Diff(fl, tan))
                    checks = [
                        ("primal_flag", bool(np.asarray(m.primal_flag())) == b),
                        ("inv", bool(np.asarray((~m).primal_flag())) == (not b) and np.array_equal(np.asarray((~m).value), np.asarray(v))),
                        ("getitem", bool(np.asarray(m[1].primal_flag())) == b and float(m[1].value) == 2.5),
                        ("unmask_default", np.array_equal(np.asarray(m.unmask(jnp.zeros(3))), np.asarray(v) if b else np.zeros(3))),
                    ]
                except Exception as e:
                    ctx.count("diff_cells")
                    ctx.violation(f"C19|op=diff-flag|on=Mask|field=raises|cond={rep},{common.exc_mechanism(e)}",
                                  detail=f"Diff({b}, {tname}) flag: {type(e).__name__}: {e}"[:400])
                    continue
                for name, ok in checks:
                    ctx.count("diff_cells")
                    ctx.evaluation(fingerprint=("diff", tname, b, rep, name), nontrivial=True)
                    if not ok:
                        ctx.violation(f"C19|op={name}|on=Mask|field=flag-or-value|cond=diff-flag,{rep}",
                                      detail=f"Mask(v, Diff({b}, {tname})) [{rep}]: {name} wrong")


# ----------------------------------------------------------------------------- random cases

_SHAPES = [(), (1,), (2,), (3,), (4,), (2, 2)]
_DT = ["float32", "int32", "bool"]
_BATCH = [(5,), (7,), (4,), (2, 3), (3, 2), (2, 1, 2)]


def random_spec(rng):
    def leaf():
        return (_SHAPES[int(rng.integers(len(_SHAPES)))], _DT[int(rng.integers(len(_DT)))])

    k = int(rng.integers(5))
    if k == 0:
        return leaf()
    if k == 1:
        return (leaf(), leaf())
    if k == 2:
        return {"u": leaf(), "w": (leaf(), leaf())}
    if k == 3:
        return [leaf(), {"k": leaf()}]
    return {"z": leaf()}


def random_cases(ctx, book, Mask, T, n_cases, budget_s):
    import jax
    import jax.numpy as jnp

    opnames = sorted(T)
    for ci in ctx.my_share(n_cases):
        if ctx.elapsed() > budget_s:
            ctx.count("random_cases_skipped_budget")
            continue
        rng = ctx.child_rng(7, ci)
        op = opnames[int(rng.integers(len(opnames)))]
        nf, nv, fn, ref = T[op]
        spec = random_spec(rng)
        batch = _BATCH[int(rng.integers(len(_BATCH)))]
        Fnp = [rng.random(batch) < 0.5 for _ in range(nf)]
        Vnp = [make_value(spec, batch, s) for s in range(nv)]
        ek, eb = ref(Fnp, Vnp)
        Fj, Vj = [jnp.asarray(f) for f in Fnp], [to_jnp(v) for v in Vnp]
        nel = int(np.prod(batch))
        kname = "random"
        for arm in ("vec", "vmap"):
            kc = known_cond(op, arm, spec, batch)
            try:
                if arm == "vec":
                    res = fn(Fj, Vj)
                else:
                    g = lambda F, V: fn(F, V)  # noqa: E731
                    for _ in batch:
                        g = jax.vmap(g)
                    res = jax.jit(g)(Fj, Vj)  # one compilation instead of one per primitive
                ok, field, why = agree(observe(res, Mask), ek, eb)
            except Exception as e:
                ctx.count("random_cells", nel)
                ctx.violation(
                    f"C19|op={op}|on=Mask|field=raises|cond={kc or (arm + ',' + common.exc_mechanism(e))}",
                    detail=f"random case {op} spec={spec} batch={batch} arm={arm}: {type(e).__name__}: {e}"[:500],
                )
                continue
            ctx.count("random_cells", nel)
            ctx.count(f"random_{arm}", nel)
            ctx.evaluation(fingerprint=("rand", op, repr(spec), batch, arm, ci), nontrivial=True, n=nel)
            if not ok:
                ctx.violation(
                    f"C19|op={op}|on=Mask|field={field}|cond={kc or (arm + ',random-pytree')}",
                    detail=f"random case {op} spec={spec} batch={batch} arm={arm}: {why}"[:600],
                )
        # per-element eager evaluation with concrete flags for a few elements
        idxs = [np.unravel_index(int(i), batch) for i in rng.choice(nel, size=min(3, nel), replace=False)]
        for idx in idxs:
            for arm in ("py", "arr0"):
                c = tuple(bool(f[idx]) for f in Fnp)
                F = [b if arm == "py" else jnp.asarray(b) for b in c]
                V = [to_jnp(R.tmap(lambda x: np.asarray(x)[idx], v)) for v in Vnp]
                e_el = R.tmap(lambda x: np.asarray(x)[idx], eb) if ek == "raw" else R.element(eb, idx)
                try:
                    ok, field, why = agree(observe(fn(F, V), Mask), ek, e_el)
                except Exception as e:
                    ctx.count("random_cells")
                    ctx.violation(f"C19|op={op}|on=Mask|field=raises|cond={arm},{common.exc_mechanism(e)}",
                                  detail=f"random case {op} spec={spec} flags={c}: {type(e).__name__}: {e}"[:500])
                    continue
                ctx.count("random_cells")
                ctx.count(f"random_{arm}")
                ctx.evaluation(fingerprint=("rand", op, repr(spec), arm, c), nontrivial=True)
                if not ok:
                    ctx.violation(f"C19|op={op}|on=Mask|field={field}|cond={arm},random-pytree",
                                  detail=f"random case {op} spec={spec} flags={c} arm={arm}: {why}"[:600])
        ctx.sample({"monitor": "random", "op": op, "spec": repr(spec), "batch": list(batch),
                    "flags": [np.asarray(f).astype(int).ravel().tolist() for f in Fnp]}, limit=2)


# ----------------------------------------------------------------------------- run


def run(ctx):
    common.import_repo()
    from genjax._src.core.generative.functional_types import Mask

    T = ops_table(Mask)
    book = Book(ctx)
    kinds = list(KINDS) + ["py"]
    # the n-ary folds are the most expensive tasks (2^n combinations, many distinct eager dispatch compilations):
    # each gets a subset of the kinds, together they still cover every kind
    nary = {"or_n3": ("i32", "bool", "sq4", "nest", "py"), "xor_n3": ("f32", "bool", "vec3", "nest", "py"),
            "or_n4": ("f32", "vec3", "dict", "py"), "xor_n4": ("i32", "sq4", "dict", "py")}
    tasks = [(op, k) for op in T for k in kinds if op not in nary or k in nary[op]]
    for ti in ctx.my_share(len(tasks)):
        op, k = tasks[ti]
        run_task(ctx, book, Mask, T, op, k)
        ctx.sample({"monitor": "table", "op": op, "kind": k, "flag_combinations": 2 ** T[op][0]}, limit=1)
    getitem_table(ctx, book, Mask)
    if ctx.shard == 1 % ctx.nshards:
        diff_flags(ctx, Mask)
    random_cases(ctx, book, Mask, T, ctx.pick(96, 1600), budget_s=ctx.pick(200, 800))
    book.finish()
