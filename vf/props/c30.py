"""C30 — VI objective gradient estimators are unbiased for their objectives.

For model/guide pairs with exactly computable objectives (vf/gen/c30_pairs.py builds the real
genjax model / guide / Target; vf/ref/c30_ref.py holds independent numpy transcriptions of
log p and log q and integrates them by Gauss-Hermite quadrature / enumeration) the monitors
compare the gradient estimates of `genjax.vi.ELBO / IWELBO / PWake / QWake` with the central-
difference gradient of the exact loss:

  * enumerable guides (flip_enum, categorical_enum) under ELBO: every single estimate equals
    the exact gradient                                                        [deterministic]
  * everything else: mean over N keys (vmap) vs exact gradient, z-test with the empirical
    standard error, two-stage confirmation                                    [statistical]

The guides' entropy depends on the optimised parameters (scale and probability parameters are
optimised), model parameters are optimised too, and two-site guides are included.
A gradient mean that instead matches the same objective *without* its log q term is reported
under its own signature (`cond=log-q-term-missing`).
"""

from __future__ import annotations

import math

import numpy as np

from vf import common
from vf.gen import c30_pairs as G
from vf.ref import c30_ref as R

VI = "genjax._src.inference.vi"
SMC = "genjax._src.inference.smc"
SP = "genjax._src.inference.sp"
CONFIG = {
    "level": "exploration",
    "shards": {"quick": 16, "thorough": 16},
    "timeout_s": {"quick": 600, "thorough": 3000},
    "rule": "every (objective, family, guide kind, optimised parameters) row of vf/gen/c30_pairs.PROBLEMS with random model constants, observations and parameter values; N keys per statistical cell. distinct = (objective, family, guide kind, parameter names); non-trivial = the optimised parameters include one the guide entropy or the model density depends on (all rows).",
    "reach_anchors": [f"{VI}:ELBO", f"{VI}:IWELBO", f"{VI}:PWake", f"{VI}:QWake", f"{SMC}:Importance.run_smc", f"{SMC}:ImportanceK.run_smc",
                      f"{SP}:Marginal.random_weighted", f"{SP}:Marginal.estimate_logpdf", "genjax._src.adev.core:Expectation.grad_estimate"],
    "reach_required": [f"{VI}:ELBO", f"{VI}:IWELBO", f"{VI}:PWake", f"{VI}:QWake", f"{SMC}:Importance.run_smc", f"{SP}:Marginal.random_weighted"],
    "counters_required": ["cells:ELBO", "cells:IWELBO", "cells:PWake", "cells:QWake", "det_grad_checks", "stat_cells"],
    "assumptions": [
        "ELBO = E_q[log p(x,obs) - log q(x)], IWELBO_N = E[log mean_i p(x_i,obs)/q(x_i)], PWake = E_r[log p_theta(x,obs)], QWake = E_r[log q_theta(x)] with r a posterior approximation that does not depend on the optimised parameters; the estimators return gradients of the negated objectives",
        "numpy transcriptions of log p / log q of the hand-written families; Gauss-Hermite quadrature (48 nodes per normal latent; 64 per draw for IWELBO, cross-checked with 96) + enumeration; Richardson central differences in float64",
        "a 'plain' guide (ordinary genjax.normal) is reparameterisable through JAX's own differentiation of the sampler",
    ],
}


def ztest(x, exact, tol):
    x = np.asarray(x, dtype=np.float64)
    m = float(x.mean())
    se = float(x.std(ddof=1) / math.sqrt(len(x))) if len(x) > 1 else 0.0
    d = max(0.0, abs(m - exact) - tol)
    if d == 0.0:
        return 1.0, m, se
    if se <= 0.0:
        return 0.0, m, se
    from scipy.stats import norm

    return float(2 * norm.sf(d / se)), m, se


def run_problem(ctx, pb, rng, N):
    import jax

    obj, famname, gkind, names = pb
    op = "IWELBO" if obj.startswith("IWELBO") else obj
    fam = G.make_family(rng, famname)
    th = G.make_theta(rng, names)
    theta_tuple = tuple(float(th[k]) for k in names)
    wit = {"problem": G.problem_name(pb), "constants": fam.c, "theta": th}
    ctx.count(f"cells:{op}")
    ctx.count(f"problem:{G.problem_name(pb)}")
    ctx.evaluation(fingerprint=(obj, famname, gkind, names), nontrivial=True)
    loss, loss_nolq = G.ref_loss(pb, fam, names)
    hard = obj.startswith("IWELBO") and int(obj[6:]) >= 2 and famname == "normal-normal"
    v0, gref, ok = R.grad_fd(loss, names, th, h=1e-3 if hard else 1e-4)
    if obj == "ELBO" and famname == "normal-normal":
        cf = fam.elbo_closed_form(G.full_theta(fam, th))
        if abs(cf - v0) > 1e-8 * (1 + abs(cf)):
            ok = False
    if obj.startswith("IWELBO") and int(obj[6:]) >= 2 and famname == "normal-normal":
        v1 = fam.iwelbo_loss(G.full_theta(fam, th), int(obj[6:]), n=96)
        if abs(v1 - v0) > 2e-6 * (1 + abs(v0)):
            ok = False
    if not ok:
        ctx.count("ref_unstable")
        return
    gnl = None
    if loss_nolq is not None:
        _, gnl, ok2 = R.grad_fd(loss_nolq, names, th)
        if not ok2:
            gnl = None
    # diagnostic references for two-site reparameterised guides: both sites driven by one draw
    shared = {}
    if famname == "chain2" and gkind == "normal_reparam+normal_reparam":
        for lq in (True, False):
            _, g, okd = R.grad_fd(lambda t, lq=lq: fam.elbo_loss_shared_noise(G.full_theta(fam, t), with_logq=lq), names, th)
            if okd:
                shared["sites-share-noise" if lq else "sites-share-noise+log-q-term-missing"] = g
    gside = "plain-guide" if all(k.startswith("plain_") for k in gkind.split("+")) else "adev-guide"
    try:
        grad_fn = G.build(pb, fam, names)
        det = G.is_deterministic(pb)
        f = jax.jit(lambda keys: jax.vmap(lambda k: grad_fn(k, theta_tuple))(keys))

        def draw(seed, reps, n):
            outs = [[] for _ in names]
            for r in range(reps):
                keys = jax.random.split(jax.random.key(int(seed) + 104729 * r), n)
                g = f(keys)
                leaves = jax.tree_util.tree_leaves(g)
                if len(leaves) != len(names):
                    raise ValueError(f"{len(leaves)} gradient leaves for {len(names)} parameters")
                for i, x in enumerate(leaves):
                    outs[i].append(np.asarray(x, dtype=np.float64).reshape(n))
            return [np.concatenate(o) for o in outs]

        n1 = 4 if det else N
        xs = draw(rng.integers(1 << 30), 1, n1)
    except Exception as e:  # noqa: BLE001
        ctx.count(f"raises:{op}:{gkind}")
        ctx.violation(f"C30|op={op}|on={gside}|field=raises|cond={common.exc_mechanism(e)}", **wit, detail=f"{type(e).__name__}: {str(e)[:300]}")
        return
    ctx.sample({**wit, "exact_gradient_of_loss": gref, "estimate_means": {k: float(x.mean()) for k, x in zip(names, xs)}, "n": n1}, limit=3)
    stage2 = None
    for i, k in enumerate(names):
        exact = gref[k]
        x = xs[i]
        if not np.all(np.isfinite(x)):
            ctx.violation(f"C30|op={op}|on={gkind}|field=nonfinite|cond={famname}", **wit, detail=f"d/d{k}: non-finite gradient estimates")
            continue
        if det:
            for v in x:
                ctx.count("det_grad_checks")
                if not common.close(v, exact, rtol=1e-3, atol=5e-4):
                    nolq = gnl is not None and common.close(v, gnl[k], rtol=1e-3, atol=5e-4)
                    sig = f"C30|op={op}|on=Marginal-guide|field=grad|cond=log-q-term-missing" if nolq else f"C30|op={op}|on={gkind}|field=grad|cond={famname}"
                    ctx.violation(sig, **wit, detail=f"d loss/d{k}: estimate {float(v)!r}, exact {exact!r}" + (f" (equals the gradient {gnl[k]!r} of the objective without its log q term)" if nolq else ""), observed=float(v), expected=exact, parameter=k)
                    break
            continue
        ctx.count("stat_cells")
        tol = 2e-4 * (1 + abs(exact))
        p, m, se = ztest(x, exact, tol)
        if p >= 1e-6:
            continue
        ctx.count("stat_flags_stage1")
        if stage2 is None:
            try:
                stage2 = draw(rng.integers(1 << 30) + (1 << 30), 8, N)
            except Exception as e:  # noqa: BLE001
                ctx.violation(f"C30|op={op}|on={gkind}|field=raises|cond={common.exc_mechanism(e)}", **wit, detail=f"{type(e).__name__}: {str(e)[:300]}")
                return
        x2 = stage2[i]
        if not np.all(np.isfinite(x2)):
            ctx.violation(f"C30|op={op}|on={gkind}|field=nonfinite|cond={famname}", **wit, detail=f"d/d{k}: non-finite gradient estimates")
            continue
        p2, m2, se2 = ztest(x2, exact, tol)
        if p2 < 1e-9:
            nolq = False
            if gnl is not None:
                pn, _, _ = ztest(x2, gnl[k], 2e-4 * (1 + abs(gnl[k])))
                # attribution only (the verdict is already made): cannot reject the no-log-q gradient
                nolq = pn >= 1e-6 and abs(gnl[k] - exact) > max(1e-3, 6 * se2)
            sig = f"C30|op={op}|on=Marginal-guide|field=grad-mean|cond=log-q-term-missing" if nolq else f"C30|op={op}|on={gkind}|field=grad-mean|cond={famname}"
            if not nolq:
                for name, g in shared.items():
                    ps, _, _ = ztest(x2, g[k], 2e-4 * (1 + abs(g[k])))
                    if ps >= 1e-6 and abs(g[k] - exact) > max(1e-3, 6 * se2):
                        sig = f"C30|op={op}|on=two-site-guide|field=grad-mean|cond={name}"
                        break
            ctx.violation(
                sig, **wit,
                detail=f"d loss/d{k}: mean of {len(x2)} estimates {m2:.5f} (SE {se2:.5f}); exact {exact:.5f}" + (f"; the objective without its log q term has gradient {gnl[k]:.5f}" if gnl is not None else "") + f"; stage-1 mean {m:.5f} (SE {se:.5f})",
                observed=m2, expected=exact, se=se2, parameter=k, p_stage1=p, p_stage2=p2,
            )
        elif p2 >= 1e-3:
            ctx.count("stat_stage2_cleared")
        else:
            ctx.count("grey")
            ctx.note(f"grey band: {G.problem_name(pb)} d/d{k} p1={p:.2e} p2={p2:.2e}")


def run(ctx):
    import time

    common.import_repo()
    cpu_budget = ctx.pick(50.0, 300.0)
    wall_budget = ctx.pick(420.0, 2400.0)
    cpu0 = time.process_time()
    N = ctx.pick(4000, 40000)
    reps = ctx.pick(3, 16)
    total = len(G.PROBLEMS) * reps
    done = 0
    for ci in ctx.my_share(total):
        if ctx.elapsed() > wall_budget or time.process_time() - cpu0 > cpu_budget:
            ctx.count("cases_skipped_budget")
            continue
        pb = G.PROBLEMS[ci % len(G.PROBLEMS)]
        rng = ctx.child_rng(1, ci)
        run_problem(ctx, pb, rng, N)
        done += 1
    ctx.count("problems", done)
    if ctx.counters.get("grey", 0):
        raise RuntimeError("grey-band statistical result: run is inconclusive")
