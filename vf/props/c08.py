"""C08 — change tags are sound: NoChange really means unchanged.

Two monitors.
1. Invariant at the hook (every edit of every history): each leaf of the returned retdiff tagged
   NoChange equals the corresponding leaf of the old return value, and the retdiff's primal is
   the new trace's return value.
2. Retagging differential: the same edit (same key, same request, same — unchanged — argument
   values) under argument taggings all-NoChange / all-UnknownChange / mixed must give the same
   new trace, weight and backward constraint.  Programs containing a switch-like construct are
   exempt from monitor 2 (UnknownChange on the switch index is the documented resampling
   trigger); a tagging the library refuses (IndexRequest asserts NoChange) is a rejection.
"""

import numpy as np

from vf import common, engine
from vf.engine import Issue, Rejected
from vf.prog import gen, obs
from vf.props import _drive

G = "genjax._src.generative_functions"
I = "genjax._src.core.compiler.interpreters.incremental"
CONFIG = {
    "level": "exploration",
    "shards": {"quick": 16, "thorough": 16},
    "timeout_s": {"quick": 900, "thorough": 5400},
    "rule": "case = generated program whose return expressions include literals, pass-through arguments and constants mixed with changed values + edits (Update / Regenerate / StaticRequest / IndexRequest / EmptyRequest), each followed by the NoChange-carries-old-value hook; plus the same Update run under 3 taggings of unchanged arguments. non-trivial: the edit changes >=1 value and some other argument or return leaf is unchanged; distinct by (AST shape, op sequence).",
    "reach_anchors": [f"{I}:default_propagation_rule", "genjax._src.core.generative.requests:EmptyRequest.edit", f"{G}.distributions.distribution:Distribution.edit_regenerate", f"{G}.static:StaticGenerativeFunction.edit_update", f"{G}.combinators.dimap:Dimap.edit_change_target"],
    "reach_required": [f"{I}:default_propagation_rule", f"{G}.static:StaticGenerativeFunction.edit_update", f"{G}.combinators.dimap:Dimap.edit_change_target", f"{G}.distributions.distribution:Distribution.edit_regenerate"],
    "counters_required": ["retdiff_checks", "retag_comparisons"],
    "assumptions": ["float equality of 'unchanged' leaves up to the float32 tolerance"],
}

SWITCHY = {"Switch", "OrElse", "Mix"}


def cfg_fn(rng, ctx):
    depth = int(rng.choice([1, 2, 2])) if ctx.quick() else int(rng.choice([1, 2, 2, 3]))
    kinds = None if rng.random() < 0.3 else [k for k in gen.ALL_KINDS if k not in SWITCHY]
    r = rng.random()
    root = "Static" if r < 0.3 else ("Dimap" if r < 0.55 else None)
    return gen.Cfg(depth=depth, kinds=kinds, literal_ret=0.5, root=root, weights={"Dimap": 2.0})


def h_retag(ctx, plan, case, rec, rng, nk, hist, route, guarded):
    if SWITCHY & case.kinds:
        ctx.count("retag_skipped_switch")
        return None
    nargs = len(rec.args)
    vals = engine.gen_constraint(rng, case, rec, rec.args)
    k = nk()
    taggings = ["nochange", None]
    if nargs >= 2:
        taggings.append([bool(b) for b in rng.random(nargs) < 0.5])
    hist.append(f"retag Update({_drive._short(vals, 120)}) taggings={taggings}")
    outs = []
    for t in taggings:
        try:
            outs.append(engine.op_update(case, rec, k, vals, None, t))
        except Rejected as r:
            ctx.reject(f"retag:{r.mech}")
            outs.append(None)
    base = outs[0]
    issues = []
    if base is None or base[0] is None:
        return None
    for t, o in zip(taggings[1:], outs[1:]):
        if o is None or o[0] is None:
            continue
        ctx.count("retag_comparisons")
        d = engine.same_trace(o[0], base[0])
        cond = "all-unknown" if t is None else "mixed"
        if d:
            issues.append(Issue("retag.trace", f"tagging unchanged arguments {t} instead of NoChange changes the new trace: {d}", cond))
        if np.isfinite(base[1]) and not common.close(o[1], base[1], terms=max(1, len(rec.assign))):
            issues.append(Issue("retag.weight", f"weight {o[1]} under tagging {t} vs {base[1]} under NoChange", cond))
        try:
            d0 = obs.valid_assignment(obs.extract(case.node, base[3].constraint))
            d1 = obs.valid_assignment(obs.extract(case.node, o[3].constraint))
            if set(d0) != set(d1) or any(not engine._same_value(d0[p], d1[p]) for p in d0):
                issues.append(Issue("retag.bwd", f"backward constraints differ under tagging {t}: {sorted(set(d0) ^ set(d1), key=repr)[:3]}", cond))
        except Exception:
            pass
    route("retag", issues)
    return None


def nontrivial(case, hist):
    return any(h.startswith(("update", "regenerate", "static_request", "retag")) and "constraint={}" not in h for h in hist)


PLAN = _drive.Plan(
    "C08", cfg_fn,
    clauses={"tags.*", "retag.*"},
    ops={"update": 3, "regenerate": 1, "static_request": 1, "index_edit": 2.5, "empty_request": 1, "retag": 3},
    extra_ops={"retag": h_retag},
    n_cases=(400, 3000), n_ops=(3, 6), nontrivial=nontrivial,
    always=(),
    exc_is_violation=False,
)


def run(ctx):
    _drive.run(ctx, PLAN)
