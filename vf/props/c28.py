"""C28 — HMC proposals follow leapfrog dynamics and return the MH log ratio.

HMC(selection, eps, L).edit must move only the selected continuous choices along L textbook
leapfrog steps of size eps (each half-kick using the gradient at the current position) and
return alpha = H(start) - H(end), H = -log p(q) + |p|^2/2.

How it is observed.  The module-level functions of genjax._src.inference.requests.hmc are looked
up at call time, so the worker wraps `sample_momenta` (records the momenta actually drawn, or
injects chosen ones), `assess_momenta` (records the final momenta) and `selection_gradient`
(streams per-step (position, gradient) pairs through jax.debug.callback).  The tapped tracers are
returned from the jitted / vmapped function together with the outputs of `HMC.edit`, so every
observation is attributed to its own call.

Monitors (oracle: vf/ref/leapfrog.py in float64 on the templated reference log density,
gradient = jax.grad of the jnp transcription under enable_x64, cross-checked by central
differences of the numpy transcription):
  trajectory      selected choices at the end == L reference leapfrog steps from the start with
                  the observed momenta;   final-momentum: likewise for the final momenta
  unselected      choices outside the selection keep their values exactly
  alpha-energy    alpha == [log p(q_end)+log N(p_end)] - [log p(q0)+log N(p0)] on the OBSERVED end state
  alpha           alpha == H(start) - H(end) with the reference end state
  new-score       new_trace.get_score() == reference log p(q_end)
  momenta-score   score returned with the drawn momenta == sum log N(p0)
  reversibility   from the end state with injected momentum -p_end the same request returns to the
                  start, ends with momentum -p0 and returns -alpha
  composition     L single-step requests chained through injected momenta == one L-step request
  gradient-stream (eager) every (position, gradient) pair seen by selection_gradient satisfies
                  gradient == reference gradient; the visited positions are the reference trajectory
  momenta-law     drawn momenta (observed inside HMC.edit, pooled with direct draws from
                  sample_momenta over fresh keys) are N(0,1): mean / variance / KS with two-stage
                  confirmation; momenta of different leaves are not copies of each other
  raises          the request must return for every templated case
"""

from __future__ import annotations

import math
import os

import numpy as np

from vf import common

HM = "genjax._src.inference.requests.hmc"
CONFIG = {
    "level": "exploration",
    "shards": {"quick": 16, "thorough": 16},
    "timeout_s": {"quick": 600, "thorough": 3000},
    "rule": "family = one traced computation: model template (chain, linear-gaussian control, funnel with vector leaf, heavy tails cauchy/student-t/gumbel, vector leaf, hierarchical sub-call + vmap, scan kernel, continuous next to discrete) x selection (one / several / all continuous choices, sub-trace prefixes, selections that also cover discrete choices) x L in {1,2,3,4,5,10} x mode (eager / jit / jit(vmap)); through each family go 1-6 variants (random model parameters, full random start assignment, eps log-uniform in [1e-3, 0.3] with 60% >= 0.05) x 1-3 keys; every (variant, key) is one evaluation of every monitor. non-trivial: L >= 2, eps >= 0.02 and a non-quadratic or multi-dimensional target; distinct by (template, selection, L class, eps class, mode).",
    "reach_anchors": [f"{HM}:HMC.edit", f"{HM}:selection_gradient", f"{HM}:sample_momenta", f"{HM}:assess_momenta"],
    "reach_required": [f"{HM}:HMC.edit", f"{HM}:selection_gradient", f"{HM}:sample_momenta", f"{HM}:assess_momenta"],
    "counters_required": [
        "tap_sample_momenta_calls",
        "tap_assess_momenta_calls",
        "trajectory_checked",
        "trajectory_checked_multistep",
        "final_momentum_checked",
        "unselected_checked",
        "alpha_energy_checked",
        "alpha_checked",
        "reversibility_checked",
        "composition_checked",
        "gradient_stream_checked",
        "momenta_law_scalars",
    ],
    "assumptions": [
        "reference log densities: jnp/numpy float64 transcriptions of the templated models (vf/gen/c28_models.py); gradient by jax.grad (x64) cross-checked by central differences",
        "the momenta are observed (module-level sample_momenta / assess_momenta wrapped from the worker), not re-derived from keys",
        "float32 tolerance 2e-4 (relative+absolute) plus 40x the change of the reference result under a 1e-6 relative perturbation of the start state (conditioning-aware); cases whose reference is non-finite or ill-conditioned are skipped and counted",
        "importance with a full constraint installs the start assignment",
    ],
}

TAP = {"inject": None, "p0": None, "p0score": None, "assess": [], "stream": None, "n_sample": 0, "n_assess": 0, "inject_mismatch": 0}
_INSTALLED = {}


def install_taps():
    """Wrap the module-level helpers of hmc.py (looked up through module globals at call time)."""
    if _INSTALLED:
        return
    import jax
    import jax.numpy as jnp
    import jax.tree_util as jtu

    import genjax._src.inference.requests.hmc as H

    o_sample, o_assess, o_selgrad = H.sample_momenta, H.assess_momenta, H.selection_gradient
    _INSTALLED.update(sample=o_sample, assess=o_assess, selgrad=o_selgrad, H=H)

    def sample_tap(key, choice_gradients):
        m, s = o_sample(key, choice_gradients)
        TAP["n_sample"] += 1
        inj = TAP["inject"]
        if inj is not None:
            tree, flag = inj
            if jtu.tree_structure(tree) == jtu.tree_structure(m):
                m = jtu.tree_map(lambda a, b: jnp.where(flag, b.astype(a.dtype).reshape(a.shape), a), m, tree)
                s = o_assess(m)
            else:  # the momenta tree is not laid out like the filtered choice map: nothing is injected
                TAP["inject_mismatch"] += 1
        TAP["p0"], TAP["p0score"] = m, s
        return m, s

    def assess_tap(momenta, mul=1.0):
        TAP["n_assess"] += 1
        TAP["assess"].append((momenta, mul))
        return o_assess(momenta, mul)

    def selgrad_tap(selection, trace, argdiffs):
        values, grads = o_selgrad(selection, trace, argdiffs)
        sink = TAP["stream"]
        if sink is not None:
            jax.debug.callback(lambda v, g: sink.append((v, g)), values, grads)
        return values, grads

    H.sample_momenta = sample_tap
    H.assess_momenta = assess_tap
    H.selection_gradient = selgrad_tap


# --------------------------------------------------------------------------------------------


def _f64(d):
    return {k: np.asarray(v, dtype=np.float64) for k, v in d.items()}


def _maxdiff(a, b):
    return max(float(np.max(np.abs(np.asarray(a[k], float) - np.asarray(b[k], float)))) for k in a)


def _close_dict(obs, ref, sens, terms=4, mult=40.0):
    """Every entry of obs close to ref; tolerance = float32 base + mult * sensitivity."""
    for k in ref:
        o, r = np.asarray(obs[k], np.float64), np.asarray(ref[k], np.float64)
        if o.shape != r.shape:
            return False
        if np.any(~np.isfinite(o)):
            return False
        t = common.tol(o, r, terms) + mult * np.asarray(sens[k], np.float64)
        if np.any(np.abs(o - r) > t):
            return False
    return True


def _close_scalar(o, r, sens=0.0, terms=8, mult=40.0):
    if not np.isfinite(o):
        return False
    return bool(abs(o - r) <= common.tol(o, r, terms) + mult * sens)


class Ref:
    """Reference dynamics of one family (float64).  The gradient is jax.grad of the jnp
    transcription, compiled once per family under enable_x64; parameters, the moving choices
    and the resting continuous choices are its inputs."""

    def __init__(self, tpl, sel_cont, disc_vals, jax, jnp):
        from jax.experimental import enable_x64

        self.tpl, self.sel, self.disc = tpl, list(sel_cont), dict(disc_vals)
        self.rest_keys = [a for a in tpl["cont"] if a not in self.sel]
        self._x64, self._jnp = enable_x64, jnp
        logp, disc = tpl["logp"], self.disc
        with enable_x64():

            def f(qsel, rest, th):
                vv = dict(disc)
                vv.update(rest)
                vv.update(qsel)
                return logp(vv, th, jnp)

            self._jgrad = jax.jit(jax.grad(f))

    def bind(self, th, start_vals):
        return RefV(self, np.asarray(th, np.float64), {a: np.asarray(start_vals[a], np.float64) for a in self.rest_keys})


class RefV:
    """`Ref` bound to one variant (parameters and resting choices)."""

    def __init__(self, fam, th, rest):
        self.fam, self.th, self.rest = fam, th, rest

    def full(self, qsel):
        vv = dict(self.fam.disc)
        vv.update(self.rest)
        vv.update(_f64(qsel))
        return vv

    def logp(self, qsel):
        with np.errstate(all="ignore"):
            return float(self.fam.tpl["logp"](self.full(qsel), self.th, np))

    def grad(self, qsel):
        fam = self.fam
        with fam._x64():
            j = fam._jnp
            g = fam._jgrad({a: j.asarray(np.asarray(qsel[a], np.float64)) for a in fam.sel}, {a: j.asarray(v) for a, v in self.rest.items()}, j.asarray(self.th))
            return {a: np.asarray(g[a], np.float64) for a in fam.sel}

    def grad_fd(self, qsel):
        from vf.ref import leapfrog as LF

        return LF.central_grad(lambda q: float(self.fam.tpl["logp"](q, self.th, np)), self.full(qsel), self.fam.sel)


def _perturb(rng, d, rel=1e-6):
    return {k: np.asarray(v, np.float64) + rel * (1.0 + np.abs(np.asarray(v, np.float64))) * rng.choice([-1.0, 1.0], size=np.shape(v)) for k, v in d.items()}


def _exc_chain(e):
    out, seen = [], set()
    while e is not None and id(e) not in seen:
        seen.add(id(e))
        out.append(e)
        e = e.__cause__ or e.__context__
    return out


def run_family(ctx, fi, genjax, jax, jnp, pool):
    """One family = one traced computation (template structure, selection, L, mode); many variants
    (parameters, start assignment, step size) x keys are pushed through it."""
    import jax.tree_util as jtu
    from genjax import Diff
    from genjax.inference.requests import HMC

    from vf.gen import c28_models
    from vf.ref import leapfrog as LF

    srng = ctx.child_rng(28, fi)
    tpl = c28_models.draw(srng, genjax, jnp)
    sel_label, selection, covered = tpl["selections"][int(srng.integers(len(tpl["selections"])))]
    mode = ["eager", "jit", "jit", "vmap", "vmap", "vmap"][int(srng.integers(6))]
    L = int(srng.choice([1, 2, 3, 4, 5, 10]))
    do_comp = bool(srng.random() < 0.5) and 2 <= L <= 5 and mode != "eager"
    # a selected continuous choice held as a plain Python float (only observable un-jitted)
    pyfloat = []
    if mode == "eager" and tpl.get("pyfloat_ok") and srng.random() < 0.6:
        pyfloat = list(tpl["pyfloat_ok"])
        cand = [s_ for s_ in tpl["selections"] if all(a in s_[2] for a in pyfloat)]
        sel_label, selection, covered = cand[int(srng.integers(len(cand)))]
    nvar, nkeys = {"eager": (1, 1), "jit": (ctx.pick(3, 4), 2), "vmap": (ctx.pick(4, 6), 3)}[mode]
    kinds, readers = tpl["kinds"], tpl["readers"]
    addrs = list(kinds)
    sel_cont = [a for a in covered if kinds[a] == "c"]
    covers_discrete = any(kinds[a] != "c" for a in covered)
    unselected = [a for a in addrs if a not in sel_cont]
    lclass = "L-one" if L == 1 else "L-multi"
    fam_label = f"{tpl['name']}/sel={sel_label}/L={L}/{mode}" + ("/pyfloat" if pyfloat else "")
    model, mk_args = tpl["model"], tpl["mk_args"]
    only = os.environ.get("VERIF_C28_ONLY")  # debugging aid: run only the families whose label contains this text
    if only and only not in fam_label:
        return

    # ---- variants
    variants = []
    for vi in range(nvar):
        vr = ctx.child_rng(28, fi, vi)
        th = tpl["draw_params"](vr)
        start = tpl["draw_start"](vr)
        eps = float(np.round(math.exp(vr.uniform(math.log(0.05), math.log(0.3))), 4)) if vr.random() < 0.6 else float(np.round(math.exp(vr.uniform(math.log(1e-3), math.log(0.3))), 4))
        variants.append(dict(th=th, start=start, eps=eps, keys=[jax.random.key(int(k)) for k in vr.integers(1, 2**31 - 1, size=nkeys)], rng=vr))
    imp = lambda k, c, th: model.importance(k, c, mk_args(th))[0]  # noqa: E731
    if not pyfloat:
        imp = jax.jit(imp)
    ref_fam = Ref(tpl, sel_cont, {a: np.asarray(variants[0]["start"][a]) for a in tpl["disc"]}, jax, jnp)
    good = []
    for vi, v in enumerate(variants):
        tr = imp(jax.random.key(3000 + 17 * fi + vi), tpl["mk_constraint"](v["start"], pyfloat), jnp.asarray(v["th"], jnp.float32))
        got0 = {a: np.asarray(readers[a](tr.get_choices())) for a in addrs}
        if not all(np.array_equal(got0[a], np.asarray(v["start"][a]).astype(got0[a].dtype)) for a in addrs):
            ctx.count("skipped_start_not_installed")
            ctx.note(f"start not installed: {fam_label}")
            continue
        th32 = np.asarray(jnp.asarray(v["th"], jnp.float32), np.float64)  # the parameters the model actually saw
        rv = ref_fam.bind(th32, got0)
        q0 = _f64({a: got0[a] for a in sel_cont})
        lp0 = rv.logp(q0)
        ctx.count("start_score_checked")
        if not common.close(float(tr.get_score()), lp0, terms=8):
            ctx.violation(f"C28|op=importance|on=model|field=start-score|cond={tpl['name'].rstrip('0123456789')}", detail=f"{fam_label}: trace score {float(tr.get_score())!r} reference {lp0!r}")
            continue
        g0, g0fd = rv.grad(q0), rv.grad_fd(q0)
        if _maxdiff(g0, g0fd) > 1e-5 * (1.0 + max(float(np.max(np.abs(g0[a]))) for a in g0)):
            ctx.count("oracle_selfcheck_failed")
            ctx.note(f"oracle gradient self-check failed, variant skipped: {fam_label} {g0} {g0fd}")
            continue
        ctx.count("oracle_gradient_selfchecks")
        v.update(tr=tr, got0=got0, rv=rv, q0=q0, lp0=lp0)
        good.append(v)
    if not good:
        return

    # template for injected momenta: laid out like the selected part of the choice map
    inj0 = jtu.tree_map(lambda x: jnp.zeros_like(jnp.asarray(x, jnp.float32) if isinstance(x, float) else jnp.asarray(x)), good[0]["tr"].get_choices().filter(selection))

    def make_f(steps):
        def f(trace, key_data, inj, flag, eps):
            TAP["inject"] = (inj, flag)
            TAP["assess"] = []
            try:
                new_tr, alpha, _rd, _bwd = HMC(selection, eps, steps).edit(jax.random.wrap_key_data(key_data), trace, Diff.no_change(trace.get_args()))
            finally:
                TAP["inject"] = None
            ch = new_tr.get_choices()
            return dict(vals=[readers[a](ch) for a in addrs], alpha=alpha, score=new_tr.get_score(), p0=TAP["p0"], p0score=TAP["p0score"], pL=TAP["assess"][-1][0], trace=new_tr)

        return f

    f_L = make_f(L)
    stream = []
    jf = jax.jit(f_L) if mode == "jit" else (jax.jit(jax.vmap(f_L)) if mode == "vmap" else None)

    def run_items(items, want_stream=False):
        """items: list of (trace, key, inj tree, flag, eps) -> list of (result, stream or None)."""
        res = []
        if mode == "eager":
            for t_, k_, i_, fl_, e_ in items:
                del stream[:]
                TAP["stream"] = stream if want_stream else None
                try:
                    r_ = f_L(t_, jax.random.key_data(k_), i_, jnp.asarray(fl_), jnp.asarray(e_, jnp.float32))
                    jax.effects_barrier()
                finally:
                    TAP["stream"] = None
                res.append((r_, list(stream) if want_stream else None))
        elif mode == "jit":
            for t_, k_, i_, fl_, e_ in items:
                res.append((jf(t_, jax.random.key_data(k_), i_, jnp.asarray(fl_), jnp.asarray(e_, jnp.float32)), None))
        else:
            stack = lambda *xs: jnp.stack([jnp.asarray(x) for x in xs])  # noqa: E731
            tb = jtu.tree_map(stack, *[it[0] for it in items])
            kb = jnp.stack([jax.random.key_data(it[1]) for it in items])
            ib = jtu.tree_map(stack, *[it[2] for it in items])
            fb = jnp.asarray([bool(it[3]) for it in items])
            eb = jnp.asarray([it[4] for it in items], jnp.float32)
            rb = jf(tb, kb, ib, fb, eb)
            rb = jtu.tree_map(np.asarray, rb)
            for i in range(len(items)):
                res.append((jtu.tree_map(lambda x: x[i], rb), None))
        return res

    items = [(v["tr"], k, inj0, False, v["eps"]) for v in good for k in v["keys"]]
    owner = [v for v in good for _ in v["keys"]]
    fp0 = (tpl["name"], sel_label, min(L, 3), mode)
    try:
        outs = run_items(items, want_stream=True)
    except Exception as e:
        ctx.count("raised")
        chain = _exc_chain(e)
        mech = common.exc_mechanism(e)
        ctx.evaluation(fingerprint=fp0 + ("raises",), nontrivial=True)
        if (covers_discrete or pyfloat) and any(("grad_tree_zip" in common.exc_mechanism(x)) or ("selection_gradient" in common.exc_mechanism(x)) for x in chain):
            sig = "C28|op=edit|on=HMC|field=raises|cond=selection-covers-nondifferentiable-leaf"
        else:
            sig = f"C28|op=edit|on=HMC|field=raises|cond={mode},{mech}"
        ctx.violation(sig, detail=f"{fam_label}: {type(e).__name__}: {str(e)[:160]}", case=fam_label, mechanism=mech, selection=sel_label, start={str(a): np.asarray(x).tolist() for a, x in good[0]["start"].items()})
        return
    ctx.count("families")
    ctx.count(f"mode:{mode}:families")
    if pyfloat:
        ctx.count("families_with_python_float_choice")

    ended = []  # (variant, result, q_end, pL_obs, alpha) for the injection arms
    for (r, strm), v in zip(outs, owner):
        j = judge_item(ctx, v, r, strm, tpl, fam_label, fp0, mode, L, lclass, sel_cont, unselected, covered, covers_discrete, readers, addrs, pool)
        if j is not None:
            ended.append((v, r) + j)
    if not ended:
        return
    try:
        _reverse_and_compose(ctx, fam_label, lclass, make_f, run_items, ended, readers, addrs, sel_cont, L, do_comp, jax, jnp, srng)
    except Exception as e:
        ctx.count("raised")
        ctx.violation(f"C28|op=edit|on=HMC|field=raises|cond=injected,{common.exc_mechanism(e)}", detail=f"{fam_label}: {type(e).__name__}: {str(e)[:160]}", case=fam_label)


def judge_item(ctx, v, r, strm, tpl, fam_label, fp0, mode, L, lclass, sel_cont, unselected, covered, covers_discrete, readers, addrs, pool):
    from vf.ref import leapfrog as LF

    rv, q0, lp0, got0, eps = v["rv"], v["q0"], v["lp0"], v["got0"], v["eps"]
    label = f"{fam_label}/eps={eps}"
    new = {a: np.asarray(x) for a, x in zip(addrs, r["vals"])}
    alpha, score_end, p0score = float(r["alpha"]), float(r["score"]), float(r["p0score"])
    try:
        p0 = _f64({a: readers[a](r["p0"]) for a in sel_cont})
        pL_obs = _f64({a: readers[a](r["pL"]) for a in sel_cont})
    except Exception as e:
        ctx.count("momenta_unreadable")
        ctx.note(f"drawn momenta not readable by address ({type(e).__name__}); item skipped: {label}")
        return None
    ndim = int(sum(np.size(q0[a]) for a in sel_cont))
    nontrivial = bool(L >= 2 and eps >= 0.02 and (not tpl["quadratic"] or ndim >= 2))
    ctx.evaluation(fingerprint=fp0 + (eps >= 0.02,), nontrivial=nontrivial)
    ctx.count(f"mode:{mode}")
    ctx.count(f"template:{tpl['name'].rstrip('0123456789')}")
    ctx.count(f"L:{L}")
    ctx.count("eps>=0.05" if eps >= 0.05 else "eps<0.05")
    if covers_discrete:
        ctx.count("selection_covers_discrete")
    # ---- unselected choices (and selected discrete ones) do not move
    for a in unselected:
        ctx.count("unselected_checked")
        if not np.array_equal(new[a], got0[a]):
            what = "selected-discrete-choice" if a in covered else "unselected-choice"
            ctx.violation(f"C28|op=edit|on=HMC|field={what}|cond=moved", detail=f"{label}: {a} changed {got0[a].tolist()} -> {new[a].tolist()}", case=label)
    # ---- momenta bookkeeping
    ctx.count("momenta_score_checked")
    # over every leaf that was drawn (an implementation may also draw momenta for covered leaves
    # that never move; they cancel in alpha)
    import jax.tree_util as jtu

    k_all = LF.kinetic_logpdf({i: np.asarray(x, np.float64) for i, x in enumerate(jtu.tree_leaves(r["p0"]))})
    if not _close_scalar(p0score, k_all, terms=max(ndim, 1)):
        ctx.violation("C28|op=edit|on=HMC|field=momenta-score|cond=initial", detail=f"{label}: score returned with the momenta {p0score!r}, sum log N over the drawn momenta = {k_all!r}", case=label)
    pool["p0"].extend(np.concatenate([np.ravel(p0[a]) for a in sel_cont]).tolist())
    leaves = [np.ravel(p0[a]) for a in sel_cont]
    for i in range(len(leaves)):
        for j in range(i + 1, len(leaves)):
            if leaves[i].shape == leaves[j].shape:
                ctx.count("momenta_leaf_pairs_checked")
                if np.array_equal(leaves[i], leaves[j]):
                    ctx.violation("C28|op=edit|on=HMC|field=momenta|cond=identical-across-leaves", detail=f"{label}: momenta of {sel_cont[i]} and {sel_cont[j]} are identical: {leaves[i].tolist()}", case=label)
    # ---- reference trajectory with the observed momenta
    with np.errstate(all="ignore"):
        qL, pL, traj = LF.leapfrog(q0, p0, rv.grad, eps, L, trajectory=True)
        prng = np.random.default_rng(int(v["rng"].integers(1 << 30)))
        qLs, pLs = LF.leapfrog(_perturb(prng, q0), _perturb(prng, p0), rv.grad, eps, L)
        lpL = rv.logp(qL)
        lpLs = rv.logp(qLs)
    finite = all(np.all(np.isfinite(qL[a])) and np.all(np.isfinite(pL[a])) for a in sel_cont) and np.isfinite(lpL)
    sens_q = {a: np.abs(qLs[a] - qL[a]) for a in sel_cont}
    sens_p = {a: np.abs(pLs[a] - pL[a]) for a in sel_cont}
    ill = (not finite) or any(np.any(40 * sens_q[a] > 0.02 * (1 + np.abs(qL[a]))) or np.any(40 * sens_p[a] > 0.02 * (1 + np.abs(pL[a]))) for a in sel_cont)
    if ill:
        ctx.count("skipped_nonfinite_or_ill_conditioned")
        return None
    q_end = _f64({a: new[a] for a in sel_cont})
    traj_ok = _close_dict(q_end, qL, sens_q)
    ctx.count("trajectory_checked")
    if L >= 2:
        ctx.count("trajectory_checked_multistep")
    stale = False
    if not traj_ok:
        qS, _pS = LF.leapfrog_stale(q0, p0, rv.grad, eps, L)
        # named only when that defect model explains the observation AND is itself distinguishable from leapfrog
        stale = L >= 2 and _close_dict(q_end, qS, sens_q, terms=1, mult=10.0) and not _close_dict(qS, qL, sens_q)
        cond = "stale-first-half-kick" if stale else lclass
        ctx.violation(
            f"C28|op=edit|on=HMC|field=trajectory|cond={cond}",
            detail=f"{label}: selected values after the request { {str(a): q_end[a].tolist() for a in sel_cont} }, {L} textbook leapfrog steps give { {str(a): qL[a].tolist() for a in sel_cont} }" + (f"; an integrator that reuses the start gradient for every first half-kick gives { {str(a): qS[a].tolist() for a in sel_cont} }" if stale else ""),
            case=label,
            params=v["th"].tolist(),
            start={str(a): np.asarray(x).tolist() for a, x in got0.items()},
            momenta={str(a): p0[a].tolist() for a in sel_cont},
        )
    ctx.count("final_momentum_checked")
    mom_ok = _close_dict(pL_obs, pL, sens_p)
    if not mom_ok:
        cond = "stale-first-half-kick" if stale else lclass
        ctx.violation(f"C28|op=edit|on=HMC|field=final-momentum|cond={cond}", detail=f"{label}: final momenta { {str(a): pL_obs[a].tolist() for a in sel_cont} } reference { {str(a): pL[a].tolist() for a in sel_cont} }", case=label)
    # ---- alpha from the observed end state (energy bookkeeping, independent of the integrator)
    lp_end_obs = rv.logp(q_end)
    if np.isfinite(lp_end_obs):
        ctx.count("alpha_energy_checked")
        a_energy = (lp_end_obs + LF.kinetic_logpdf(pL_obs)) - (lp0 + LF.kinetic_logpdf(p0))
        if not _close_scalar(alpha, a_energy, terms=16):
            ctx.violation(f"C28|op=edit|on=HMC|field=alpha-energy|cond={lclass}", detail=f"{label}: alpha {alpha!r}, H(start)-H(end) on the observed end state {a_energy!r}", case=label)
        ctx.count("new_score_checked")
        if not _close_scalar(score_end, lp_end_obs, terms=8):
            ctx.violation(f"C28|op=edit|on=HMC|field=new-score|cond={lclass}", detail=f"{label}: new trace score {score_end!r}, reference log p at its choices {lp_end_obs!r}", case=label)
    # ---- alpha end to end
    a_ref = (lpL + LF.kinetic_logpdf(pL)) - (lp0 + LF.kinetic_logpdf(p0))
    a_sens = abs((lpLs + LF.kinetic_logpdf(pLs)) - (lpL + LF.kinetic_logpdf(pL)))
    ctx.count("alpha_checked")
    if traj_ok and mom_ok:
        if not _close_scalar(alpha, a_ref, sens=a_sens, terms=16):
            ctx.violation(f"C28|op=edit|on=HMC|field=alpha|cond={lclass}", detail=f"{label}: alpha {alpha!r}, reference H(start)-H(end) {a_ref!r}", case=label)
    else:
        ctx.count("alpha_not_judged_trajectory_already_wrong")
    if strm is not None:
        _check_stream(ctx, label, lclass, strm, traj, rv, readers, sel_cont, sens_q, L)
    ctx.sample({"case": label, "params": v["th"].tolist(), "start": {str(a): q0[a].tolist() for a in sel_cont}, "momenta": {str(a): p0[a].tolist() for a in sel_cont}, "end": {str(a): q_end[a].tolist() for a in sel_cont}, "reference_end": {str(a): qL[a].tolist() for a in sel_cont}, "alpha": alpha, "reference_alpha": a_ref}, limit=2)
    return q_end, pL_obs, alpha


def _check_stream(ctx, label, lclass, strm, traj, ref, readers, sel_cont, sens_q, L):
    """(position, gradient) pairs seen by selection_gradient: gradient correct at its position;
    the reference trajectory positions are all visited (names the first step that is not)."""
    pairs = []
    for v, g in strm:
        try:
            pairs.append((_f64({a: readers[a](v) for a in sel_cont}), _f64({a: readers[a](g) for a in sel_cont})))
        except Exception:
            ctx.count("stream_unreadable")
            return
    ctx.count("gradient_stream_checked", len(pairs))
    if len(pairs) < L + 1:
        ctx.violation(f"C28|op=edit|on=HMC|field=gradient-stream|cond=fewer-gradient-evaluations-than-steps", detail=f"{label}: {len(pairs)} gradient evaluations for L={L}", case=label)
    for pos, g in pairs:
        if not all(np.all(np.isfinite(pos[a])) for a in pos):
            continue
        gr = ref.grad(pos)
        ok = all(np.all(np.abs(g[a] - gr[a]) <= common.tol(g[a], gr[a], 8) + 1e-3 * np.abs(gr[a])) for a in gr)
        if not ok:
            ctx.violation("C28|op=selection_gradient|on=HMC|field=gradient|cond=not-gradient-at-position", detail=f"{label}: at {pos} gradient {g}, reference {gr}", case=label)
            break
    for k, (qk, _pk) in enumerate(traj):
        hit = any(_close_dict(pos, qk, sens_q) for pos, _ in pairs)
        if not hit:
            ctx.violation(f"C28|op=edit|on=HMC|field=gradient-stream|cond=reference-position-never-visited,{'first' if k <= 1 else 'later'}-step", detail=f"{label}: reference position after step {k} {qk} is not among the positions where the gradient was evaluated", case=label)
            break


def _reverse_and_compose(ctx, fam_label, lclass, make_f, run_items, ended, readers, addrs, sel_cont, L, do_comp, jax, jnp, srng):
    import jax.tree_util as jtu

    from vf.ref import leapfrog as LF

    key = jax.random.key(int(srng.integers(1, 2**31 - 1)))
    before = TAP["inject_mismatch"]
    rev = run_items([(r["trace"], key, jtu.tree_map(lambda x: -x, r["pL"]), True, v["eps"]) for v, r, _q, _p, _a in ended])
    if TAP["inject_mismatch"] != before:
        ctx.count("injection_structure_mismatch")
        ctx.note(f"momenta tree is not laid out like the filtered choice map; injection arms not judged: {fam_label}")
        return
    for (v, r, q_end, pL_obs, alpha), (rr, _s) in zip(ended, rev):
        rv, q0, eps = v["rv"], v["q0"], v["eps"]
        label = f"{fam_label}/eps={eps}"
        back = _f64({a: np.asarray(x) for a, x in zip(addrs, rr["vals"]) if a in sel_cont})
        p_back = _f64({a: readers[a](rr["pL"]) for a in sel_cont})
        p_used = _f64({a: readers[a](rr["p0"]) for a in sel_cont})
        p0 = _f64({a: readers[a](r["p0"]) for a in sel_cont})
        ctx.count("injection_checked")
        if not all(np.array_equal(p_used[a].astype(np.float32), (-pL_obs[a]).astype(np.float32)) for a in sel_cont):
            ctx.count("injection_failed")
            ctx.note(f"injected momenta were not the ones used; reversibility not judged: {label}")
            continue
        with np.errstate(all="ignore"):
            prng = np.random.default_rng(7)
            neg = {a: -pL_obs[a] for a in sel_cont}
            qb, pb = LF.leapfrog(q_end, neg, rv.grad, eps, L)
            qbs, pbs = LF.leapfrog(_perturb(prng, q_end), _perturb(prng, neg), rv.grad, eps, L)
        if not all(np.all(np.isfinite(qb[a])) for a in qb):
            ctx.count("skipped_nonfinite_or_ill_conditioned")
            continue
        sens = {a: np.abs(qbs[a] - qb[a]) + np.abs(qb[a] - q0[a]) for a in sel_cont}  # includes what float64 itself cannot undo
        sensp = {a: np.abs(pbs[a] - pb[a]) + np.abs(pb[a] + p0[a]) for a in sel_cont}
        if any(np.any(40 * sens[a] > 0.02 * (1 + np.abs(q0[a]))) for a in sel_cont):
            ctx.count("skipped_nonfinite_or_ill_conditioned")
            continue
        ctx.count("reversibility_checked")
        if not _close_dict(back, q0, sens):
            ctx.violation(f"C28|op=edit|on=HMC|field=reversibility|cond=position,{lclass}", detail=f"{label}: from the end state with negated final momenta the request returns to { {str(a): back[a].tolist() for a in sel_cont} }, start was { {str(a): q0[a].tolist() for a in sel_cont} }", case=label)
        elif not _close_dict(p_back, {a: -p0[a] for a in sel_cont}, sensp):
            ctx.violation(f"C28|op=edit|on=HMC|field=reversibility|cond=momentum,{lclass}", detail=f"{label}: reversed run ends with momenta { {str(a): p_back[a].tolist() for a in sel_cont} }, expected the negated initial momenta { {str(a): (-p0[a]).tolist() for a in sel_cont} }", case=label)
        elif not _close_scalar(float(rr["alpha"]), -alpha, terms=32):
            ctx.violation(f"C28|op=edit|on=HMC|field=reversibility|cond=alpha,{lclass}", detail=f"{label}: reversed alpha {float(rr['alpha'])!r}, forward alpha {alpha!r}", case=label)
    if do_comp:
        f1 = jax.jit(make_f(1))
        done = set()
        for v, r, q_end, pL_obs, alpha in ended:
            if id(v) in done:
                continue
            done.add(id(v))
            rv, q0, eps = v["rv"], v["q0"], v["eps"]
            label = f"{fam_label}/eps={eps}"
            cur_tr, cur_p, tot = v["tr"], r["p0"], 0.0
            for _ in range(L):
                s = f1(cur_tr, jax.random.key_data(key), cur_p, jnp.asarray(True), jnp.asarray(eps, jnp.float32))
                cur_tr, cur_p, tot = s["trace"], s["pL"], tot + float(s["alpha"])
            comp_q = _f64({a: np.asarray(x) for a, x in zip(addrs, s["vals"]) if a in sel_cont})
            comp_p = _f64({a: readers[a](cur_p) for a in sel_cont})
            with np.errstate(all="ignore"):
                prng = np.random.default_rng(11)
                p0 = _f64({a: readers[a](r["p0"]) for a in sel_cont})
                qa, pa = LF.leapfrog(q0, p0, rv.grad, eps, L)
                qs, ps = LF.leapfrog(_perturb(prng, q0), _perturb(prng, p0), rv.grad, eps, L)
            sens = {a: 2 * np.abs(qs[a] - qa[a]) for a in sel_cont}
            sensp = {a: 2 * np.abs(ps[a] - pa[a]) for a in sel_cont}
            ctx.count("composition_checked")
            if not (_close_dict(comp_q, q_end, sens) and _close_dict(comp_p, pL_obs, sensp)):
                ctx.violation("C28|op=edit|on=HMC|field=composition|cond=single-steps-chained-differ-from-multi-step", detail=f"{label}: {L} chained single-step requests end at { {str(a): comp_q[a].tolist() for a in sel_cont} }, one {L}-step request at { {str(a): q_end[a].tolist() for a in sel_cont} }", case=label)
            elif not _close_scalar(tot, alpha, terms=32):
                ctx.violation("C28|op=edit|on=HMC|field=composition|cond=alpha-not-additive", detail=f"{label}: sum of single-step alphas {tot!r}, multi-step alpha {alpha!r}", case=label)


# ------------------------------------------------------------------------ momenta law (statistics)


def _pvals(x):
    from scipy import stats

    x = np.asarray(x, np.float64)
    n = len(x)
    z = math.sqrt(n) * float(np.mean(x))
    p_mean = 2 * stats.norm.sf(abs(z))
    ss = float(np.sum(x * x))  # ~ chi2(n) under N(0,1) (mean known to be zero)
    p_var = 2 * min(stats.chi2.sf(ss, n), stats.chi2.cdf(ss, n))
    p_ks = stats.kstest(x, "norm").pvalue
    return {"mean": p_mean, "variance": p_var, "ks": p_ks}


def _direct_draws(ctx, jax, jnp, n_keys):
    """Momenta straight from the (wrapped) module-level sampler, vmapped over fresh keys, for a
    gradient tree with a vector and a scalar leaf.  Also checks the score returned with them."""
    import jax.tree_util as jtu

    from vf.ref import leapfrog as LF

    H = _INSTALLED["H"]
    shape_tree = {"a": jnp.zeros((4,), jnp.float32), "b": jnp.zeros((), jnp.float32)}
    keys = jax.random.split(jax.random.key(int(ctx.rng.integers(1, 2**31 - 1))), n_keys)
    draws, scores = jax.jit(jax.vmap(lambda k: H.sample_momenta(k, shape_tree)))(keys)
    draws = jtu.tree_map(np.asarray, draws)
    scores = np.asarray(scores)
    for i in range(min(8, n_keys)):
        ctx.count("direct_momenta_score_checked")
        k_ref = LF.kinetic_logpdf({"a": draws["a"][i], "b": draws["b"][i]})
        if not _close_scalar(float(scores[i]), k_ref, terms=5):
            ctx.violation("C28|op=sample_momenta|on=HMC|field=momenta-score|cond=direct-draw", detail=f"sample_momenta returned score {float(scores[i])!r} with momenta whose log N density is {k_ref!r}")
            break
    # independence across leaves / coordinates: no coordinate is a copy of another
    ctx.count("direct_momenta_copies_checked")
    if np.array_equal(draws["a"][:, 0], draws["b"]) or np.array_equal(draws["a"][:, 0], draws["a"][:, 1]):
        ctx.violation("C28|op=sample_momenta|on=HMC|field=momenta|cond=identical-across-leaves", detail="directly drawn momenta: one coordinate is a copy of another")
    return np.concatenate([np.ravel(draws["a"]), np.ravel(draws["b"])])


def momenta_law(ctx, pool, jax, jnp):
    """Stage 1: momenta observed inside HMC.edit pooled with direct draws from the sampler."""
    n_direct = ctx.pick(1500, 6000)
    x = np.concatenate([np.asarray(pool["p0"], np.float64), _direct_draws(ctx, jax, jnp, n_direct)])
    ctx.count("momenta_law_scalars", len(x))
    ctx.count("momenta_law_scalars_observed_in_edit", len(pool["p0"]))
    pv = _pvals(x)
    flagged = [k for k, p in pv.items() if p < 1e-6]
    ctx.count("momenta_law_tests", len(pv))
    if not flagged:
        return
    # stage 2: 8x the samples from an independent key stream
    x2 = _direct_draws(ctx, jax, jnp, 8 * len(x) // 5 + 1)
    pv2 = _pvals(x2)
    for k in flagged:
        ctx.count("momenta_law_stage2")
        if pv2[k] < 1e-9:
            ctx.violation(f"C28|op=sample_momenta|on=HMC|field=momenta-law|cond={k}", detail=f"drawn momenta are not N(0,1): stage-1 p={pv[k]:.3g} on {len(x)} scalars, stage-2 p={pv2[k]:.3g} on {len(x2)}")
        elif pv2[k] < 1e-3:
            ctx.count("grey")
            ctx.note(f"momenta law {k}: stage-1 p={pv[k]:.3g}, stage-2 p={pv2[k]:.3g}: grey band")


def run(ctx):
    genjax = common.import_repo()
    import jax
    import jax.numpy as jnp

    install_taps()
    pool = {"p0": []}
    n_fam = ctx.pick(16 * 8, 16 * 70)
    budget = ctx.pick(62.0, 420.0)
    for fi in ctx.my_share(n_fam):
        if ctx.elapsed() > budget:
            ctx.count("families_dropped_by_time_budget")
            continue
        run_family(ctx, fi, genjax, jax, jnp, pool)
    momenta_law(ctx, pool, jax, jnp)
    ctx.count("tap_sample_momenta_calls", TAP["n_sample"])
    ctx.count("tap_assess_momenta_calls", TAP["n_assess"])
    if ctx.counters.get("grey", 0):
        raise RuntimeError("statistical grey band: this shard is inconclusive")
