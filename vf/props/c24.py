"""C24 — distribution wrappers agree with their TFP densities.

Runtime monitors (oracle = TFP's JAX substrate constructed directly, keyword parameters only):

* score monitors: for every TFP-backed wrapper, parameter draw and GFI operation
  (simulate, assess, importance with full / empty / masked constraint, update with
  new value / new arguments / both / masked constraint) the reported score, weight and value
  are compared with sums of `tfd.D(**params).log_prob(value)`;
* sample monitors: dtype (flip -> bool), shape (sample_shape + batch + event) and support
  membership of every sampled value;
* invocation-equivalence monitors: positional, keyword (`handle_kwargs` + `(args, kwargs)`),
  mixed and closure (`dist(*a, **k)`) invocations with the same key and parameters give the same
  value and scores; bare arguments of bernoulli / categorical mean logits;
* `sample_shape=Const(shape)` handling;
* all of it eagerly (concrete mask flags) and under jit(vmap) (traced flags).

Reach is observed on the real closures (`sampler`, `logpdf`, `kwargle` both returns,
`implicit_logit_warning.wrapper` both returns) through sys.monitoring.
"""

from __future__ import annotations

import ast
import inspect
import sys
import textwrap
import warnings

import numpy as np

from vf import common
from vf.gen import c24_table as T

CONFIG = {
    "level": "exploration",
    "shards": {"quick": 16, "thorough": 16},
    "timeout_s": {"quick": 900, "thorough": 3000},
    "rule": (
        "unit = (wrapper, parameterisation form); every unit of the 46 exported TFP-backed wrappers "
        "(+ inverse_gaussian) is run in scenarios (arm in {pos, kw, mixed, closure-pos, closure-kw}, "
        "mode in {eager, jit(vmap)}, parameter batch shape in {(), (3,), (2,2)}, mid-domain or "
        "edge-of-domain parameters, optional sample_shape). One evaluation = one comparison of an "
        "observed score / weight / value / dtype / shape / support bit with the TFP oracle. "
        "non-trivial: oracle value finite and (for weights) not identically zero; distinct by "
        "(wrapper, form, arm, mode, batch-shape, operation field)."
    ),
    "reach_anchors": [
        "genjax._src.generative_functions.distributions.distribution:ExactDensity.random_weighted",
        "genjax._src.generative_functions.distributions.distribution:ExactDensity.estimate_logpdf",
        "genjax._src.generative_functions.distributions.distribution:ExactDensity.assess",
        "genjax._src.generative_functions.distributions.distribution:Distribution.generate_choice_map",
        "genjax._src.generative_functions.distributions.distribution:Distribution.edit_update_with_constraint",
    ],
    "reach_required": [
        "genjax._src.generative_functions.distributions.distribution:ExactDensity.random_weighted",
        "genjax._src.generative_functions.distributions.distribution:ExactDensity.estimate_logpdf",
        "genjax._src.generative_functions.distributions.distribution:ExactDensity.assess",
        "genjax._src.generative_functions.distributions.distribution:Distribution.generate_choice_map",
        "genjax._src.generative_functions.distributions.distribution:Distribution.edit_update_with_constraint",
    ],
    "counters_required": [
        "score_evaluations",
        "sample_evaluations",
        "equivalence_evaluations",
        "sample_shape_evaluations",
        "mode:eager",
        "mode:jit",
        "reach:tfp_distribution.sampler",
        "reach:tfp_distribution.logpdf",
        "reach:kwargle.return1",
        "reach:kwargle.return2",
        "reach:implicit_logit_warning.return1",
        "reach:implicit_logit_warning.return2",
    ],
    "assumptions": [
        "TFP (JAX substrate) log_prob / sample / dtype / batch_shape / event_shape are the oracle (the property is 'agrees with TFP')",
        "jax.jit / jax.vmap / numpy as trusted base",
        "hand-written closed-support predicates (vf/gen/c24_table.py); an out-of-support sample that TFP itself produces for the same key is TFP's numerics, not a wrapper defect",
    ],
}

P = "C24"


# ============================================================================ closure reach


class ClosureReach:
    """PY_START / LINE counters on the closures that `reach.py` cannot name by attribute path."""

    TOOL = 4

    def __init__(self):
        self.counts = {}
        self.active = False
        self._start = {}
        self._lines = {}

    @staticmethod
    def _returns(code):
        try:
            src = textwrap.dedent(inspect.getsource(code))
            tree = ast.parse(src)
        except Exception:
            return []
        fn = tree.body[0]
        outs = []

        def walk(node):
            for ch in ast.iter_child_nodes(node):
                if isinstance(ch, (ast.FunctionDef, ast.Lambda, ast.AsyncFunctionDef)):
                    continue
                if isinstance(ch, ast.Return):
                    outs.append(code.co_firstlineno + ch.lineno - 1)
                walk(ch)

        walk(fn)
        return sorted(outs)

    def start(self, genjax):
        tp = genjax.normal
        cells = {}
        lam = type(tp).sample
        for name, cell in zip(lam.__code__.co_freevars, lam.__closure__ or ()):
            cells[name] = cell.cell_contents
        kwargle = cells.get("kwargle")
        sampler = cells.get("sample")
        lam2 = type(tp).logpdf
        cells2 = dict(zip(lam2.__code__.co_freevars, [c.cell_contents for c in (lam2.__closure__ or ())]))
        logpdf = cells2.get("logpdf")
        wrapper = None
        try:
            bs = type(genjax.bernoulli).sample
            c = dict(zip(bs.__code__.co_freevars, [x.cell_contents for x in bs.__closure__]))
            smp = c["sample"]
            c2 = dict(zip(smp.__code__.co_freevars, [x.cell_contents for x in smp.__closure__]))
            wrapper = c2.get("dist")
        except Exception:
            wrapper = None
        mon = sys.monitoring
        try:
            mon.use_tool_id(self.TOOL, "vf.c24")
        except ValueError:
            return
        for label, fn in (("tfp_distribution.sampler", sampler), ("tfp_distribution.logpdf", logpdf),
                          ("kwargle", kwargle), ("implicit_logit_warning.wrapper", wrapper)):
            code = getattr(fn, "__code__", None)
            if code is None:
                continue
            self._start[code] = "reach:" + label
            ev = mon.events.PY_START
            if label in ("kwargle", "implicit_logit_warning.wrapper"):
                rets = self._returns(code)
                short = label.split(".")[0]
                self._lines[code] = {ln: f"reach:{short}.return{i + 1}" for i, ln in enumerate(rets)}
                ev |= mon.events.LINE
            mon.set_local_events(self.TOOL, code, ev)

        def on_start(code, off):
            k = self._start.get(code)
            if k:
                self.counts[k] = self.counts.get(k, 0) + 1

        def on_line(code, line):
            k = self._lines.get(code, {}).get(line)
            if k:
                self.counts[k] = self.counts.get(k, 0) + 1

        mon.register_callback(self.TOOL, mon.events.PY_START, on_start)
        mon.register_callback(self.TOOL, mon.events.LINE, on_line)
        self.active = True

    def stop(self, ctx):
        if self.active:
            mon = sys.monitoring
            for code in self._start:
                mon.set_local_events(self.TOOL, code, 0)
            mon.register_callback(self.TOOL, mon.events.PY_START, None)
            mon.register_callback(self.TOOL, mon.events.LINE, None)
            mon.free_tool_id(self.TOOL)
            self.active = False
        for k, v in self.counts.items():
            ctx.count(k, v)


# ============================================================================ scenario plumbing


def _static_kwargs(form):
    import jax.numpy as jnp

    out = {}
    for k, v in form.static.items():
        if k == "dtype":
            out[k] = getattr(jnp, v)
        else:
            out[k] = v
    return out


def _ctor(entry, tfd):
    if callable(entry.tfd):
        return lambda **kw: entry.tfd(tfd, **kw)
    return getattr(tfd, entry.tfd)


def _expected_dtype(entry, form):
    return form.static.get("dtype", entry.dtype)


def make_args(arm, form, p, sample_shape, j):
    """GFI argument package for an arm. Returns (args, uses_kwargs)."""
    from genjax import Const

    names = [n for n, _ in form.params]
    static = _static_kwargs(form)
    extra = dict(static)
    if sample_shape:
        extra["sample_shape"] = Const(tuple(sample_shape))
    if arm in ("pos", "closure-pos", "gen-pos"):
        pos = tuple(p[n] for n in names)
        if extra:
            return (pos, extra), True
        return pos, False
    if arm in ("kw", "closure-kw", "gen-kw"):
        return ((), {**{n: p[n] for n in names}, **extra}), True
    if arm == "mixed":
        return (tuple(p[n] for n in names[:j]), {**{n: p[n] for n in names[j:]}, **extra}), True
    raise KeyError(arm)


def arm_possible(arm, form):
    n = len(form.params)
    if arm in ("pos", "closure-pos", "gen-pos"):
        return form.npos == n and not form.static
    if arm == "mixed":
        return n >= 2 and form.npos >= 1
    if arm == "gen-kw":
        return not form.static  # non-array TFP kwargs (dtype=...) cannot cross a @gen trace site
    return True


_UPD = ("updV", "updA", "updVA", "updM")
OPSETS = {
    # name -> operations performed (each appears in the evidence as ops:<name>)
    "full": ("sim", "assess", "imp") + _UPD,                      # 1 sampler instance, 8 densities
    "full+fresh": ("sim", "assess", "imp", "impE", "impM") + _UPD,    # 3 sampler instances
    "light": ("sim", "assess", "imp"),
    "lponly": ("assess", "imp") + _UPD,    # no sampler: the trace comes from importance(full constraint)
    "score-only": ("assess", "imp"),
    "lp-lite": ("assess", "imp", "updVA", "updM"),
    "lp+fresh": ("assess", "imp", "impE", "impM") + _UPD,          # 2 sampler instances
    # reduced sets for wrappers whose TFP log_prob costs 4-17 CPU-seconds of compile time per instance
    "core": ("sim", "assess", "updVA"),
    "sim+assess": ("sim", "assess"),
    "sim-only": ("sim",),
    "assess-only": ("assess",),
    "imp-only": ("imp",),
    "fresh-min": ("impE",),
    "upd-min": ("updA", "updM"),
    # `dist(...) @ "x"` inside a @gen function
    "gen-full": ("sim", "assess", "imp", "updA", "updVA"),
    "gen-lp": ("assess", "imp", "updVA"),
}
LPONLY_OPS = ("assess", "imp") + _UPD


def gfi_ops(D, arm, mk, p0, p1, key, v0, v1, mflag, ops):
    """The GFI operations of one case on the REAL wrapper. Returns a flat dict of arrays.

    `mk(p)` builds the argument package of the arm from a parameter dict; `v0`: an in-support
    value used to build the starting trace when `sim` is not in `ops`."""
    import jax
    from genjax import ChoiceMap, Diff
    from genjax import ChoiceMapBuilder as C

    ks = jax.random.split(key, 6)
    out = {}
    a0, uses_kw = mk(p0)
    a1, _ = mk(p1)
    closure = arm.startswith("closure")
    wrap = C.v
    val = lambda tr: tr.get_choices().get_value()  # noqa: E731
    if closure:
        gf = D(*a0[0], **a0[1]) if uses_kw else D(*a0)
        A0, AD_same, AD_new = (), None, None
    elif arm.startswith("gen"):
        # the usual user path: `dist(*args, **kwargs) @ addr` inside a @gen function
        import genjax

        @genjax.gen
        def model(p):
            a, ukw = mk(p)
            if ukw:
                return D(*a[0], **a[1]) @ "x"
            return D(*a) @ "x"

        gf = model
        A0, AD_same, AD_new = (p0,), Diff.no_change((p0,)), Diff.unknown_change((p1,))
        wrap = lambda v: C["x"].set(v)  # noqa: E731
        val = lambda tr: tr.get_choices()["x"]  # noqa: E731
    else:
        gf = D.handle_kwargs() if uses_kw else D
        A0, AD_same, AD_new = a0, Diff.no_change(a0), Diff.unknown_change(a1)
    tr = None
    if "sim" in ops:
        tr = gf.simulate(ks[0], A0)
        out["sim.value"] = tr.get_retval()
        out["sim.score"] = tr.get_score()
        out["sim.choice"] = val(tr)
    if "assess" in ops:
        s, r = gf.assess(wrap(v1), A0)
        out["assess.score"] = s
        out["assess.value"] = r
    if "imp" in ops:
        trI, wI = gf.importance(ks[1], wrap(v1), A0)
        out["imp.weight"] = wI
        out["imp.score"] = trI.get_score()
        out["imp.value"] = trI.get_retval()
    if "impE" in ops:
        trE, wE = gf.importance(ks[2], ChoiceMap.empty(), A0)
        out["impE.weight"] = wE
        out["impE.score"] = trE.get_score()
        out["impE.value"] = trE.get_retval()
    if "impM" in ops:
        trM, wM = gf.importance(ks[3], wrap(v1).mask(mflag), A0)
        out["impM.weight"] = wM
        out["impM.score"] = trM.get_score()
        out["impM.value"] = trM.get_retval()
    if any(u in ops for u in _UPD) and not closure:  # closure.edit belongs to C32
        if tr is None:
            tr, w0 = gf.importance(ks[0], wrap(v0), A0)
            out["imp0.weight"] = w0
            out["imp0.score"] = tr.get_score()
            out["imp0.value"] = tr.get_retval()
        plan = {
            "updV": (ks[4], lambda: wrap(v1), AD_same),
            "updA": (ks[4], lambda: ChoiceMap.empty(), AD_new),
            "updVA": (ks[4], lambda: wrap(v1), AD_new),
            "updM": (ks[5], lambda: wrap(v1).mask(mflag), AD_new),
        }
        for u in _UPD:
            if u in ops:
                k, chm, argd = plan[u]
                t1, w1, _, _ = gf.update(k, tr, chm(), argd)
                out[f"{u}.weight"] = w1
                out[f"{u}.score"] = t1.get_score()
                out[f"{u}.value"] = t1.get_retval()
    return out


def tfp_sample_fn(entry, form, tfd, sample_shape):
    ctor = _ctor(entry, tfd)
    static = _static_kwargs(form)

    def f(key, p):
        return ctor(**p, **static).sample(seed=key, sample_shape=tuple(sample_shape))

    return f


# ============================================================================ judging


def _scale_close(obs, exp, mags, terms):
    """|obs-exp| <= tol where tol scales with the magnitudes of the operands `mags`."""
    obs = float(obs)
    exp = float(exp)
    if np.isnan(exp):
        return None  # skipped
    if np.isnan(obs):
        return False
    if np.isinf(exp) or np.isinf(obs):
        return obs == exp
    m = sum(abs(float(x)) for x in mags if np.isfinite(x)) + abs(exp)
    t = (common.ATOL + common.RTOL * m) * np.sqrt(max(terms, 1))
    return abs(obs - exp) <= t


def _val_equal(a, b):
    a = np.asarray(a)
    b = np.asarray(b)
    if a.shape != b.shape:
        return False
    if a.dtype == np.bool_ or b.dtype == np.bool_ or np.issubdtype(a.dtype, np.integer):
        return bool(np.array_equal(a, b))
    return bool(np.array_equal(a, b, equal_nan=True)) or common.close(a, b)


class Judge:
    def __init__(self, ctx, entry, form, arm, mode, bs, sample_shape, edge):
        self.ctx = ctx
        self.entry = entry
        self.form = form
        self.arm = arm
        self.mode = mode
        self.bs = tuple(bs)
        self.ss = tuple(sample_shape)
        self.edge = edge
        self.cond = f"{arm},{mode}" + (",sample-shape" if self.ss else "")
        self.second = None      # set per case: (iso_fn, f64_fn) lazily evaluated second opinions
        self.case_id = None
        self.unstable = set()   # case ids whose expectations were found ill-conditioned

    def sig(self, op, field):
        return f"{P}|op={op}|on={self.entry.name}|field={field}|cond={self.cond}"

    def fp(self, field):
        return (self.entry.name, self.form.tag, self.arm, self.mode, self.bs, self.ss, field)

    def witness(self, case):
        w = {"distribution": self.entry.name, "form": self.form.tag, "arm": self.arm, "mode": self.mode,
             "batch_shape": list(self.bs), "sample_shape": list(self.ss), "edge": self.edge}
        w.update(case)
        return w

    SAMPLED = ("sim.value", "impE.value", "impM.value")

    def second_opinion(self, obs, exp, deps, terms):
        """Called only when `obs` and the (cheap, flattened-batch) oracle value `exp` disagree.
        Returns "ok" / "skip" / "bad".

        The wrapper calls TFP, so a wrapper defect shows up against EVERY way of evaluating TFP,
        while float32 rounding of an ill-conditioned density (far-tail truncation normalisers,
        sums of huge terms of both signs, XLA simplifying log(exp(y)) when the sampled value lives
        in the same graph) does not.  Second opinions: (1) `iso`: TFP evaluated with exactly the
        call structure the wrapper uses (one log_prob per pair, same jit/vmap mode); (2) a float64
        evaluation, whose distance from the float32 ones measures the float32 evaluation noise."""
        if self.second is None or not deps:
            return "bad"
        iso_fn, f64_fn = self.second
        sampled = any(d.split(":", 1)[1] in self.SAMPLED for _, d in deps)
        try:
            e_iso = sum(sg * float(iso_fn(d)) for sg, d in deps)
        except Exception:
            e_iso = np.nan
        obs = float(obs)
        if np.isfinite(e_iso) and np.isfinite(obs):
            m = sum(abs(float(iso_fn(d))) for _, d in deps)
            if abs(obs - e_iso) <= (common.ATOL + common.RTOL * m) * np.sqrt(max(terms, 1)):
                self.ctx.count("agreed_with_same_structure_oracle")
                return "ok"
        elif not np.isnan(e_iso) and obs == e_iso:
            self.ctx.count("agreed_with_same_structure_oracle")
            return "ok"
        if sampled and not (np.isfinite(obs) and np.isfinite(float(exp)) and np.isfinite(e_iso)):
            # value sampled inside the same compiled graph, sitting on an overflow / support
            # boundary: in-graph and materialised evaluations legitimately differ
            self.ctx.count("skipped_nonfinite_expectation_on_sampled_value")
            return "skip"
        try:
            pairs = [(sg, f64_fn(d)) for sg, d in deps]
            e_64 = sum(sg * float(x[0]) for sg, x in pairs)
            noise = sum(float(x[1]) for _, x in pairs)
        except Exception:
            e_64, noise = np.nan, 0.0
        if np.isfinite(e_64) and np.isfinite(obs) and np.isfinite(float(exp)):
            noise += abs(float(exp) - e_64) + (abs(e_iso - e_64) if np.isfinite(e_iso) else 0.0)
            m = abs(e_64)
            if abs(obs - e_64) <= (common.ATOL + common.RTOL * m) * np.sqrt(max(terms, 1)) + 4.0 * noise:
                self.ctx.count("excused_float32_noise_of_ill_conditioned_density")
                return "skip"
        import os

        if os.environ.get("C24_DEBUG"):
            print("SECOND-OPINION bad:", self.entry.name, deps, "obs", obs, "exp", float(exp), "iso", e_iso, "f64", e_64, "noise", noise, flush=True)
        return "bad"

    def score(self, op, field, obs, exp, mags, terms, case, deps=()):
        ok = _scale_close(obs, exp, mags, terms)
        if ok is None:
            self.ctx.count("skipped_nan_expectation")
            return
        if not ok:
            verdict = self.second_opinion(obs, exp, deps, terms)
            if verdict == "skip":
                self.unstable.add(self.case_id)
                return
            ok = verdict == "ok"
            if ok:
                self.unstable.add(self.case_id)
        nontrivial = np.isfinite(exp) and not (exp == 0.0 and not mags)
        self.ctx.evaluation(self.fp(f"{op}.{field}"), nontrivial=bool(nontrivial))
        self.ctx.count("score_evaluations")
        self.ctx.count(f"op:{op}")
        if self.ss:
            self.ctx.count("sample_shape_evaluations")
        if not ok:
            self.ctx.violation(self.sig(op, field), detail=f"observed {float(obs)!r}, TFP oracle {float(exp)!r}",
                               **self.witness(case))

    def value(self, op, field, obs, exp, case):
        ok = _val_equal(obs, exp)
        self.ctx.evaluation(self.fp(f"{op}.{field}"), nontrivial=True)
        self.ctx.count("score_evaluations")
        if not ok:
            self.ctx.violation(self.sig(op, field), detail=f"observed {common.short(np.asarray(obs).tolist())}, expected {common.short(np.asarray(exp).tolist())}",
                               **self.witness(case))


def judge_case(J, out, orc, p0, v0, v1, mflag, tfp_direct, exp_shape, case):
    """Compare one case (numpy values) with the oracle."""
    ctx = J.ctx
    entry, form = J.entry, J.form
    nterms = max(1, int(np.prod(exp_shape)) if len(exp_shape) else 1)
    L0 = lambda k: float(orc.get(f"lp0:{k}", np.nan))  # noqa: E731
    L1 = lambda k: float(orc.get(f"lp1:{k}", np.nan))  # noqa: E731

    # ---- sample monitors: every freshly sampled value
    fresh = []
    if "sim.value" in out:
        fresh.append(("simulate", "sim.value"))
    if "impE.value" in out:
        fresh.append(("importance-empty", "impE.value"))
    if "impM.value" in out and not mflag:
        fresh.append(("importance-masked", "impM.value"))
    want_dt = _expected_dtype(entry, form)
    pred = T.SUPPORT[entry.support]
    for op, k in fresh:
        v = np.asarray(out[k])
        ctx.count("sample_evaluations", 3)
        ctx.count(f"samples:{entry.name}")
        if J.ss:
            ctx.count("sample_shape_evaluations")
        ctx.evaluation(J.fp(f"{op}.sample"), nontrivial=True, n=3)
        if str(v.dtype) != want_dt:
            ctx.violation(J.sig(op, "dtype"), detail=f"sample dtype {v.dtype}, documented {want_dt}", **J.witness(case))
        if tuple(v.shape) != tuple(exp_shape):
            ctx.violation(J.sig(op, "shape"), detail=f"sample shape {tuple(v.shape)}, TFP sample_shape+batch+event {tuple(exp_shape)}", **J.witness(case))
            continue
        try:
            inside = pred(v, p0)
        except Exception:
            inside = True
            ctx.count("support_predicate_error")
        if not inside:
            direct = tfp_direct(k) if not J.arm.startswith("gen") else None  # a @gen function derives sub-keys
            if direct is not None and np.array_equal(np.asarray(direct), v, equal_nan=True):
                ctx.count("support_edge_same_as_tfp_direct")
            elif J.edge:
                # edge-of-domain parameters: float32 under/overflow inside TFP's sampler
                ctx.count("support_edge_unexcused_at_edge_params")
            else:
                ctx.violation(J.sig(op, "support"), detail=f"sample {common.short(v.tolist())} outside support '{entry.support}'", **J.witness(case))

    # ---- score monitors
    ctx.count(f"cases:{entry.name}")
    if "sim.value" in out:
        J.value("simulate", "choice", out["sim.choice"], out["sim.value"], case)
        J.score("simulate", "score", out["sim.score"], L0("sim.value"), [], nterms, case, [(1, "lp0:sim.value")])
    if "assess.score" in out:
        J.score("assess", "score", out["assess.score"], L0("v1"), [], nterms, case, [(1, "lp0:v1")])
        J.value("assess", "retval", out["assess.value"], v1, case)
    if "imp.weight" in out:
        J.score("importance", "weight", out["imp.weight"], L0("v1"), [], nterms, case, [(1, "lp0:v1")])
        J.score("importance", "score", out["imp.score"], L0("v1"), [], nterms, case, [(1, "lp0:v1")])
        J.value("importance", "value", out["imp.value"], v1, case)
    if "imp0.weight" in out:
        J.score("importance", "weight", out["imp0.weight"], L0("v0"), [], nterms, case, [(1, "lp0:v0")])
        J.score("importance", "score", out["imp0.score"], L0("v0"), [], nterms, case, [(1, "lp0:v0")])
        J.value("importance", "value", out["imp0.value"], v0, case)
    if "impE.weight" in out:
        J.score("importance-empty", "weight", out["impE.weight"], 0.0, [], 1, case)
        J.score("importance-empty", "score", out["impE.score"], L0("impE.value"), [], nterms, case, [(1, "lp0:impE.value")])
    if "impM.weight" in out:
        if mflag:
            J.score("importance-masked", "weight", out["impM.weight"], L0("v1"), [], nterms, case, [(1, "lp0:v1")])
            J.score("importance-masked", "score", out["impM.score"], L0("v1"), [], nterms, case, [(1, "lp0:v1")])
            J.value("importance-masked", "value", out["impM.value"], v1, case)
        else:
            J.score("importance-masked", "weight", out["impM.weight"], 0.0, [], 1, case)
            J.score("importance-masked", "score", out["impM.score"], L0("impM.value"), [], nterms, case, [(1, "lp0:impM.value")])
    if not any(f"{u}.weight" in out for u in _UPD):
        return
    if "sim.value" in out:
        old_val = out["sim.value"]
        old0 = L0("sim.value")
        old1 = float(orc.get("lp1:sim.value", np.nan))
        src = "sim.value"
    else:
        old_val = v0
        old0, old1 = L0("v0"), L1("v0")
        src = "v0"

    def upd(op, key, new_lp, new_val, newdep):
        if f"{key}.weight" not in out:
            return
        with np.errstate(invalid="ignore"):
            J.score(op, "weight", out[f"{key}.weight"], new_lp - old0, [new_lp, old0], nterms, case, [(1, newdep), (-1, f"lp0:{src}")])
        J.score(op, "score", out[f"{key}.score"], new_lp, [], nterms, case, [(1, newdep)])
        J.value(op, "value", out[f"{key}.value"], new_val, case)

    upd("update-value", "updV", L0("v1"), v1, "lp0:v1")
    upd("update-args", "updA", old1, old_val, f"lp1:{src}")
    upd("update-value-args", "updVA", L1("v1"), v1, "lp1:v1")
    if mflag:
        upd("update-masked", "updM", L1("v1"), v1, "lp1:v1")
    else:
        upd("update-masked", "updM", old1, old_val, f"lp1:{src}")


def judge_equivalence(ctx, entry, form, armA, armB, mode, bs, ss, outA, outB, case):
    """Same key, same parameters, different invocation style -> same observables."""
    cond = f"{armA}-vs-{armB},{mode}" + (",sample-shape" if ss else "")
    same_origin = ("sim.value" in outA) == ("sim.value" in outB)
    gen = armA.startswith("gen") or armB.startswith("gen")
    for k in outA:
        if k not in outB:
            continue
        if k.startswith("upd") and not same_origin:
            continue  # updates started from different traces (simulate vs fully constrained)
        if gen and (k.startswith("sim") or (k.startswith("upd") and "sim.value" in outA)):
            continue  # a @gen function derives sub-keys: sampled values legitimately differ
        a, b = np.asarray(outA[k]), np.asarray(outB[k])
        ctx.count("equivalence_evaluations")
        ctx.evaluation((entry.name, form.tag, armA, armB, mode, tuple(bs), tuple(ss), k), nontrivial=True)
        if k.endswith("value") or k.endswith("choice"):
            ok = _val_equal(a, b) and a.dtype == b.dtype
        else:
            if np.isnan(a) and np.isnan(b):
                ok = True
            else:
                ok = common.close(a, b, rtol=2 * common.RTOL, atol=2 * common.ATOL)
        if not ok:
            op, field = k.split(".")
            ctx.violation(f"{P}|op={op}|on={entry.name}|field={field}-equivalence|cond={cond}",
                          detail=f"{armA}: {common.short(a.tolist())}  {armB}: {common.short(b.tolist())}",
                          distribution=entry.name, form=form.tag, mode=mode, **case)


# ============================================================================ running a scenario


def _np_tree(x):
    import jax

    return jax.tree_util.tree_map(np.asarray, x)


def P0j(ps, i):
    return {k: v[i] for k, v in ps.items()}


def get_wrapper(genjax, name):
    D = getattr(genjax, name, None)
    if D is None:
        import genjax._src.generative_functions.distributions.tensorflow_probability as tp

        D = getattr(tp, name)
    return D


def oracle_merged_fn(entry, form, tfd, bs, ss):
    """K (parameters, value) pairs -> K summed log-probs through ONE TFP log_prob instance: the
    pairs are laid side by side along a flattened batch axis (log_prob is elementwise over the
    batch), so that compile-heavy densities are built once per run."""
    import jax.numpy as jnp

    ctor = _ctor(entry, tfd)
    static = _static_kwargs(form)
    names = [nm for nm, _ in form.params]
    nb = len(bs)
    B = int(np.prod(bs)) if nb else 1
    ss = tuple(ss)

    def f(plist, vlist):
        K = len(vlist)
        pc = {}
        for nm in names:
            pc[nm] = jnp.concatenate([jnp.reshape(p[nm], (B,) + tuple(p[nm].shape[nb:])) for p in plist], 0)
        vs = [jnp.reshape(v, ss + (B,) + tuple(v.shape[len(ss) + nb:])) for v in vlist]
        vc = jnp.concatenate(vs, axis=len(ss))
        lp = ctor(**pc, **static).log_prob(vc)  # ss + (K*B,)
        lp = jnp.reshape(lp, ss + (K, B))
        lp = jnp.moveaxis(lp, len(ss), 0)
        return jnp.sum(jnp.reshape(lp, (K, -1)), axis=1)

    return f


def run_scenario(ctx, genjax, tfd, entry, form, sc, sid):
    """One scenario = one set of `n` parameter draws / keys / constraint values, and several runs
    (arm, mode, opset, case indices) of the real wrapper on it."""
    import jax
    import jax.numpy as jnp

    bs, ss, edge, n = tuple(sc["bs"]), tuple(sc["ss"]), sc["edge"], sc["n"]
    use_vmap = sc.get("vmap", True)
    D = get_wrapper(genjax, entry.name)
    rng = ctx.child_rng(sid)
    names = [nm for nm, _ in form.params]
    P0, P1 = [], []
    for _ in range(n):
        p0 = T.draw_params(form, rng, bs, edge)
        keep = p0 if rng.random() < 0.6 else None
        P0.append(p0)
        P1.append(T.draw_params(form, rng, bs, edge, keep=keep))
    stack = lambda ps: {k: jnp.asarray(np.stack([p[k] for p in ps])) for k in names}  # noqa: E731
    p0s, p1s = stack(P0), stack(P1)
    seeds = rng.integers(0, 2**31 - 1, size=(n, 2))
    flags = rng.random(size=n) < 0.5
    j = int(rng.integers(1, form.npos + 1)) if form.npos >= 1 else 0
    j = min(j, len(names) - 1) if len(names) >= 2 else j

    samp = tfp_sample_fn(entry, form, tfd, ss)
    orc = oracle_merged_fn(entry, form, tfd, bs, ss)

    # ---- oracle side first: can TFP itself build this distribution here?
    try:
        d0 = _ctor(entry, tfd)(**P0j(p0s, 0), **_static_kwargs(form))
        exp_shape = tuple(ss) + tuple(d0.batch_shape) + tuple(d0.event_shape)
        want_dt = _expected_dtype(entry, form)
        # constraint values: in-support numpy draws (no TFP sampler needed on the oracle side)
        v0s = np.stack([T.gen_value(entry.support, rng, P0[i], exp_shape, want_dt) for i in range(n)])
        v1s = np.stack([T.gen_value(entry.support, rng, P0[i], exp_shape, want_dt, boundary=edge) for i in range(n)])
    except Exception as e:  # TFP's substrate cannot do it: inconclusive for this name
        ctx.count(f"tfp_unsupported:{entry.name}")
        ctx.note(f"TFP cannot build {entry.name}/{form.tag} bs={bs} ss={ss}: {type(e).__name__}: {str(e)[:120]}")
        return False
    _direct = {}

    def tfp_direct(mode, i, which="sim.value"):
        """What TFP itself draws for the key that the operation hands to the sampler (same mode).
        Only computed when a sample fell outside the support: identical => TFP's numerics."""
        ki = {"sim.value": 0, "impE.value": 2, "impM.value": 3}[which]
        try:
            if mode == "jit" and use_vmap:
                if which not in _direct:
                    _direct[which] = np.asarray(jax.jit(jax.vmap(lambda s1, p0: samp(jax.random.split(jax.random.key(s1), 6)[ki], p0)))(jnp.asarray(seeds[:, 0]), p0s))
                return _direct[which][i]
            return np.asarray(samp(jax.random.split(jax.random.key(int(seeds[i, 0])), 6)[ki], P0j(p0s, i)))
        except Exception:
            return None

    ctor_direct = _ctor(entry, tfd)
    static_direct = _static_kwargs(form)

    def make_second(mode, cases, idx):
        """Lazy second opinions for one run: iso(dep)[t], f64(dep, t) (see Judge.second_opinion)."""
        cache = {}

        def pieces(dep):
            which, src = dep.split(":", 1)
            ps = p0s if which == "lp0" else p1s
            vals = [v0s[i] if src == "v0" else (v1s[i] if (src == "v1" or src not in c) else np.asarray(c[src])) for c, i in zip(cases, idx)]
            return ps, vals

        def one(p, v):
            return jnp.sum(ctor_direct(**p, **static_direct).log_prob(v))

        def iso(dep):
            if dep not in cache:
                ps, vals = pieces(dep)
                if mode == "jit" and use_vmap:
                    sub = {k: x[jnp.asarray(idx)] for k, x in ps.items()}
                    r = jax.jit(jax.vmap(one))(sub, jnp.asarray(np.stack(vals)))
                elif mode == "jit":
                    fn = jax.jit(one)
                    r = [fn(P0j(ps, i), jnp.asarray(v)) for i, v in zip(idx, vals)]
                else:
                    r = [one(P0j(ps, i), jnp.asarray(v)) for i, v in zip(idx, vals)]
                cache[dep] = np.asarray(r, dtype=np.float64)
            return cache[dep]

        float_params = [nm for nm, kind in form.params if kind != "count"]
        f64cache = {}

        def f64(dep, t):
            """(float64 value, float32 noise estimate) for case position t: noise = how far float32
            evaluations of TFP's formula sit from float64 ones on inputs within a float32 ulp, plus how
            far the float64 value itself moves under such input perturbations (conditioning)."""
            from jax.experimental import enable_x64

            if (dep, t) in f64cache:
                return f64cache[(dep, t)]
            ps, vals = pieces(dep)
            i = idx[t]
            prng = np.random.default_rng([int(seeds[i, 0]), 99])
            p32 = {k: np.asarray(x[i]) for k, x in ps.items()}
            v32 = np.asarray(vals[t])
            isf = np.issubdtype(v32.dtype, np.floating)
            xs = [(p32, v32)]
            for _ in range(5):
                pp = dict(p32)
                for nm in float_params:
                    pp[nm] = (p32[nm] * (1.0 + prng.uniform(-1.2e-7, 1.2e-7, size=np.shape(p32[nm])))).astype(np.float32)
                vv = (v32 * (1.0 + prng.uniform(-1.2e-7, 1.2e-7, size=np.shape(v32)))).astype(v32.dtype) if isf and entry.support not in ("countvec", "upto_count", "nat", "int", "pos_int") else v32
                xs.append((pp, vv))
            l32 = [float(one({k: jnp.asarray(x) for k, x in p.items()}, jnp.asarray(v))) for p, v in xs]
            l64 = []
            with enable_x64():
                for p, v in xs:
                    p64 = {k: jnp.asarray(np.asarray(x, dtype=np.float64)) for k, x in p.items()}
                    v64 = jnp.asarray(v.astype(np.float64) if isf else v)
                    l64.append(float(jnp.sum(ctor_direct(**p64, **static_direct).log_prob(v64))))
            fin = [(a, b) for a, b in zip(l32, l64) if np.isfinite(a) and np.isfinite(b)]
            noise = 0.0
            if fin:
                noise = max(abs(a - b) for a, b in fin) + max(abs(b - l64[0]) for _, b in fin if np.isfinite(l64[0])) if np.isfinite(l64[0]) else max(abs(a - b) for a, b in fin)
            f64cache[(dep, t)] = (l64[0], noise)
            return f64cache[(dep, t)]

        return iso, f64

    def sys_fn(arm, ops):
        def f(s1, p0, p1, v0, v1, mflag):
            key = jax.random.key(s1)
            return gfi_ops(D, arm, lambda p: make_args(arm, form, p, ss, j), p0, p1, key, v0, v1, mflag, ops)

        return f

    def oracle_lps(mode, cases, idx, ops_used):
        """dict name -> array over idx of summed TFP log-probs, for exactly the pairs the judge needs."""
        def need_for(c0):  # (name, which params, value source)
            need = []
            anyupd = any(f"{u}.weight" in c0 for u in _UPD)
            if "sim.value" in c0:
                need.append(("lp0:sim.value", 0, "sim.value"))
                if anyupd:
                    need.append(("lp1:sim.value", 1, "sim.value"))
            if "imp0.weight" in c0:
                need.append(("lp0:v0", 0, "v0"))
                need.append(("lp1:v0", 1, "v0"))
            if any(k in c0 for k in ("assess.score", "imp.weight", "impM.weight", "updV.weight")):
                need.append(("lp0:v1", 0, "v1"))
            if any(k in c0 for k in ("updVA.weight", "updM.weight")):
                need.append(("lp1:v1", 1, "v1"))
            if "impE.value" in c0:
                need.append(("lp0:impE.value", 0, "impE.value"))
            if "impM.value" in c0:
                need.append(("lp0:impM.value", 0, "impM.value"))
            return need

        need = need_for(cases[0])

        def val(src, c, i):
            if src == "v0":
                return v0s[i]
            if src == "v1":
                return v1s[i]
            return c[src]

        if mode == "jit" and use_vmap:
            plist = [(p0s if w == 0 else p1s) for _, w, _ in need]
            plist = [{k: v[jnp.asarray(idx)] for k, v in p.items()} for p in plist]
            vlist = [jnp.asarray(np.stack([val(src, c, i) for c, i in zip(cases, idx)])) for _, _, src in need]
            r = np.asarray(jax.jit(jax.vmap(orc))(plist, vlist))  # (len(idx), K)
            return [{nm: r[t, q] for q, (nm, _, _) in enumerate(need)} for t in range(len(idx))]
        fn = jax.jit(orc) if mode == "jit" else orc
        outl = []
        for c, i in zip(cases, idx):
            # an eager case may lack fields that case 0 has (later eager cases skip the samplers)
            nd = need_for(c)
            plist = [P0j(p0s if w == 0 else p1s, i) for _, w, _ in nd]
            vlist = [jnp.asarray(val(src, c, i)) for _, _, src in nd]
            r = np.asarray(fn(plist, vlist))
            outl.append({nm: r[q] for q, (nm, _, _) in enumerate(nd)})
        return outl

    done = []
    unstable_cases = set()
    for run in sc["runs"]:
        arm, mode, opset = run["arm"], run["mode"], run["ops"]
        ops = OPSETS[opset]
        idx = list(range(n)) if mode == "jit" else list(range(min(n, run.get("cases", 1))))
        J = Judge(ctx, entry, form, arm, mode if (use_vmap or mode == "eager") else "jit-novmap", bs, ss, edge)
        try:
            with warnings.catch_warnings(record=True) as wlist:
                warnings.simplefilter("always")
                if mode == "jit" and use_vmap:
                    o = jax.jit(jax.vmap(sys_fn(arm, ops)))(jnp.asarray(seeds[:, 0]), p0s, p1s, jnp.asarray(v0s), jnp.asarray(v1s), jnp.asarray(flags))
                    o = _np_tree(o)
                    cases = [{k: v[i] for k, v in o.items()} for i in idx]
                elif mode == "jit":
                    fn = jax.jit(sys_fn(arm, ops))
                    cases = [_np_tree(fn(jnp.asarray(seeds[i, 0]), P0j(p0s, i), P0j(p1s, i), jnp.asarray(v0s[i]), jnp.asarray(v1s[i]), jnp.asarray(bool(flags[i])))) for i in idx]
                else:
                    cases = []
                    for i in idx:
                        # concrete python bool flag on even cases, concrete 0-d array flag on odd ones
                        fl = bool(flags[i]) if i % 2 == 0 else jnp.asarray(bool(flags[i]))
                        # the first eager case does everything; later ones skip the (very slow, eager)
                        # TFP samplers and start from a fully constrained trace
                        eops = ops if i == 0 else tuple(x for x in ops if x in LPONLY_OPS)
                        if i > 0 and isinstance(fl, bool) and fl and "impM" in ops:
                            eops = eops + ("impM",)  # python True: plain constraint, no lax.cond, no sampler
                        o = sys_fn(arm, eops)(int(seeds[i, 0]), P0j(p0s, i), P0j(p1s, i), jnp.asarray(v0s[i]), jnp.asarray(v1s[i]), fl)
                        cases.append(_np_tree(o))
            dep = [w for w in wlist if issubclass(w.category, DeprecationWarning) and "bare argument" in str(w.message)]
            if form.bare and arm in ("pos", "closure-pos", "gen-pos"):
                ctx.count("bare_argument_invocations")
                if dep:
                    ctx.count("bare_argument_deprecation_warning_seen")
            elif dep:
                ctx.count("deprecation_warning_on_keyword_invocation")
        except Exception as e:
            ctx.count("score_evaluations")
            ctx.evaluation((entry.name, form.tag, arm, mode, "raises"), nontrivial=True)
            ctx.violation(f"{P}|op=gfi|on={entry.name}|field=raises|cond={J.cond},{common.exc_mechanism(e)}",
                          detail=f"{type(e).__name__}: {str(e)[:300]}", ops=list(ops), **J.witness({"params": _np_tree(P0j(p0s, 0))}))
            continue

        # ---- oracle log-probs for every value that appeared
        try:
            lps = oracle_lps(mode, cases, idx, ops)
        except Exception as e:
            # the oracle cannot score what the wrapper returned (e.g. wrong shape): judge shapes only
            ctx.note(f"oracle could not score {entry.name}/{form.tag}/{arm}: {type(e).__name__}: {str(e)[:160]}")
            lps = None
        iso_f, f64_f = make_second(mode, cases, idx)
        for t, (c, i) in enumerate(zip(cases, idx)):
            case = {"params": _np_tree(P0j(p0s, i)), "new_params": _np_tree(P0j(p1s, i)), "seed_pair": [int(seeds[i, 0]), int(seeds[i, 1])],
                    "constraint_value": np.asarray(v1s[i]), "mask_flag": bool(flags[i])}
            if lps is None:
                ctx.count(f"oracle_failed:{entry.name}")
                if "sim.value" in c:
                    v = np.asarray(c["sim.value"])
                    ctx.count("sample_evaluations")
                    ctx.evaluation(J.fp("simulate.shape"), nontrivial=True)
                    if tuple(v.shape) != exp_shape:
                        ctx.violation(J.sig("simulate", "shape"), detail=f"sample shape {tuple(v.shape)}, TFP {exp_shape}", **J.witness(case))
                continue
            J.second = ((lambda d, tt=t: iso_f(d)[tt]), (lambda d, tt=t: f64_f(d, tt)))
            J.case_id = i
            judge_case(J, c, lps[t], _np_tree(P0j(p0s, i)), np.asarray(v0s[i]), np.asarray(v1s[i]), bool(flags[i]), (lambda which, m=mode, ii=i: tfp_direct(m, ii, which)), exp_shape, case)
        k = len(idx)
        ctx.count(f"mode:{mode}", k)
        if mode == "jit":
            ctx.count("mode:jit(vmap)" if use_vmap else "mode:jit(no vmap)", k)
        ctx.count(f"arm:{arm}", k)
        ctx.count(f"ops:{opset}", k)
        ctx.count(f"shape:bs{len(bs)}d", k)
        if edge:
            ctx.count("edge_param_cases", k)
        if ss:
            ctx.count("sample_shape_cases", k)
        if "sim.value" in cases[0]:
            ctx.sample({"distribution": entry.name, "form": form.tag, "arm": arm, "mode": mode, "batch_shape": list(bs),
                        "sample_shape": list(ss), "params": _np_tree(P0j(p0s, 0)), "sim_value": cases[0]["sim.value"],
                        "sim_score": float(cases[0]["sim.score"]), "tfp_log_prob": None if lps is None else float(lps[0]["lp0:sim.value"])}, limit=3)
        done.append((arm, mode, idx, cases))
        unstable_cases |= J.unstable

    # ---- invocation equivalence: same mode, same cases, different arm
    for a_i in range(len(done)):
        for b_i in range(a_i + 1, len(done)):
            armA, modeA, idxA, casesA = done[a_i]
            armB, modeB, idxB, casesB = done[b_i]
            if modeA != modeB or armA == armB:
                continue
            for i in sorted(set(idxA) & set(idxB)):
                if i in unstable_cases:
                    ctx.count("equivalence_skipped_ill_conditioned")
                    continue
                case = {"params": _np_tree(P0j(p0s, i)), "seed_pair": [int(seeds[i, 0]), int(seeds[i, 1])]}
                judge_equivalence(ctx, entry, form, armA, armB, modeA, bs, ss, casesA[idxA.index(i)], casesB[idxB.index(i)], case)
    return True


# ============================================================================ bare-argument semantics


def bare_argument_check(ctx, genjax, tfd):
    """bernoulli(x) / categorical(x) with a bare positional argument mean logits (documented) and
    differ from probs=; flip(p) means probs."""
    import jax.numpy as jnp
    from genjax import ChoiceMapBuilder as C

    x = jnp.float32(0.3)
    with warnings.catch_warnings(record=True) as wl:
        warnings.simplefilter("always")
        s_bare, _ = genjax.bernoulli.assess(C.v(jnp.int32(1)), (x,))
    s_kwl, _ = genjax.bernoulli.handle_kwargs().assess(C.v(jnp.int32(1)), ((), {"logits": x}))
    s_kwp, _ = genjax.bernoulli.handle_kwargs().assess(C.v(jnp.int32(1)), ((), {"probs": x}))
    s_flip, _ = genjax.flip.assess(C.v(jnp.asarray(True)), (x,))
    e_log = float(tfd.Bernoulli(logits=x).log_prob(1))
    e_prob = float(tfd.Bernoulli(probs=x).log_prob(1))
    for nm, obs, exp in (("bare-is-logits", s_bare, e_log), ("logits-kw", s_kwl, e_log), ("probs-kw", s_kwp, e_prob)):
        ctx.count("score_evaluations")
        ctx.evaluation(("bare", "bernoulli", nm), nontrivial=True)
        if not common.close(obs, exp):
            ctx.violation(f"{P}|op=assess|on=bernoulli|field=score|cond={nm}", detail=f"observed {float(obs)}, TFP {exp}")
    ctx.count("score_evaluations")
    ctx.evaluation(("bare", "flip", "probs"), nontrivial=True)
    if not common.close(s_flip, e_prob):
        ctx.violation(f"{P}|op=assess|on=flip|field=score|cond=argument-is-probs", detail=f"observed {float(s_flip)}, TFP {e_prob}")
    lg = jnp.asarray([0.2, -0.7, 1.1], dtype=jnp.float32)
    with warnings.catch_warnings(record=True) as wl2:
        warnings.simplefilter("always")
        c_bare, _ = genjax.categorical.assess(C.v(jnp.int32(2)), (lg,))
    e = float(tfd.Categorical(logits=lg).log_prob(2))
    ctx.count("score_evaluations")
    ctx.evaluation(("bare", "categorical", "logits"), nontrivial=True)
    if not common.close(c_bare, e):
        ctx.violation(f"{P}|op=assess|on=categorical|field=score|cond=bare-is-logits", detail=f"observed {float(c_bare)}, TFP {e}")
    seen = sum(1 for w in list(wl) + list(wl2) if issubclass(w.category, DeprecationWarning))
    ctx.count("bare_argument_deprecation_warning_seen", seen)


# ============================================================================ plan


def scenarios_for(ctx, entry, form, uid):
    """Ordered scenario list. Each: dict(bs, ss, edge, n, pri, vmap, runs=[dict(arm, mode, ops, cases)]).

    Cost model (measured, see vf/gen/c24_table.py COST): a TFP gamma-family / rejection *sampler*
    costs 2-20 CPU-seconds of compile time per instance under jit and seconds per call eagerly; a
    few *log_prob*s (beta_quotient, non_central_chi2, skellam, von_mises_fisher, lambert_w_normal)
    cost 1-17 s per instance and explode under vmap. pri 0 always runs; pri >= 1 run while the
    shard's time budget lasts, in an order that changes with unit and seed."""
    rng = ctx.child_rng(7000 + uid)
    q = ctx.quick()
    cost = entry.cost
    N = ctx.pick(20, 300)
    arms = (["pos"] if arm_possible("pos", form) else []) + ["kw"] + (["mixed"] if arm_possible("mixed", form) else [])
    bshapes = [(), (3,), (2, 2)]
    pick = lambda xs: xs[int(rng.integers(0, len(xs)))]  # noqa: E731
    R = lambda arm, mode, ops, cases=1: dict(arm=arm, mode=mode, ops=ops, cases=cases)  # noqa: E731
    out = []
    base = "pos" if "pos" in arms else "kw"
    cl = [a for a in ("closure-pos", "closure-kw") if arm_possible(a, form)]
    first = (uid + ctx.seed) % len(arms)
    order = arms[first:] + arms[:first]

    if cost == "lpheavy":
        # natively batched parameters (batch shape (4,) or (2,2)) instead of vmap; few densities per run
        nb = ctx.pick(3, 12)
        bsA = pick(bshapes[1:])
        out.append(dict(bs=bsA, ss=(), edge=False, n=nb, pri=0, vmap=False,
                        runs=[R(order[0], "jit", "sim+assess")] + [R(a, "jit", "assess-only") for a in order[1:2]]))
        sec = [
            dict(bs=bsA, ss=(), edge=False, n=nb, vmap=False, runs=[R(pick(arms), "jit", "upd-min")]),
            dict(bs=pick(bshapes), ss=(), edge=True, n=nb, vmap=False, runs=[R(pick(arms), "jit", "imp-only"), R(pick(arms), "jit", "fresh-min")]),
            dict(bs=pick(bshapes[:2]), ss=pick([(2,), (2, 3)]), edge=False, n=nb, vmap=False, runs=[R(pick(arms), "jit", "sim-only")]),
            dict(bs=pick(bshapes), ss=(), edge=False, n=nb, vmap=False, runs=[R(base, "jit", "assess-only"), R(cl[0], "jit", "sim+assess")] + [R(a, "jit", "assess-only") for a in cl[1:]] + [R(a, "jit", "assess-only") for a in ("gen-kw",) if arm_possible(a, form)]),
            dict(bs=pick(bshapes), ss=(), edge=False, n=1, vmap=False, runs=[R(pick(arms), "eager", "sim+assess", cases=1)]),
        ]
        if not q:
            sec += [
                dict(bs=(), ss=(), edge=False, n=nb, vmap=False, runs=[R(order[0], "jit", "core")] + [R(a, "jit", "sim+assess") for a in order[1:]]),
                dict(bs=(3,), ss=(), edge=True, n=nb, vmap=False, runs=[R(a, "jit", "upd-min") for a in arms[:2]]),
                dict(bs=(3,), ss=(), edge=False, n=nb, vmap=False, runs=[R(pick(arms), "jit", "full+fresh")]),
                dict(bs=(2, 2), ss=(2,), edge=True, n=nb, vmap=False, runs=[R(a, "jit", "sim+assess") for a in arms[:2]]),
                dict(bs=(), ss=(), edge=False, n=2, vmap=False, runs=[R(pick(arms), "eager", "core", cases=2)]),
            ]
            if entry.name != "beta_quotient":  # 147 CPU-s of vmap lowering per density instance
                sec.append(dict(bs=(), ss=(), edge=False, n=40, vmap=True, runs=[R(pick(arms), "jit", "sim+assess")]))
        perm = rng.permutation(len(sec))
        for rank, k in enumerate(perm):
            sec[int(k)]["pri"] = 1 + rank
            out.append(sec[int(k)])
        return out

    heavy = cost == "heavy"
    # A. scalar parameters: arms under jit(vmap) -- one with simulate + all operations, the other(s)
    #    light (or, for heavy samplers, from a fully constrained trace: no sampler) -- plus eager cases
    if q:
        order = order[:2]
    second = "lp-lite" if (q and heavy) else ("light" if q else "full")
    runsA = [R(order[0], "jit", "full")] + [R(a, "jit", second) for a in order[1:]]
    if q and heavy:
        runsA.append(R(pick(order), "eager", "lponly", cases=3))
    else:
        runsA.append(R(pick(order), "eager", "full", cases=ctx.pick(4, 8)))
    out.append(dict(bs=(), ss=(), edge=False, n=N, pri=0, runs=runsA))

    secondary = []
    # B. batched + edge-of-domain parameters, fresh-sample operations (empty / masked constraints)
    secondary.append(dict(bs=pick(bshapes[1:]), ss=(), edge=True, n=N, runs=[R(pick(arms), "jit", "lp+fresh" if (q and heavy) else "full+fresh")]))
    # C. sample_shape
    c_mode = "jit" if (heavy or rng.random() < 0.7) else "eager"
    secondary.append(dict(bs=pick(bshapes[:2]), ss=pick([(2,), (2, 3), (1,)]), edge=False, n=ctx.pick(8, 100),
                          runs=[R(pick(arms), c_mode, "full", cases=3)]))
    # D. closures dist(*a, **k): simulate / assess / importance (closure.edit belongs to C32)
    d_mode = "jit" if (heavy or rng.random() < 0.5) else "eager"
    if q and heavy:
        runsD = [R(base, d_mode, "score-only", cases=2), R(cl[0], d_mode, "light", cases=2)] + [R(a, d_mode, "score-only", cases=2) for a in cl[1:]]
    else:
        runsD = [R(base, d_mode, "light", cases=2), R(cl[0], d_mode, "light", cases=2)] + [R(a, d_mode, "score-only", cases=2) for a in cl[1:]]
    gens = [a for a in ("gen-pos", "gen-kw") if arm_possible(a, form)]
    if gens:
        runsD.append(R(pick(gens), d_mode, "gen-lp" if (q and heavy) else "gen-full", cases=2))
    secondary.append(dict(bs=pick(bshapes), ss=(), edge=False, n=ctx.pick(4, 40), runs=runsD))
    if q and heavy:
        # E. eager simulate (an eager TFP gamma-family sampler call costs seconds)
        secondary.append(dict(bs=pick(bshapes), ss=(), edge=False, n=3, runs=[R(pick(arms), "eager", "full", cases=3)]))
    perm = rng.permutation(len(secondary))
    for rank, k in enumerate(perm):
        sc = secondary[int(k)]
        sc["pri"] = 1 + rank
        out.append(sc)

    if not q:
        for bs in bshapes:
            out.append(dict(bs=bs, ss=(), edge=True, n=N, pri=5, runs=[R(arms[0], "jit", "full")] + [R(a, "jit", "lponly") for a in arms[1:]]))
        out.append(dict(bs=(3,), ss=(), edge=False, n=N, pri=5,
                        runs=[R(arms[0], "jit", "full+fresh")] + [R(a, "jit", "full") for a in arms[1:]] + [R(pick(arms), "eager", "full+fresh", cases=4)]))
        out.append(dict(bs=(), ss=(), edge=True, n=8, pri=6, runs=[R(pick(arms), "eager", "full+fresh", cases=8)]))
        for s2 in [(2,), (2, 3)]:
            out.append(dict(bs=(3,), ss=s2, edge=False, n=100, pri=6, runs=[R(arms[0], "jit", "full")] + [R(a, "jit", "light") for a in arms[1:2]]))
        out.append(dict(bs=(3,), ss=(2,), edge=False, n=40, pri=7, runs=[R(base, "jit", "light")] + [R(a, "jit", "light") for a in cl] + [R(a, "jit", "gen-full") for a in gens]))
        out.append(dict(bs=(2, 2), ss=(), edge=False, n=6, pri=7, vmap=False, runs=[R(a, "jit", "full") for a in arms[:1]]))
    return out


def assign_units(units, nshards, seed, quick=False):
    """Greedy balance of units over shards by estimated cost (deterministic; the seed rotates ties)."""
    costs = []
    for uid, (e, f) in enumerate(units):
        c = T.UNIT_COST_BY_NAME.get(e.name, T.UNIT_COST[e.cost])
        if quick and e.forms[seed % len(e.forms)] is not f:
            c *= 0.3  # not in the always-run set
        costs.append((c, (uid * 7 + seed * 13) % 101, uid))
    costs.sort(key=lambda t: (-t[0], t[1]))
    load = [0.0] * nshards
    owner = {}
    for c, _, uid in costs:
        k = min(range(nshards), key=lambda s: (load[s], (s + seed) % nshards))
        load[k] += c
        owner[uid] = k
    return owner


def run(ctx):
    genjax = common.import_repo()
    from tensorflow_probability.substrates import jax as tfp

    tfd = tfp.distributions
    reach = ClosureReach()
    reach.start(genjax)
    try:
        _run(ctx, genjax, tfd)
    finally:
        reach.stop(ctx)


def _run(ctx, genjax, tfd):
    table = T.table()
    # the table must cover every exported TFP-backed wrapper
    import genjax.generative_functions.distributions as gd
    from genjax._src.generative_functions.distributions.distribution import ExactDensity

    exported = sorted(n for n in gd.__all__ if isinstance(getattr(gd, n, None), ExactDensity))
    have = {e.name for e in table}
    missing = [n for n in exported if n not in have]
    if ctx.shard == 0:
        ctx.count("exported_wrappers", len(exported))
        ctx.count("wrappers_in_table", len(table))
        for n in missing:
            ctx.count(f"not_in_table:{n}")
            ctx.note(f"exported wrapper without a parameter generator: {n}")
    if ctx.shard == ctx.nshards - 1:
        bare_argument_check(ctx, genjax, tfd)

    units = [(e, f) for e in table for f in e.forms]
    owner = assign_units(units, ctx.nshards, ctx.seed, ctx.quick())
    mine = [uid for uid in range(len(units)) if owner[uid] == ctx.shard]
    # budgets: CPU seconds of this worker (coverage does not depend on how loaded the machine is)
    # and a wall-clock cap (a badly overloaded machine degrades coverage, never correctness)
    import os

    cpu_budget = ctx.pick(70.0, 600.0)      # user CPU seconds, including the ~8 s of imports
    wall_cap = ctx.pick(420.0, 1800.0)
    cpu = lambda: os.times().user  # noqa: E731
    plans = []
    for uid in mine:
        e, f = units[uid]
        # quick tier: only one parameterisation of each wrapper (rotating with the seed) is in the
        # always-run set; the other forms start at priority 1
        primary = (not ctx.quick()) or e.forms[ctx.seed % len(e.forms)] is f
        for k, sc in enumerate(scenarios_for(ctx, e, f, uid)):
            pri = sc["pri"] if primary else sc["pri"] + 1
            plans.append((pri, k, uid, sc))
    plans.sort(key=lambda t: (t[0], t[2]))
    for pri, k, uid, sc in plans:
        e, f = units[uid]
        if pri > 0 and (cpu() > cpu_budget or ctx.elapsed() > wall_cap):
            ctx.count("scenarios_skipped_for_time")
            continue
        ok = run_scenario(ctx, genjax, tfd, e, f, sc, sid=uid * 100 + k)
        ctx.count("scenarios_run")
        if ok:
            ctx.count(f"scenarios:{e.name}")
