"""C24 — distribution wrappers agree with their TFP densities.

Runtime monitors (oracle = TFP's JAX substrate constructed directly, keyword parameters only):

* score monitors: for every TFP-backed wrapper, parameter draw and GFI operation
  (simulate, assess, importance with full / empty / masked constraint, update with
  new value / new arguments / both / masked constraint) the reported score, weight and value
  are compared with sums of `tfd.D(**params).log_prob(value)`;
* sample monitors: dtype (flip -> bool), shape (sample_shape + batch + event) and support
  membership of every sampled value;
* invocation-equivalence monitors: positional, keyword (`handle_kwargs` + `(args, kwargs)`),
  mixed and closure (`dist(*a, **k)`) invocations with the same key and parameters give the same
  value and scores; bare arguments of bernoulli / categorical mean logits;
* `sample_shape=Const(shape)` handling;
* all of it eagerly (concrete mask flags) and under jit(vmap) (traced flags).

Reach is observed on the real closures (`sampler`, `logpdf`, `kwargle` both returns,
`implicit_logit_warning.wrapper` both returns) through sys.monitoring.
"""

from __future__ import annotations

import ast
import inspect
import sys
import textwrap
import warnings

import numpy as np

from vf import common
from vf.gen import c24_table as T

CONFIG = {
    "level": "exploration",
    "shards": {"quick": 16, "thorough": 16},
    "timeout_s": {"quick": 900, "thorough": 3000},
    "rule": (
        "unit = (wrapper, parameterisation form); every unit of the 46 exported TFP-backed wrappers "
        "(+ inverse_gaussian) is run in scenarios (arm in {pos, kw, mixed, closure-pos, closure-kw}, "
        "mode in {eager, jit(vmap)}, parameter batch shape in {(), (3,), (2,2)}, mid-domain or "
        "edge-of-domain parameters, optional sample_shape). One evaluation = one comparison of an "
        "observed score / weight / value / dtype / shape / support bit with the TFP oracle. "
        "non-trivial: oracle value finite and (for weights) not identically zero; distinct by "
        "(wrapper, form, arm, mode, batch-shape, operation field)."
    ),
    "reach_anchors": [
        "genjax._src.generative_functions.distributions.distribution:ExactDensity.random_weighted",
        "genjax._src.generative_functions.distributions.distribution:ExactDensity.estimate_logpdf",
        "genjax._src.generative_functions.distributions.distribution:ExactDensity.assess",
        "genjax._src.generative_functions.distributions.distribution:Distribution.generate_choice_map",
        "genjax._src.generative_functions.distributions.distribution:Distribution.edit_update_with_constraint",
    ],
    "reach_required": [
        "genjax._src.generative_functions.distributions.distribution:ExactDensity.random_weighted",
        "genjax._src.generative_functions.distributions.distribution:ExactDensity.estimate_logpdf",
        "genjax._src.generative_functions.distributions.distribution:ExactDensity.assess",
        "genjax._src.generative_functions.distributions.distribution:Distribution.generate_choice_map",
        "genjax._src.generative_functions.distributions.distribution:Distribution.edit_update_with_constraint",
    ],
    "counters_required": [
        "score_evaluations",
        "sample_evaluations",
        "equivalence_evaluations",
        "sample_shape_evaluations",
        "mode:eager",
        "mode:jit",
        "reach:tfp_distribution.sampler",
        "reach:tfp_distribution.logpdf",
        "reach:kwargle.return1",
        "reach:kwargle.return2",
        "reach:implicit_logit_warning.return1",
        "reach:implicit_logit_warning.return2",
    ],
    "assumptions": [
        "TFP (JAX substrate) log_prob / sample / dtype / batch_shape / event_shape are the oracle (the property is 'agrees with TFP')",
        "jax.jit / jax.vmap / numpy as trusted base",
        "hand-written closed-support predicates (vf/gen/c24_table.py); an out-of-support sample that TFP itself produces for the same key is TFP's numerics, not a wrapper defect",
    ],
}

P = "C24"


# ============================================================================ closure reach


class ClosureReach:
    """PY_START / LINE counters on the closures that `reach.py` cannot name by attribute path."""

    TOOL = 4

    def __init__(self):
        self.counts = {}
        self.active = False
        self._start = {}
        self._lines = {}

    @staticmethod
    def _returns(code):
        try:
            src = textwrap.dedent(inspect.getsource(code))
            tree = ast.parse(src)
        except Exception:
            return []
        fn = tree.body[0]
        outs = []

        def walk(node):
            for ch in ast.iter_child_nodes(node):
                if isinstance(ch, (ast.FunctionDef, ast.Lambda, ast.AsyncFunctionDef)):
                    continue
                if isinstance(ch, ast.Return):
                    outs.append(code.co_firstlineno + ch.lineno - 1)
                walk(ch)

        walk(fn)
        return sorted(outs)

    def start(self, genjax):
        tp = genjax.normal
        cells = {}
        lam = type(tp).sample
        for name, cell in zip(lam.__code__.co_freevars, lam.__closure__ or ()):
            cells[name] = cell.cell_contents
        kwargle = cells.get("kwargle")
        sampler = cells.get("sample")
        lam2 = type(tp).logpdf
        cells2 = dict(zip(lam2.__code__.co_freevars, [c.cell_contents for c in (lam2.__closure__ or ())]))
        logpdf = cells2.get("logpdf")
        wrapper = None
        try:
            bs = type(genjax.bernoulli).sample
            c = dict(zip(bs.__code__.co_freevars, [x.cell_contents for x in bs.__closure__]))
            smp = c["sample"]
            c2 = dict(zip(smp.__code__.co_freevars, [x.cell_contents for x in smp.__closure__]))
            wrapper = c2.get("dist")
        except Exception:
            wrapper = None
        mon = sys.monitoring
        try:
            mon.use_tool_id(self.TOOL, "vf.c24")
        except ValueError:
            return
        for label, fn in (("tfp_distribution.sampler", sampler), ("tfp_distribution.logpdf", logpdf),
                          ("kwargle", kwargle), ("implicit_logit_warning.wrapper", wrapper)):
            code = getattr(fn, "__code__", None)
            if code is None:
                continue
            self._start[code] = "reach:" + label
            ev = mon.events.PY_START
            if label in ("kwargle", "implicit_logit_warning.wrapper"):
                rets = self._returns(code)
                short = label.split(".")[0]
                self._lines[code] = {ln: f"reach:{short}.return{i + 1}" for i, ln in enumerate(rets)}
                ev |= mon.events.LINE
            mon.set_local_events(self.TOOL, code, ev)

        def on_start(code, off):
            k = self._start.get(code)
            if k:
                self.counts[k] = self.counts.get(k, 0) + 1

        def on_line(code, line):
            k = self._lines.get(code, {}).get(line)
            if k:
                self.counts[k] = self.counts.get(k, 0) + 1

        mon.register_callback(self.TOOL, mon.events.PY_START, on_start)
        mon.register_callback(self.TOOL, mon.events.LINE, on_line)
        self.active = True

    def stop(self, ctx):
        if self.active:
            mon = sys.monitoring
            for code in self._start:
                mon.set_local_events(self.TOOL, code, 0)
            mon.register_callback(self.TOOL, mon.events.PY_START, None)
            mon.register_callback(self.TOOL, mon.events.LINE, None)
            mon.free_tool_id(self.TOOL)
            self.active = False
        for k, v in self.counts.items():
            ctx.count(k, v)


# ============================================================================ scenario plumbing


def _static_kwargs(form):
    import jax.numpy as jnp

    out = {}
    for k, v in form.static.items():
        if k == "dtype":
            out[k] = getattr(jnp, v)
        else:
            out[k] = v
    return out


def _ctor(entry, tfd):
    if callable(entry.tfd):
        return lambda **kw: entry.tfd(tfd, **kw)
    return getattr(tfd, entry.tfd)


def _expected_dtype(entry, form):
    return form.static.get("dtype", entry.dtype)


def make_args(arm, form, p, sample_shape, j):
    """GFI argument package for an arm. Returns (args, uses_kwargs)."""
    from genjax import Const

    names = [n for n, _ in form.params]
    static = _static_kwargs(form)
    extra = dict(static)
    if sample_shape:
        extra["sample_shape"] = Const(tuple(sample_shape))
    if arm in ("pos", "closure-pos"):
        pos = tuple(p[n] for n in names)
        if extra:
            return (pos, extra), True
        return pos, False
    if arm in ("kw", "closure-kw"):
        return ((), {**{n: p[n] for n in names}, **extra}), True
    if arm == "mixed":
        return (tuple(p[n] for n in names[:j]), {**{n: p[n] for n in names[j:]}, **extra}), True
    raise KeyError(arm)


def arm_possible(arm, form):
    n = len(form.params)
    if arm in ("pos", "closure-pos"):
        return form.npos == n and not form.static
    if arm == "mixed":
        return n >= 2 and form.npos >= 1
    return True


FIELDS_LIGHT = ("sim", "assess", "imp")


def gfi_ops(D, arm, a0, a1, uses_kw, key, v1, mflag, light):
    """All GFI operations of one case on the REAL wrapper. Returns a flat dict of arrays."""
    import jax
    from genjax import ChoiceMap, Diff
    from genjax import ChoiceMapBuilder as C

    ks = jax.random.split(key, 6)
    out = {}
    if arm.startswith("closure"):
        if uses_kw:
            gf = D(*a0[0], **a0[1])
        else:
            gf = D(*a0)
        A0 = ()
    else:
        gf = D.handle_kwargs() if uses_kw else D
        A0 = a0
    tr = gf.simulate(ks[0], A0)
    out["sim.value"] = tr.get_retval()
    out["sim.score"] = tr.get_score()
    out["sim.choice"] = tr.get_choices().get_value()
    s, r = gf.assess(C.v(v1), A0)
    out["assess.score"] = s
    out["assess.value"] = r
    trI, wI = gf.importance(ks[1], C.v(v1), A0)
    out["imp.weight"] = wI
    out["imp.score"] = trI.get_score()
    out["imp.value"] = trI.get_retval()
    if light or arm.startswith("closure"):
        return out
    trE, wE = gf.importance(ks[2], ChoiceMap.empty(), A0)
    out["impE.weight"] = wE
    out["impE.score"] = trE.get_score()
    out["impE.value"] = trE.get_retval()
    trM, wM = gf.importance(ks[3], C.v(v1).mask(mflag), A0)
    out["impM.weight"] = wM
    out["impM.score"] = trM.get_score()
    out["impM.value"] = trM.get_retval()
    t1, w1, _, _ = gf.update(ks[4], tr, C.v(v1), Diff.no_change(a0))
    out["updV.weight"] = w1
    out["updV.score"] = t1.get_score()
    out["updV.value"] = t1.get_retval()
    t2, w2, _, _ = gf.update(ks[4], tr, ChoiceMap.empty(), Diff.unknown_change(a1))
    out["updA.weight"] = w2
    out["updA.score"] = t2.get_score()
    out["updA.value"] = t2.get_retval()
    t3, w3, _, _ = gf.update(ks[4], tr, C.v(v1), Diff.unknown_change(a1))
    out["updVA.weight"] = w3
    out["updVA.score"] = t3.get_score()
    out["updVA.value"] = t3.get_retval()
    t4, w4, _, _ = gf.update(ks[5], tr, C.v(v1).mask(mflag), Diff.unknown_change(a1))
    out["updM.weight"] = w4
    out["updM.score"] = t4.get_score()
    out["updM.value"] = t4.get_retval()
    return out


def oracle_fn(entry, form, tfd, sample_shape):
    """(p0, p1, vals: dict name->value) -> dict of log-probs, all from TFP directly."""
    import jax.numpy as jnp

    ctor = _ctor(entry, tfd)
    static = _static_kwargs(form)

    def lp(p, v):
        return jnp.sum(ctor(**p, **static).log_prob(v))

    def f(p0, p1, vals):
        out = {}
        for k, v in vals.items():
            out[f"lp0:{k}"] = lp(p0, v)
            out[f"lp1:{k}"] = lp(p1, v)
        return out

    return f


def tfp_sample_fn(entry, form, tfd, sample_shape):
    ctor = _ctor(entry, tfd)
    static = _static_kwargs(form)

    def f(key, p):
        return ctor(**p, **static).sample(seed=key, sample_shape=tuple(sample_shape))

    return f


# ============================================================================ judging


def _scale_close(obs, exp, mags, terms):
    """|obs-exp| <= tol where tol scales with the magnitudes of the operands `mags`."""
    obs = float(obs)
    exp = float(exp)
    if np.isnan(exp):
        return None  # skipped
    if np.isnan(obs):
        return False
    if np.isinf(exp) or np.isinf(obs):
        return obs == exp
    m = sum(abs(float(x)) for x in mags if np.isfinite(x)) + abs(exp)
    t = (common.ATOL + common.RTOL * m) * np.sqrt(max(terms, 1))
    return abs(obs - exp) <= t


def _val_equal(a, b):
    a = np.asarray(a)
    b = np.asarray(b)
    if a.shape != b.shape:
        return False
    if a.dtype == np.bool_ or b.dtype == np.bool_ or np.issubdtype(a.dtype, np.integer):
        return bool(np.array_equal(a, b))
    return bool(np.array_equal(a, b, equal_nan=True)) or common.close(a, b)


class Judge:
    def __init__(self, ctx, entry, form, arm, mode, bs, sample_shape, edge):
        self.ctx = ctx
        self.entry = entry
        self.form = form
        self.arm = arm
        self.mode = mode
        self.bs = tuple(bs)
        self.ss = tuple(sample_shape)
        self.edge = edge
        self.cond = f"{arm},{mode}" + (",sample-shape" if self.ss else "")
        self.nviol = 0

    def sig(self, op, field):
        return f"{P}|op={op}|on={self.entry.name}|field={field}|cond={self.cond}"

    def fp(self, field):
        return (self.entry.name, self.form.tag, self.arm, self.mode, self.bs, self.ss, field)

    def witness(self, case):
        w = {"distribution": self.entry.name, "form": self.form.tag, "arm": self.arm, "mode": self.mode,
             "batch_shape": list(self.bs), "sample_shape": list(self.ss), "edge": self.edge}
        w.update(case)
        return w

    def score(self, op, field, obs, exp, mags, terms, case, counter="score_evaluations"):
        ok = _scale_close(obs, exp, mags, terms)
        if ok is None:
            self.ctx.count("skipped_nan_expectation")
            return
        nontrivial = np.isfinite(exp) and not (field.endswith("weight") and exp == 0.0 and not mags)
        self.ctx.evaluation(self.fp(f"{op}.{field}"), nontrivial=bool(nontrivial))
        self.ctx.count(counter)
        if self.ss:
            self.ctx.count("sample_shape_evaluations")
        if not ok:
            self.nviol += 1
            self.ctx.violation(self.sig(op, field), detail=f"observed {float(obs)!r}, TFP oracle {float(exp)!r}",
                               **self.witness(case))

    def value(self, op, field, obs, exp, case, counter="score_evaluations"):
        ok = _val_equal(obs, exp)
        self.ctx.evaluation(self.fp(f"{op}.{field}"), nontrivial=True)
        self.ctx.count(counter)
        if not ok:
            self.nviol += 1
            self.ctx.violation(self.sig(op, field), detail=f"observed {common.short(np.asarray(obs).tolist())}, expected {common.short(np.asarray(exp).tolist())}",
                               **self.witness(case))


def judge_case(J, out, orc, p0, v1, mflag, tfp_direct, exp_shape, case):
    """Compare one case (numpy values) with the oracle."""
    ctx = J.ctx
    entry, form = J.entry, J.form
    nterms = max(1, int(np.prod(exp_shape)) if len(exp_shape) else 1)
    L0 = lambda k: float(orc[f"lp0:{k}"])  # noqa: E731
    L1 = lambda k: float(orc[f"lp1:{k}"])  # noqa: E731

    # ---- sample monitors (simulate and every freshly sampled value)
    fresh = [("simulate", "sim.value")]
    if "impE.value" in out:
        fresh.append(("importance-empty", "impE.value"))
        if not mflag:
            fresh.append(("importance-masked", "impM.value"))
    want_dt = _expected_dtype(entry, form)
    pred = T.SUPPORT[entry.support]
    for op, k in fresh:
        v = np.asarray(out[k])
        ctx.count("sample_evaluations", 3)
        ctx.count(f"samples:{entry.name}")
        ctx.evaluation(J.fp(f"{op}.dtype"), nontrivial=True, n=3)
        if str(v.dtype) != want_dt:
            J.nviol += 1
            ctx.violation(J.sig(op, "dtype"), detail=f"sample dtype {v.dtype}, documented {want_dt}", **J.witness(case))
        if tuple(v.shape) != tuple(exp_shape):
            J.nviol += 1
            ctx.violation(J.sig(op, "shape"), detail=f"sample shape {tuple(v.shape)}, TFP sample_shape+batch+event {tuple(exp_shape)}", **J.witness(case))
            continue
        try:
            inside = pred(v, p0)
        except Exception:
            inside = True
            ctx.count("support_predicate_error")
        if not inside:
            if k == "sim.value" and tfp_direct is not None and np.array_equal(np.asarray(tfp_direct), v, equal_nan=True):
                ctx.count("support_edge_same_as_tfp_direct")
            elif J.edge:
                # edge-of-domain parameters: float32 under/overflow inside TFP's sampler; the score
                # monitors still judge this value
                ctx.count("support_edge_unexcused_at_edge_params")
            else:
                J.nviol += 1
                ctx.violation(J.sig(op, "support"), detail=f"sample {common.short(v.tolist())} outside support '{entry.support}'", **J.witness(case))
    if tfp_direct is not None:
        ctx.count("sim_value_same_as_tfp_direct_same_key" if np.array_equal(np.asarray(tfp_direct), np.asarray(out["sim.value"]), equal_nan=True) else "sim_value_differs_from_tfp_direct_same_key")

    # ---- score monitors
    ctx.count(f"cases:{entry.name}")
    J.value("simulate", "choice", out["sim.choice"], out["sim.value"], case)
    J.score("simulate", "score", out["sim.score"], L0("sim.value"), [], nterms, case)
    J.score("assess", "score", out["assess.score"], L0("v1"), [], nterms, case)
    J.value("assess", "retval", out["assess.value"], v1, case)
    J.score("importance", "weight", out["imp.weight"], L0("v1"), [], nterms, case)
    J.score("importance", "score", out["imp.score"], L0("v1"), [], nterms, case)
    J.value("importance", "value", out["imp.value"], v1, case)
    if "impE.weight" not in out:
        return
    J.score("importance-empty", "weight", out["impE.weight"], 0.0, [], 1, case)
    J.score("importance-empty", "score", out["impE.score"], L0("impE.value"), [], nterms, case)
    if mflag:
        J.score("importance-masked", "weight", out["impM.weight"], L0("v1"), [], nterms, case)
        J.score("importance-masked", "score", out["impM.score"], L0("v1"), [], nterms, case)
        J.value("importance-masked", "value", out["impM.value"], v1, case)
    else:
        J.score("importance-masked", "weight", out["impM.weight"], 0.0, [], 1, case)
        J.score("importance-masked", "score", out["impM.score"], L0("impM.value"), [], nterms, case)
    old = L0("sim.value")
    v0 = out["sim.value"]

    def upd(op, key, new_lp, new_val):
        with np.errstate(invalid="ignore"):
            J.score(op, "weight", out[f"{key}.weight"], new_lp - old, [new_lp, old], nterms, case)
        J.score(op, "score", out[f"{key}.score"], new_lp, [], nterms, case)
        J.value(op, "value", out[f"{key}.value"], new_val, case)

    upd("update-value", "updV", L0("v1"), v1)
    upd("update-args", "updA", L1("sim.value"), v0)
    upd("update-value-args", "updVA", L1("v1"), v1)
    if mflag:
        upd("update-masked", "updM", L1("v1"), v1)
    else:
        upd("update-masked", "updM", L1("sim.value"), v0)


def judge_equivalence(ctx, entry, form, armA, armB, mode, bs, ss, outA, outB, case):
    """Same key, same parameters, different invocation style -> same observables."""
    cond = f"{armA}-vs-{armB},{mode}" + (",sample-shape" if ss else "")
    for k in outA:
        if k not in outB:
            continue
        a, b = np.asarray(outA[k]), np.asarray(outB[k])
        ctx.count("equivalence_evaluations")
        ctx.evaluation((entry.name, form.tag, armA, armB, mode, tuple(bs), tuple(ss), k), nontrivial=True)
        if k.endswith("value") or k.endswith("choice"):
            ok = _val_equal(a, b) and a.dtype == b.dtype
        else:
            if np.isnan(a) and np.isnan(b):
                ok = True
            else:
                ok = common.close(a, b)
        if not ok:
            op, field = k.split(".")
            ctx.violation(f"{P}|op={op}|on={entry.name}|field={field}-equivalence|cond={cond}",
                          detail=f"{armA}: {common.short(a.tolist())}  {armB}: {common.short(b.tolist())}",
                          distribution=entry.name, form=form.tag, mode=mode, **case)


# ============================================================================ running a scenario


class Unsupported(Exception):
    pass


def _np_tree(x):
    import jax

    return jax.tree_util.tree_map(np.asarray, x)


def run_scenario(ctx, genjax, tfd, entry, form, arms, mode, bs, ss, edge, n, sid, light=False):
    """One scenario: `n` cases, every arm in `arms` on the same keys/parameters."""
    import jax
    import jax.numpy as jnp

    D = getattr(genjax, entry.name, None)
    if D is None:
        import genjax._src.generative_functions.distributions.tensorflow_probability as tp

        D = getattr(tp, entry.name)
    rng = ctx.child_rng(sid)
    names = [nm for nm, _ in form.params]
    P0, P1 = [], []
    for _ in range(n):
        p0 = T.draw_params(form, rng, bs, edge)
        keep = p0 if rng.random() < 0.6 else None
        p1 = T.draw_params(form, rng, bs, edge, keep=keep)
        P0.append(p0)
        P1.append(p1)
    stack = lambda ps: {k: jnp.asarray(np.stack([p[k] for p in ps])) for k in names}  # noqa: E731
    p0s, p1s = stack(P0), stack(P1)
    seeds = rng.integers(0, 2**31 - 1, size=(n, 2))
    flags = rng.random(size=n) < 0.5
    j = int(rng.integers(1, form.npos + 1)) if form.npos >= 1 else 0
    j = min(j, len(names) - 1) if len(names) >= 2 else j

    samp = tfp_sample_fn(entry, form, tfd, ss)
    orc = oracle_fn(entry, form, tfd, ss)

    def one_case_inputs(s2, p0):
        kv = jax.random.key(s2)
        return samp(kv, p0)

    def sys_fn(arm):
        def f(s1, p0, p1, v1, mflag):
            key = jax.random.key(s1)
            a0, ukw = make_args(arm, form, p0, ss, j)
            a1, _ = make_args(arm, form, p1, ss, j)
            return gfi_ops(D, arm, a0, a1, ukw, key, v1, mflag, light)

        return f

    def direct_fn(s1, p0):
        key = jax.random.key(s1)
        return samp(jax.random.split(key, 6)[0], p0)

    # ---- oracle side first: can TFP itself sample / score here?
    try:
        if mode == "jit":
            v1s = jax.jit(jax.vmap(one_case_inputs))(jnp.asarray(seeds[:, 1]), p0s)
            directs = jax.jit(jax.vmap(direct_fn))(jnp.asarray(seeds[:, 0]), p0s)
        else:
            v1s = [one_case_inputs(int(seeds[i, 1]), P0j(p0s, i)) for i in range(n)]
            directs = [direct_fn(int(seeds[i, 0]), P0j(p0s, i)) for i in range(n)]
        d0 = _ctor(entry, tfd)(**P0j(p0s, 0), **_static_kwargs(form))
        exp_shape = tuple(ss) + tuple(d0.batch_shape) + tuple(d0.event_shape)
    except Exception as e:  # TFP's substrate cannot do it: inconclusive for this name
        ctx.count(f"tfp_unsupported:{entry.name}")
        ctx.note(f"TFP cannot sample {entry.name}/{form.tag} bs={bs} ss={ss}: {type(e).__name__}: {str(e)[:120]}")
        return False

    outs = {}
    for arm in arms:
        try:
            with warnings.catch_warnings(record=True) as wlist:
                warnings.simplefilter("always")
                if mode == "jit":
                    o = jax.jit(jax.vmap(sys_fn(arm)))(jnp.asarray(seeds[:, 0]), p0s, p1s, v1s, jnp.asarray(flags))
                    o = _np_tree(o)
                    outs[arm] = [{k: v[i] for k, v in o.items()} for i in range(n)]
                else:
                    outs[arm] = []
                    for i in range(n):
                        # concrete python bool flag on even cases, concrete array flag on odd ones
                        fl = bool(flags[i]) if i % 2 == 0 else jnp.asarray(bool(flags[i]))
                        o = sys_fn(arm)(int(seeds[i, 0]), P0j(p0s, i), P0j(p1s, i), v1s[i], fl)
                        outs[arm].append(_np_tree(o))
            dep = [w for w in wlist if issubclass(w.category, DeprecationWarning) and "bare argument" in str(w.message)]
            if form.bare and arm in ("pos", "closure-pos"):
                ctx.count("bare_argument_invocations")
                if dep:
                    ctx.count("bare_argument_deprecation_warning_seen")
            elif dep:
                ctx.count("deprecation_warning_on_keyword_invocation")
        except Exception as e:
            ctx.count("score_evaluations")
            ctx.evaluation((entry.name, form.tag, arm, mode, "raises"), nontrivial=True)
            ctx.violation(f"{P}|op=gfi|on={entry.name}|field=raises|cond={arm},{mode}{',sample-shape' if ss else ''},{common.exc_mechanism(e)}",
                          detail=f"{type(e).__name__}: {str(e)[:300]}", distribution=entry.name, form=form.tag,
                          batch_shape=list(bs), sample_shape=list(ss), params=_np_tree(P0j(p0s, 0)))
            continue

    if not outs:
        return True
    # ---- oracle log-probs for every value that appeared
    for arm, cases in outs.items():
        J = Judge(ctx, entry, form, arm, mode, bs, ss, edge)
        valkeys = [k for k in cases[0] if k.endswith(".value") and k.split(".")[0] in ("sim", "impE", "impM")]

        def orc_case(p0, p1, v1, vals):
            d = dict(vals)
            d["v1"] = v1
            return orc(p0, p1, d)

        try:
            if mode == "jit":
                vals = {k: jnp.asarray(np.stack([c[k] for c in cases])) for k in valkeys}
                lps = _np_tree(jax.jit(jax.vmap(orc_case))(p0s, p1s, v1s, vals))
                lps = [{k: v[i] for k, v in lps.items()} for i in range(n)]
            else:
                lps = [_np_tree(orc_case(P0j(p0s, i), P0j(p1s, i), v1s[i], {k: jnp.asarray(cases[i][k]) for k in valkeys})) for i in range(n)]
        except Exception as e:
            # the oracle cannot score what the wrapper returned (e.g. wrong shape): judge shapes only
            ctx.note(f"oracle could not score {entry.name}/{form.tag}/{arm}: {type(e).__name__}: {str(e)[:160]}")
            lps = None
        for i in range(n):
            case = {"params": _np_tree(P0j(p0s, i)), "new_params": _np_tree(P0j(p1s, i)), "seed_pair": [int(seeds[i, 0]), int(seeds[i, 1])],
                    "constraint_value": np.asarray(v1s[i]), "mask_flag": bool(flags[i])}
            if lps is None:
                v = np.asarray(cases[i]["sim.value"])
                ctx.count("sample_evaluations")
                ctx.evaluation(J.fp("simulate.shape"), nontrivial=True)
                if tuple(v.shape) != exp_shape:
                    ctx.violation(J.sig("simulate", "shape"), detail=f"sample shape {tuple(v.shape)}, TFP {exp_shape}", **J.witness(case))
                else:
                    ctx.count(f"oracle_failed:{entry.name}")
                continue
            judge_case(J, cases[i], lps[i], _np_tree(P0j(p0s, i)), np.asarray(v1s[i]), bool(flags[i]), np.asarray(directs[i]), exp_shape, case)
        ctx.count(f"mode:{mode}", n)
        ctx.count(f"arm:{arm}", n)
        ctx.count(f"shape:bs{len(bs)}d", n)
        if edge:
            ctx.count("edge_param_cases", n)
        if ss:
            ctx.count("sample_shape_cases", n)
        ctx.sample({"distribution": entry.name, "form": form.tag, "arm": arm, "mode": mode, "batch_shape": list(bs),
                    "sample_shape": list(ss), "params": _np_tree(P0j(p0s, 0)), "sim_value": cases[0]["sim.value"],
                    "sim_score": float(cases[0]["sim.score"]), "tfp_log_prob": None if lps is None else float(lps[0]["lp0:sim.value"])}, limit=3)
    arms_done = list(outs)
    for b in arms_done[1:]:
        a = arms_done[0]
        for i in range(n):
            case = {"params": _np_tree(P0j(p0s, i)), "seed_pair": [int(seeds[i, 0]), int(seeds[i, 1])]}
            judge_equivalence(ctx, entry, form, a, b, mode, bs, ss, outs[a][i], outs[b][i], case)
    return True


def P0j(ps, i):
    return {k: v[i] for k, v in ps.items()}


# ============================================================================ bare-argument semantics


def bare_argument_check(ctx, genjax, tfd):
    """bernoulli(x) / categorical(x) with a bare positional argument mean logits (documented) and
    differ from probs=; flip(p) means probs."""
    import jax.numpy as jnp
    from genjax import ChoiceMapBuilder as C

    x = jnp.float32(0.3)
    with warnings.catch_warnings(record=True) as wl:
        warnings.simplefilter("always")
        s_bare, _ = genjax.bernoulli.assess(C.v(jnp.int32(1)), (x,))
    s_kwl, _ = genjax.bernoulli.handle_kwargs().assess(C.v(jnp.int32(1)), ((), {"logits": x}))
    s_kwp, _ = genjax.bernoulli.handle_kwargs().assess(C.v(jnp.int32(1)), ((), {"probs": x}))
    s_flip, _ = genjax.flip.assess(C.v(jnp.asarray(True)), (x,))
    e_log = float(tfd.Bernoulli(logits=x).log_prob(1))
    e_prob = float(tfd.Bernoulli(probs=x).log_prob(1))
    for nm, obs, exp in (("bare-is-logits", s_bare, e_log), ("logits-kw", s_kwl, e_log), ("probs-kw", s_kwp, e_prob)):
        ctx.count("score_evaluations")
        ctx.evaluation(("bare", "bernoulli", nm), nontrivial=True)
        if not common.close(obs, exp):
            ctx.violation(f"{P}|op=assess|on=bernoulli|field=score|cond={nm}", detail=f"observed {float(obs)}, TFP {exp}")
    ctx.count("score_evaluations")
    ctx.evaluation(("bare", "flip", "probs"), nontrivial=True)
    if not common.close(s_flip, e_prob):
        ctx.violation(f"{P}|op=assess|on=flip|field=score|cond=argument-is-probs", detail=f"observed {float(s_flip)}, TFP {e_prob}")
    lg = jnp.asarray([0.2, -0.7, 1.1], dtype=jnp.float32)
    with warnings.catch_warnings(record=True) as wl2:
        warnings.simplefilter("always")
        c_bare, _ = genjax.categorical.assess(C.v(jnp.int32(2)), (lg,))
    e = float(tfd.Categorical(logits=lg).log_prob(2))
    ctx.count("score_evaluations")
    ctx.evaluation(("bare", "categorical", "logits"), nontrivial=True)
    if not common.close(c_bare, e):
        ctx.violation(f"{P}|op=assess|on=categorical|field=score|cond=bare-is-logits", detail=f"observed {float(c_bare)}, TFP {e}")
    seen = sum(1 for w in list(wl) + list(wl2) if issubclass(w.category, DeprecationWarning))
    ctx.count("bare_argument_deprecation_warning_seen", seen)


# ============================================================================ plan


def scenarios_for(ctx, entry, form, uid):
    """Ordered scenario list (priority first). Each: dict(arms, mode, bs, ss, edge, n, light)."""
    rng = ctx.child_rng(7000 + uid)
    q = ctx.quick()
    N = ctx.pick(20, 300)
    full = ["pos"] if arm_possible("pos", form) else []
    kwarms = ["kw"] + (["mixed"] if arm_possible("mixed", form) else [])
    primary = (full + kwarms)[:2] if q else (full + kwarms)
    bshapes = [(), (3,), (2, 2)]
    out = []
    # 1. jit(vmap), scalar parameters, primary arms, all operations
    out.append(dict(arms=primary, mode="jit", bs=(), ss=(), edge=False, n=N, light=False, pri=0))
    # 2. eager, concrete flags, one batched shape
    eb = bshapes[int(rng.integers(0, 3))]
    out.append(dict(arms=(full + kwarms)[:2], mode="eager", bs=eb, ss=(), edge=False, n=ctx.pick(2, 6), light=False, pri=1))
    # 3. jit, batched + edge parameters
    b3 = bshapes[int(rng.integers(1, 3))]
    a3 = [(full + kwarms)[int(rng.integers(0, len(full + kwarms)))]]
    out.append(dict(arms=a3, mode="jit", bs=b3, ss=(), edge=True, n=N, light=False, pri=2))
    # 4. sample_shape
    ss = [(2,), (2, 3), (1,)][int(rng.integers(0, 3))]
    a4 = [(full + kwarms)[int(rng.integers(0, len(full + kwarms)))]]
    out.append(dict(arms=a4, mode="jit" if rng.random() < 0.7 else "eager", bs=bshapes[int(rng.integers(0, 2))], ss=ss, edge=False, n=ctx.pick(8, 100), light=False, pri=3))
    # 5. closures (simulate / assess / importance only; closure.edit belongs to C32)
    carms = (["closure-pos"] if arm_possible("closure-pos", form) else []) + ["closure-kw"]
    base = "pos" if full else "kw"
    out.append(dict(arms=[base] + carms, mode="eager" if rng.random() < 0.5 else "jit", bs=bshapes[int(rng.integers(0, 3))], ss=(), edge=False, n=ctx.pick(3, 40), light=True, pri=4))
    if not q:
        for bs in bshapes:
            out.append(dict(arms=full + kwarms, mode="jit", bs=bs, ss=(), edge=True, n=N, light=False, pri=5))
        out.append(dict(arms=full + kwarms, mode="jit", bs=(3,), ss=(), edge=False, n=N, light=False, pri=5))
        out.append(dict(arms=full + kwarms, mode="eager", bs=(), ss=(), edge=True, n=6, light=False, pri=5))
        for s2 in [(2,), (2, 3)]:
            out.append(dict(arms=(full + kwarms)[:2], mode="jit", bs=(3,), ss=s2, edge=False, n=100, light=False, pri=6))
        out.append(dict(arms=[base] + carms, mode="jit", bs=(3,), ss=(2,), edge=False, n=40, light=True, pri=6))
    return out


def run(ctx):
    genjax = common.import_repo()
    from tensorflow_probability.substrates import jax as tfp

    tfd = tfp.distributions
    reach = ClosureReach()
    reach.start(genjax)
    try:
        _run(ctx, genjax, tfd)
    finally:
        reach.stop(ctx)


def _run(ctx, genjax, tfd):
    table = T.table()
    # the table must cover every exported TFP-backed wrapper
    import genjax.generative_functions.distributions as gd
    from genjax._src.generative_functions.distributions.distribution import ExactDensity

    exported = sorted(n for n in gd.__all__ if isinstance(getattr(gd, n, None), ExactDensity))
    have = {e.name for e in table}
    missing = [n for n in exported if n not in have]
    if ctx.shard == 0:
        ctx.count("exported_wrappers", len(exported))
        ctx.count("wrappers_in_table", len(table))
        for n in missing:
            ctx.count(f"not_in_table:{n}")
            ctx.note(f"exported wrapper without a parameter generator: {n}")
        bare_argument_check(ctx, genjax, tfd)

    units = [(e, f) for e in table for f in e.forms]
    # rotate the unit -> shard assignment with the seed so that seeds balance differently
    order = list(range(len(units)))
    rot = ctx.seed % max(1, len(units))
    order = order[rot:] + order[:rot]
    mine = [order[i] for i in ctx.my_share(len(order))]
    budget = ctx.pick(70.0, 780.0)
    plans = []
    for uid in mine:
        e, f = units[uid]
        for k, sc in enumerate(scenarios_for(ctx, e, f, uid)):
            plans.append((sc["pri"], k, uid, sc))
    plans.sort(key=lambda t: (t[0], t[2]))
    for pri, k, uid, sc in plans:
        if pri > 0 and ctx.elapsed() > budget:
            ctx.count("scenarios_skipped_for_time")
            continue
        e, f = units[uid]
        ok = run_scenario(ctx, genjax, tfd, e, f, sc["arms"], sc["mode"], sc["bs"], sc["ss"], sc["edge"], sc["n"],
                          sid=uid * 100 + k, light=sc["light"])
        ctx.count("scenarios_run")
        if ok:
            ctx.count(f"scenarios:{e.name}")
