"""C12 — scan and its derived combinators match the documented Python loops.

Reference = the docstring loops (scan, accumulate, reduce, iterate, iterate_final) run on the
trace's own choices; checked after simulate, generate, update, regenerate and index edits:
iteration i's choices under index i, score = sum of kernel scores, final carry and stacked
outputs equal the loop's."""

from vf.prog import gen
from vf.props import _drive

A = "genjax._src.generative_functions"
CONFIG = {
    "level": "exploration",
    "shards": {"quick": 16, "thorough": 16},
    "timeout_s": {"quick": 900, "thorough": 5400},
    "rule": 'case = program with a scan-family root (kernels whose carry depends on the choices and on the previous carry; lengths 1,2,3,5; scanned inputs present or None) + importance/update/regenerate/IndexRequest(first/middle/last) ops. non-trivial: length>=3 and the history has an edit; distinct by (AST shape, op sequence).',
    "reach_anchors": ['genjax._src.generative_functions.combinators.scan:Scan.simulate', 'genjax._src.generative_functions.combinators.scan:Scan.generate', 'genjax._src.generative_functions.combinators.scan:Scan.edit_update', 'genjax._src.generative_functions.combinators.scan:Scan.edit_regenerate', 'genjax._src.generative_functions.combinators.scan:Scan.edit_index', 'genjax._src.generative_functions.combinators.scan:Scan.assess', 'genjax._src.generative_functions.combinators.scan:prepend_initial_acc'],
    "reach_required": ['genjax._src.generative_functions.combinators.scan:Scan.simulate', 'genjax._src.generative_functions.combinators.scan:Scan.generate', 'genjax._src.generative_functions.combinators.scan:Scan.edit_update', 'genjax._src.generative_functions.combinators.scan:Scan.edit_regenerate', 'genjax._src.generative_functions.combinators.scan:Scan.edit_index', 'genjax._src.generative_functions.combinators.scan:Scan.assess', 'genjax._src.generative_functions.combinators.scan:prepend_initial_acc'],
    "counters_required": ['ops:index_edit', 'ops:update', 'ops:regenerate'],
    "assumptions": [
        "reference interpreter vf/prog/ast.py transcribes the documented combinator semantics; scipy float64 densities",
        "float32 tolerance 2e-4 (relative+absolute) scaled by sqrt(#terms)",
        "programs from the bounded grammar (depth<=2 quick, <=3 thorough; sizes<=3/5); values read through public choice-map lookups",
    ],
}

KINDS = ["Dist", "Static", "Scan", "Accumulate", "Reduce", "Iterate", "IterateFinal", "Dimap"]


def cfg_fn(rng, ctx):
    depth = 2 if ctx.quick() else int(rng.choice([2, 2, 3]))
    return gen.Cfg(depth=depth, kinds=KINDS, root=["Scan", "Scan", "Accumulate", "Reduce", "Iterate", "IterateFinal"], sizes=(1, 2, 3) if ctx.quick() else (1, 2, 3, 5))


def nontrivial(case, hist):
    return getattr(case.node, "n", 0) >= 3 and any(h.startswith(("update", "regenerate", "index_edit")) for h in hist)


PLAN = _drive.Plan(
    "C12", cfg_fn,
    clauses={"model.*", "assess.*", "req.*", "raises"},
    ops={"update": 2, "regenerate": 1, "index_edit": 3},
    n_cases=(400, 3000), n_ops=(3, 6), nontrivial=nontrivial,
    always=("assess_self",),
    exc_is_violation=True,
)



def run(ctx):
    _drive.run(ctx, PLAN)
