"""C20 — staging helpers select, branch and combine flags correctly.

Monitors (reference = plain Python / numpy):
* FlagOp.and_/or_/xor_/not_/where/cond against Boolean logic, for Python bools, numpy/jax 0-d
  arrays and vectors, eagerly and under jit (traced flags);
* tree_choose(idx, vs) == vs[idx mod n] leafwise with numpy dtype promotion, idx as Python int,
  0-d array and traced, for idx in [-2n, 2n];
* multi_switch(idx, fns, args): the slot at clip(idx) holds that branch's output, every other
  slot is a zero placeholder of that branch's output shape/dtype.
"""

from __future__ import annotations

import itertools

import numpy as np

from vf import common

S = "genjax._src.core.compiler.staging"
CONFIG = {
    "level": "exploration",
    "shards": {"quick": 8, "thorough": 16},
    "timeout_s": {"quick": 600, "thorough": 2400},
    "rule": "FlagOp: full truth tables over flag representations {python bool, 0-d jax array, traced under jit, vectors}; tree_choose / multi_switch: random heterogeneous branch outputs (pytrees, shapes, dtypes) x every idx in [-2n,2n] as python int / array / traced. non-trivial: heterogeneous (>=2 different dtypes or shapes among the choices) or traced evaluation; distinct by (helper, representation, structure signature, idx class).",
    "reach_anchors": [f"{S}:tree_choose", f"{S}:multi_switch", f"{S}:FlagOp.and_", f"{S}:FlagOp.or_", f"{S}:FlagOp.xor_", f"{S}:FlagOp.not_", f"{S}:FlagOp.where", f"{S}:FlagOp.cond"],
    "reach_required": [f"{S}:tree_choose", f"{S}:multi_switch", f"{S}:FlagOp.and_", f"{S}:FlagOp.or_", f"{S}:FlagOp.xor_", f"{S}:FlagOp.not_", f"{S}:FlagOp.where", f"{S}:FlagOp.cond"],
    "counters_required": ["flagop_cells", "tree_choose_cases", "multi_switch_cases"],
    "assumptions": ["numpy result_type is the documented promotion rule", "jax.jit/lax as trusted base"],
}


def _reps(b, jnp):
    """Representations of a scalar boolean."""
    return [("py", bool(b)), ("arr0", jnp.asarray(bool(b)))]


def flagop_tables(ctx):
    import jax
    import jax.numpy as jnp
    from genjax._src.core.compiler.staging import FlagOp

    ops2 = {"and_": lambda a, b: a and b, "or_": lambda a, b: a or b, "xor_": lambda a, b: a != b}
    for name, ref in ops2.items():
        f = getattr(FlagOp, name)
        for a, b in itertools.product([False, True], repeat=2):
            for (ra, va), (rb, vb) in itertools.product(_reps(a, jnp), _reps(b, jnp)):
                got = f(va, vb)
                _chk(ctx, bool(np.asarray(got)) == ref(a, b), f"FlagOp.{name}", f"{ra},{rb}", (a, b), got, ref(a, b))
                if ra == "py" and rb == "py" and not isinstance(got, bool):
                    pass  # result type is not part of the property
            # traced
            got = jax.jit(lambda x, y: f(x, y))(jnp.asarray(a), jnp.asarray(b))
            _chk(ctx, bool(got) == ref(a, b), f"FlagOp.{name}", "traced,traced", (a, b), got, ref(a, b))
            got = jax.jit(lambda x: f(x, b))(jnp.asarray(a))
            _chk(ctx, bool(got) == ref(a, b), f"FlagOp.{name}", "traced,py", (a, b), got, ref(a, b))
            got = jax.jit(lambda y: f(a, y))(jnp.asarray(b))
            _chk(ctx, bool(got) == ref(a, b), f"FlagOp.{name}", "py,traced", (a, b), got, ref(a, b))
        # vectors: all 4 combinations at once
        va = jnp.asarray([False, False, True, True])
        vb = jnp.asarray([False, True, False, True])
        exp = np.asarray([ref(bool(x), bool(y)) for x, y in zip(np.asarray(va), np.asarray(vb))])
        got = np.asarray(f(va, vb))
        _chk(ctx, np.array_equal(got, exp), f"FlagOp.{name}", "vec,vec", "all4", got, exp)
        for b in (False, True):
            exp = np.asarray([ref(bool(x), b) for x in np.asarray(va)])
            _chk(ctx, np.array_equal(np.asarray(f(va, b)), exp), f"FlagOp.{name}", "vec,py", b, f(va, b), exp)
            exp = np.asarray([ref(b, bool(x)) for x in np.asarray(va)])
            _chk(ctx, np.array_equal(np.asarray(f(b, va)), exp), f"FlagOp.{name}", "py,vec", b, f(b, va), exp)
    for a in (False, True):
        for ra, va in _reps(a, jnp):
            got = FlagOp.not_(va)
            _chk(ctx, bool(np.asarray(got)) == (not a), "FlagOp.not_", ra, a, got, not a)
        got = jax.jit(FlagOp.not_)(jnp.asarray(a))
        _chk(ctx, bool(got) == (not a), "FlagOp.not_", "traced", a, got, not a)
    v = jnp.asarray([True, False, True])
    _chk(ctx, np.array_equal(np.asarray(FlagOp.not_(v)), ~np.asarray(v)), "FlagOp.not_", "vec", "v", FlagOp.not_(v), ~np.asarray(v))
    # where / cond
    rng = ctx.child_rng(999)
    for a in (False, True):
        tf = jnp.asarray(np.round(rng.normal(size=(3,)), 3), dtype=jnp.float32)
        ff = jnp.asarray(np.round(rng.normal(size=(3,)), 3), dtype=jnp.float32)
        exp = np.asarray(tf if a else ff)
        for ra, va in _reps(a, jnp):
            got = FlagOp.where(va, tf, ff)
            _chk(ctx, np.array_equal(np.asarray(got), exp), "FlagOp.where", ra, a, got, exp)
            got = FlagOp.cond(va, lambda x, y: x * 2.0, lambda x, y: y - 1.0, tf, ff)
            e2 = np.asarray(tf * 2.0 if a else ff - 1.0)
            _chk(ctx, np.allclose(np.asarray(got), e2), "FlagOp.cond", ra, a, got, e2)
        got = jax.jit(lambda fl, x, y: FlagOp.where(fl, x, y))(jnp.asarray(a), tf, ff)
        _chk(ctx, np.array_equal(np.asarray(got), exp), "FlagOp.where", "traced", a, got, exp)
        got = jax.jit(lambda fl, x, y: FlagOp.cond(fl, lambda p, q: p * 2.0, lambda p, q: q - 1.0, x, y))(jnp.asarray(a), tf, ff)
        e2 = np.asarray(tf * 2.0 if a else ff - 1.0)
        _chk(ctx, np.allclose(np.asarray(got), e2), "FlagOp.cond", "traced", a, got, e2)
    fl = jnp.asarray([True, False, True])
    tf = jnp.asarray([1.0, 2.0, 3.0])
    ff = jnp.asarray([-1.0, -2.0, -3.0])
    exp = np.where(np.asarray(fl), np.asarray(tf), np.asarray(ff))
    _chk(ctx, np.array_equal(np.asarray(FlagOp.where(fl, tf, ff)), exp), "FlagOp.where", "vec", "v", FlagOp.where(fl, tf, ff), exp)


def _chk(ctx, ok, helper, rep, inp, got, exp):
    ctx.count("flagop_cells")
    ctx.evaluation(fingerprint=(helper, rep, repr(inp)), nontrivial=True)
    if not ok:
        ctx.violation(f"C20|op={helper}|on=FlagOp|field=value|cond={rep}", detail=f"{helper}({inp}) [{rep}] = {got}, expected {exp}")


# ---------------------------------------------------------------------------------------

_DTYPES = ["float32", "int32", "bool", "float16", "int8", "uint8"]


def _rand_leaf(rng, shape, dtype):
    if dtype == "bool":
        return (rng.random(size=shape) < 0.5)
    if dtype.startswith("float"):
        return np.round(rng.normal(size=shape) * 3, 2).astype(dtype)
    return rng.integers(0, 50, size=shape).astype(dtype)


def _rand_struct(rng):
    """A pytree *structure*: nested tuple/dict with leaf shapes."""
    shapes = [(), (2,), (3,), (2, 2)]
    k = int(rng.integers(4))
    sh = lambda: shapes[int(rng.integers(len(shapes)))]  # noqa
    if k == 0:
        return ("leaf", sh())
    if k == 1:
        return ("tuple", [("leaf", sh()), ("leaf", sh())])
    if k == 2:
        return ("dict", {"a": ("leaf", sh()), "b": ("tuple", [("leaf", sh())])})
    return ("tuple", [("dict", {"x": ("leaf", sh())}), ("leaf", sh())])


def _instantiate(rng, st, dtype_fn):
    if st[0] == "leaf":
        return _rand_leaf(rng, st[1], dtype_fn())
    if st[0] == "tuple":
        return tuple(_instantiate(rng, s, dtype_fn) for s in st[1])
    return {k: _instantiate(rng, v, dtype_fn) for k, v in st[1].items()}


def _flat(t):
    if isinstance(t, tuple):
        out = []
        for x in t:
            out.extend(_flat(x))
        return out
    if isinstance(t, dict):
        out = []
        for k in sorted(t):
            out.extend(_flat(t[k]))
        return out
    return [np.asarray(t)]


def tree_choose_cases(ctx, n_cases):
    import jax
    import jax.numpy as jnp
    from genjax._src.core.compiler.staging import tree_choose

    for ci in ctx.my_share(n_cases):
        rng = ctx.child_rng(1, ci)
        n = int(rng.integers(1, 5))
        st = _rand_struct(rng)
        hetero = rng.random() < 0.6
        base_dt = _DTYPES[int(rng.integers(3))]
        trees = []
        for _ in range(n):
            # same leaf dtypes within one tree position across choices unless hetero
            pos_rng = np.random.default_rng(int(rng.integers(1 << 30)))
            if hetero:
                trees.append(_instantiate(rng, st, lambda: _DTYPES[int(pos_rng.integers(len(_DTYPES)))]))
            else:
                trees.append(_instantiate(rng, st, lambda: base_dt))
        flats = [_flat(t) for t in trees]
        jtrees = [jax.tree_util.tree_map(jnp.asarray, t) for t in trees]
        for idx in range(-2 * n, 2 * n + 1):
            for rep in ("py", "arr", "traced"):
                try:
                    if rep == "py":
                        got = tree_choose(idx, jtrees)
                    elif rep == "arr":
                        got = tree_choose(jnp.asarray(idx, dtype=jnp.int32), jtrees)
                    else:
                        got = jax.jit(lambda i: tree_choose(i, jtrees))(jnp.asarray(idx, dtype=jnp.int32))
                except Exception as e:
                    ctx.violation(f"C20|op=tree_choose|on=staging|field=raises|cond={rep},{common.exc_mechanism(e)}", detail=f"idx={idx} n={n} struct={st}: {e}")
                    continue
                gflat = _flat(jax.tree_util.tree_map(np.asarray, got))
                k = idx % n
                ok = True
                why = ""
                for li, g in enumerate(gflat):
                    vs = [f[li] for f in flats]
                    exp_dt = np.result_type(*[v.dtype for v in vs])
                    exp = vs[k].astype(exp_dt)
                    if g.shape != exp.shape or not np.array_equal(g.astype(np.float64), exp.astype(np.float64)):
                        ok, why = False, f"leaf {li}: value {g.tolist()} vs {exp.tolist()}"
                        field = "value"
                        break
                    # dtype promotion (jax has no float64 by default; compare kinds+sizes that exist in both)
                    if np.dtype(g.dtype) != np.dtype(exp_dt) and not (exp_dt == np.float64 or exp_dt == np.int64):
                        ok, why = False, f"leaf {li}: dtype {g.dtype} vs promoted {exp_dt}"
                        field = "dtype"
                        break
                ctx.count("tree_choose_cases")
                ctx.evaluation(fingerprint=("tree_choose", rep, st[0], hetero, "neg" if idx < 0 else ("oob" if idx >= n else "in")), nontrivial=hetero or rep == "traced")
                if not ok:
                    cls = "neg" if idx < 0 else ("oob" if idx >= n else "in")
                    ctx.violation(f"C20|op=tree_choose|on=staging|field={field}|cond={rep},idx-{cls}", detail=f"idx={idx} n={n} {why}", structure=repr(st))
        ctx.sample({"helper": "tree_choose", "n": n, "structure": repr(st), "hetero": hetero, "idx_range": [-2 * n, 2 * n]}, limit=2)


def multi_switch_cases(ctx, n_cases):
    import jax
    import jax.numpy as jnp
    from genjax._src.core.compiler.staging import multi_switch

    for ci in ctx.my_share(n_cases):
        rng = ctx.child_rng(2, ci)
        n = int(rng.integers(1, 5))
        structs = [_rand_struct(rng) for _ in range(n)]
        consts = [_instantiate(rng, s, lambda: _DTYPES[int(rng.integers(3))]) for s in structs]
        xs = [float(np.round(rng.normal(), 3)) for _ in range(n)]

        def mk(i):
            c = jax.tree_util.tree_map(jnp.asarray, consts[i])

            def f(x):
                # output depends on the argument so that "ran" is distinguishable from a placeholder
                return jax.tree_util.tree_map(lambda v: (v.astype(jnp.float32) + x + 1.0).astype(v.dtype) if v.dtype != jnp.bool_ else jnp.logical_or(v, True), c)

            return f

        fns = [mk(i) for i in range(n)]
        args = [(jnp.asarray(x, dtype=jnp.float32),) for x in xs]
        expected = [_flat(jax.tree_util.tree_map(np.asarray, fns[i](*args[i]))) for i in range(n)]
        for idx in range(-n - 1, 2 * n + 1):
            for rep in ("py", "arr", "traced"):
                try:
                    if rep == "py":
                        got = multi_switch(idx, fns, args)
                    elif rep == "arr":
                        got = multi_switch(jnp.asarray(idx, dtype=jnp.int32), fns, args)
                    else:
                        got = jax.jit(lambda i: multi_switch(i, fns, args))(jnp.asarray(idx, dtype=jnp.int32))
                except Exception as e:
                    ctx.violation(f"C20|op=multi_switch|on=staging|field=raises|cond={rep},{common.exc_mechanism(e)}", detail=f"idx={idx} n={n}: {e}")
                    continue
                k = min(max(idx, 0), n - 1)
                ok, why, field = True, "", "value"
                if len(got) != n:
                    ok, why, field = False, f"{len(got)} slots for {n} branches", "slots"
                else:
                    for j in range(n):
                        gflat = _flat(jax.tree_util.tree_map(np.asarray, got[j]))
                        eflat = expected[j]
                        if len(gflat) != len(eflat):
                            ok, why, field = False, f"slot {j}: structure differs", "structure"
                            break
                        for g, e in zip(gflat, eflat):
                            if g.shape != e.shape or g.dtype != e.dtype:
                                ok, why, field = False, f"slot {j}: shape/dtype {g.shape}/{g.dtype} vs {e.shape}/{e.dtype}", "placeholder-shape"
                                break
                            if j == k:
                                if not np.array_equal(g, e):
                                    ok, why, field = False, f"selected slot {j}: {g.tolist()} vs {e.tolist()}", "selected"
                                    break
                            elif np.any(g != np.zeros_like(g)):
                                ok, why, field = False, f"non-selected slot {j} is not a zero placeholder: {g.tolist()}", "placeholder-zero"
                                break
                        if not ok:
                            break
                cls = "neg" if idx < 0 else ("oob" if idx >= n else "in")
                ctx.count("multi_switch_cases")
                ctx.evaluation(fingerprint=("multi_switch", rep, tuple(s[0] for s in structs), cls), nontrivial=n >= 2)
                if not ok:
                    ctx.violation(f"C20|op=multi_switch|on=staging|field={field}|cond={rep},idx-{cls}", detail=f"idx={idx} n={n} {why}")
        ctx.sample({"helper": "multi_switch", "n": n, "structures": [repr(s) for s in structs]}, limit=2)


def run(ctx):
    common.import_repo()
    if ctx.shard == 0:
        flagop_tables(ctx)
    else:
        # the reach counters of FlagOp must be non-zero in aggregate; other shards skip the table
        pass
    tree_choose_cases(ctx, ctx.pick(60, 1200))
    multi_switch_cases(ctx, ctx.pick(40, 800))
