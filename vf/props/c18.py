"""C18 — selections form a Boolean algebra over static addresses.

Runtime monitors (the oracle is vf/ref/c18_sel.py: a selection denotes a set of address tuples):

* membership   every real selection term t is asked ``t[a]`` / ``a in t`` for all 40 addresses a
               of length 0..3 over {a,b,c}; the answer must equal the Boolean combination of the
               atoms' reference memberships.
* commute      ``t(p)[q] == t[p+q]`` for every split p+q of every address, both through the
               component-by-component chain ``t(x)(y)(z).check()`` and through tuple prefixes.
* smart-vs-raw ``OrSel.build / AndSel.build / ComplementSel.build / StaticSel.build`` against the
               raw dataclass constructors ``OrSel(a,b)`` ... applied to the same operands (both
               also against the reference); operands are classified by simplification arm.
* deep         random terms of operator depth 3-4 (including ``.extend`` of compound terms) over
               the full 3-letter instantiation of every atom shape.
* chm-array    ``ChmSel`` operands whose choice maps hold array / traced values (the ``a == b``
               shortcut of the smart constructors must not change or prevent the answer).

Bounded-exhaustive part: all terms of operator depth <= 1 (quick) / <= 2 (thorough) over 16 atoms.
"""

from __future__ import annotations

import functools

import numpy as np

from vf import common
from vf.ref import c18_sel as R

W = R.WILD
M = "genjax._src.core.generative.choice_map"

ATOMS = [
    ("all",),
    ("none",),
    ("leaf",),
    ("at", ("a",)),
    ("at", ("b",)),
    ("at", ("a", "b")),
    ("at", ("b", "a")),
    ("at", (W, "b")),
    ("at", ("a", W)),
    ("at", ("a", "b", "c")),
    ("at", (W, W, "c")),
    ("at", (W,)),
    ("exact", ("a",)),
    ("exact", (W, "b")),
    ("chm", frozenset({("a",), ("b", "c")})),
    ("chm", frozenset({("a", "b"), ("c",)})),
]

_ANCH = [
    "OrSel.build", "AndSel.build", "ComplementSel.build", "StaticSel.build", "ChmSel.build",
    "OrSel.get_subselection", "AndSel.get_subselection", "ComplementSel.get_subselection",
    "StaticSel.get_subselection", "ChmSel.get_subselection", "LeafSel.get_subselection",
    "AllSel.get_subselection", "NoneSel.get_subselection",
    "Selection.__getitem__", "Selection.__call__", "Selection.__contains__", "Selection.extend",
]

CONFIG = {
    "level": "exploration",
    "exhaustive": True,
    "shards": {"quick": 16, "thorough": 16},
    "timeout_s": {"quick": 600, "thorough": 3000},
    "rule": "bounded-exhaustive: every term of operator depth <=1 (quick) / <=2 (thorough) over 16 atoms "
    "{all, none, leaf, at[a], at[b], at[a,b], at[b,a], at[...,b], at[a,...], at[a,b,c], at[...,...,c], at[...], "
    "leaf.extend(a), leaf.extend(...,b), 2 ChmSel of static maps} x all 40 addresses of length 0..3 over {a,b,c}; "
    "quick adds a seeded sample of the depth-2 space; both add random depth 3-4 terms over the full 3-letter "
    "instantiation. non-trivial: term has >=1 binary operator and >=1 wildcard or complement; distinct by term. "
    "exhaustive_complete counts shards that finished their whole share (must equal the shard count).",
    "reach_anchors": [f"{M}:{a}" for a in _ANCH],
    "reach_required": [f"{M}:{a}" for a in _ANCH],
    "counters_required": [
        "membership_checks", "commute_checks", "smart_vs_raw_checks", "random_deep_terms",
        "exhaustive_complete", "chm_array_checks",
    ],
    "assumptions": [
        "a selection denotes a set of static address tuples as documented in the Selection docstrings",
        "addresses bounded to length <=3 over a 3-letter alphabet",
    ],
}

ALPHA = ("a", "b", "c")
U = R.universe(ALPHA, 3)
UIDX = {a: i for i, a in enumerate(U)}
FULL = (1 << len(U)) - 1


# ----------------------------------------------------------------------------- real terms


class G:
    """Lazily bound genjax names."""

    ready = False

    @classmethod
    def load(cls):
        if cls.ready:
            return
        common.import_repo()
        from genjax import ChoiceMapBuilder as C
        from genjax import Selection
        from genjax._src.core.generative import choice_map as cm

        cls.S, cls.C, cls.cm = Selection, C, cm
        cls.ready = True


def realize(term):
    """Build the real genjax selection for a reference term with the public operators."""
    S = G.S
    k = term[0]
    if k == "all":
        return S.all()
    if k == "none":
        return S.none()
    if k == "leaf":
        return S.leaf()
    if k == "at":
        p = term[1]
        return S.at[p[0]] if len(p) == 1 else S.at[p]
    if k == "exact":
        return S.leaf().extend(*term[1])
    if k == "chm":
        maps = [G.C[a if len(a) > 1 else a[0]].set(float(i + 1)) for i, a in enumerate(sorted(term[1]))]
        return functools.reduce(lambda x, y: x | y, maps).get_selection()
    if k == "ext":
        return realize(term[2]).extend(term[1])
    if k == "not":
        return ~realize(term[1])
    if k == "or":
        return realize(term[1]) | realize(term[2])
    if k == "and":
        return realize(term[1]) & realize(term[2])
    raise ValueError(k)


def kind(term):
    k = term[0]
    if k in ("at", "exact"):
        return k + ("-wild" if any(c is W for c in term[1]) else "")
    if k == "ext":
        return "ext-wild" if term[1] is W else "ext"
    return k


def on_of(term):
    k = term[0]
    if k in ("or", "and"):
        return f"{k}({kind(term[1])},{kind(term[2])})"
    if k in ("not",):
        return f"not({kind(term[1])})"
    if k == "ext":
        return f"{kind(term)}({kind(term[2])})"
    return kind(term)


# ----------------------------------------------------------------------------- observation


def mask_direct(sel):
    """t[a] for every address (tuple form; string form for length 1 must agree)."""
    got = 0
    for i, a in enumerate(U):
        if sel[a]:
            got |= 1 << i
    return got


def mask_contains(sel):
    got = 0
    for i, a in enumerate(U):
        if a in sel:
            got |= 1 << i
    return got


def mask_walk(sel):
    """t(x)(y)(z).check(): membership through chained single-component sub-selections."""
    got = 0
    if sel.check():
        got |= 1
    for x in ALPHA:
        sx = sel(x)
        if sx.check():
            got |= 1 << UIDX[(x,)]
        for y in ALPHA:
            sxy = sx(y)
            if sxy.check():
                got |= 1 << UIDX[(x, y)]
            for z in ALPHA:
                if sxy(z).check():
                    got |= 1 << UIDX[(x, y, z)]
    return got


_PREFIXES = [a for a in U if 1 <= len(a) <= 2]
_SUFFIXES = {n: [a for a in U if len(a) <= 3 - n] for n in (1, 2)}


def mask_prefix_forms(sel):
    """t(p)[q] for tuple prefixes p of length 1..2 and every q with |p|+|q| <= 3.  Returns a list
    of (p, q, observed)."""
    out = []
    for p in _PREFIXES:
        sub = sel(p)
        for q in _SUFFIXES[len(p)]:
            out.append((p, q, bool(sub[q])))
    return out


def diff_bits(got, exp):
    return [(U[i], bool(got >> i & 1), bool(exp >> i & 1)) for i in range(len(U)) if (got ^ exp) >> i & 1]


def _report_mask(ctx, term, got, exp, op, field):
    for a, g, e in diff_bits(got, exp)[:3]:
        ctx.violation(
            f"C18|op={op}|on={on_of(term)}|field={field}|cond=addr-len{len(a)},{'spurious' if g else 'missing'}",
            detail=f"{R.show(term)} at address {a}: observed {g}, reference {e}",
            term=R.show(term), address=list(a), observed=g, expected=e,
        )


def check_term(ctx, term, exp, full, fp, label):
    """All monitors for one term.  exp = reference bitmask.  full: also tuple-prefix forms,
    `in`, and string-form lookups."""
    try:
        sel = realize(term)
        got = mask_direct(sel)
        walk = mask_walk(sel)
    except Exception as e:  # building or querying a static selection must not raise
        ctx.violation(
            f"C18|op=membership|on={on_of(term)}|field=raises|cond={common.exc_mechanism(e)}",
            detail=f"{R.show(term)}: {type(e).__name__}: {e}"[:400], term=R.show(term),
        )
        return None
    n = len(U)
    ctx.count("membership_checks", n)
    ctx.count("commute_checks", n)
    ctx.count(label)
    ctx.evaluation(fingerprint=fp, nontrivial=R.has_binary(term) and R.has_wild_or_not(term), n=2 * n)
    if got != exp:
        _report_mask(ctx, term, got, exp, "getitem", "member")
    if walk != exp:
        # membership through chained sub-selections differs from the reference
        if walk != got:
            _report_mask(ctx, term, walk, exp, "call-chain", "commute")
        else:
            pass  # already reported through getitem
    if full:
        try:
            cont = mask_contains(sel)
            ctx.count("membership_checks", n)
            if cont != exp:
                _report_mask(ctx, term, cont, exp, "contains", "member")
            for x in ALPHA:
                ctx.count("membership_checks")
                if bool(sel[x]) != bool(exp >> UIDX[(x,)] & 1):
                    _report_mask(ctx, term, (exp ^ (1 << UIDX[(x,)])), exp, "getitem-str", "member")
            forms = mask_prefix_forms(sel)
            ctx.count("commute_checks", len(forms))
            ctx.evaluation(n=n + 3 + len(forms), nontrivial=False)
            for p, q, g in forms:
                e = bool(exp >> UIDX[p + q] & 1)
                if g != e:
                    ctx.violation(
                        f"C18|op=call-prefix|on={on_of(term)}|field=commute|cond=prefix-len{len(p)},suffix-len{len(q)}",
                        detail=f"{R.show(term)}: S({p})[{q}] = {g} but reference S[{p + q}] = {e} (real S[...]={bool(got >> UIDX[p + q] & 1)})",
                        term=R.show(term),
                    )
                    break
        except Exception as e:
            ctx.violation(
                f"C18|op=commute|on={on_of(term)}|field=raises|cond={common.exc_mechanism(e)}",
                detail=f"{R.show(term)}: {type(e).__name__}: {e}"[:400], term=R.show(term),
            )
    return sel


# ----------------------------------------------------------------------------- term spaces


def terms_depth1():
    """T1: atoms, ~atom, atom|atom, atom&atom (544 terms) with reference bitmasks."""
    out = [(t, R.bitmask(t, U)) for t in ATOMS]
    base = list(out)
    out += [(("not", t), FULL & ~m) for t, m in base]
    for t, m in base:
        for u, k in base:
            out.append((("or", t, u), m | k))
            out.append((("and", t, u), m & k))
    return out


def depth2_term(T1, i):
    """i-th term of the depth-2 layer: ~x (x in T1) then x|y, x&y (x,y in T1)."""
    n = len(T1)
    if i < n:
        t, m = T1[i]
        return ("not", t), FULL & ~m
    j = i - n
    op = j % 2
    j //= 2
    (t, m), (u, k) = T1[j // n], T1[j % n]
    return (("or", t, u), m | k) if op == 0 else (("and", t, u), m & k)


def depth2_size(T1):
    return len(T1) + 2 * len(T1) ** 2


# ----------------------------------------------------------------------------- smart vs raw


def _arm2(ta, tb):
    if ta[0] == "all":
        return "all-left"
    if tb[0] == "all":
        return "all-right"
    if ta[0] == "none":
        return "none-left"
    if tb[0] == "none":
        return "none-right"
    if ta == tb:
        return "equal"
    return "general"


def smart_vs_raw(ctx, pairs, singles):
    cm = G.cm
    n = len(U)
    for (ta, ma), (tb, mb) in pairs:
        arm = _arm2(ta, tb)
        try:
            a, b = realize(ta), realize(tb)
            for name, smart, raw, exp in (
                ("or", cm.OrSel.build, cm.OrSel, ma | mb),
                ("and", cm.AndSel.build, cm.AndSel, ma & mb),
            ):
                gs = mask_direct(smart(a, b))
                gr = mask_direct(raw(a, b))
                ctx.count("smart_vs_raw_checks", n)
                ctx.count(f"arm_{name}_{arm}")
                ctx.evaluation(fingerprint=("svr", name, R.show(ta), R.show(tb)), nontrivial=True, n=2 * n)
                term = (name, ta, tb)
                if gs != gr:
                    for adr, g, e in diff_bits(gs, gr)[:2]:
                        ctx.violation(
                            f"C18|op={name}.build|on={kind(ta)},{kind(tb)}|field=smart-vs-raw|cond=arm-{arm}",
                            detail=f"{name}.build({R.show(ta)}, {R.show(tb)})[{adr}] = {g}, raw constructor gives {e}, reference {bool(exp >> UIDX[adr] & 1)}",
                        )
                if gr != exp:
                    _report_mask(ctx, term, gr, exp, f"{name}.raw", "member")
                if gs != exp and gs == gr:
                    _report_mask(ctx, term, gs, exp, f"{name}.build", "member")
        except Exception as e:
            ctx.violation(
                f"C18|op=build|on={kind(ta)},{kind(tb)}|field=raises|cond=arm-{arm},{common.exc_mechanism(e)}",
                detail=f"{R.show(ta)} , {R.show(tb)}: {type(e).__name__}: {e}"[:400],
            )
    for ta, ma in singles:
        try:
            a = realize(ta)
            arm = ta[0] if ta[0] in ("all", "none", "not") else "general"
            gs = mask_direct(cm.ComplementSel.build(a))
            gr = mask_direct(cm.ComplementSel(a))
            exp = FULL & ~ma
            ctx.count("smart_vs_raw_checks", n)
            ctx.count(f"arm_not_{arm}")
            ctx.evaluation(fingerprint=("svr", "not", R.show(ta)), nontrivial=True, n=2 * n)
            if gs != gr:
                adr, g, e = diff_bits(gs, gr)[0]
                ctx.violation(
                    f"C18|op=not.build|on={kind(ta)}|field=smart-vs-raw|cond=arm-{arm}",
                    detail=f"ComplementSel.build({R.show(ta)})[{adr}] = {g}, raw ComplementSel gives {e}, reference {bool(exp >> UIDX[adr] & 1)}",
                )
            if gr != exp:
                _report_mask(ctx, ("not", ta), gr, exp, "not.raw", "member")
            if gs != exp and gs == gr:
                _report_mask(ctx, ("not", ta), gs, exp, "not.build", "member")
            for c in ("a", "b", W):
                arm = "none" if ta[0] == "none" else "general"
                gs = mask_direct(cm.StaticSel.build(a, c))
                gr = mask_direct(cm.StaticSel(a, c))
                exp = R.bitmask(("ext", c, ta), U)
                ctx.count("smart_vs_raw_checks", n)
                ctx.count(f"arm_static_{arm}")
                ctx.evaluation(n=2 * n, nontrivial=False)
                cn = "wild" if c is W else "name"
                if gs != gr:
                    adr, g, e = diff_bits(gs, gr)[0]
                    ctx.violation(
                        f"C18|op=static.build|on={kind(ta)}|field=smart-vs-raw|cond=arm-{arm},comp-{cn}",
                        detail=f"StaticSel.build({R.show(ta)}, {c!r})[{adr}] = {g}, raw StaticSel gives {e}, reference {bool(exp >> UIDX[adr] & 1)}",
                    )
                if gr != exp:
                    _report_mask(ctx, ("ext", c, ta), gr, exp, "static.raw", "member")
                if gs != exp and gs == gr:
                    _report_mask(ctx, ("ext", c, ta), gs, exp, "static.build", "member")
        except Exception as e:
            ctx.violation(
                f"C18|op=build|on={kind(ta)}|field=raises|cond=unary,{common.exc_mechanism(e)}",
                detail=f"{R.show(ta)}: {type(e).__name__}: {e}"[:400],
            )


# ----------------------------------------------------------------------------- random deep terms


def random_atom(rng):
    r = rng.random()
    if r < 0.08:
        return ("all",)
    if r < 0.14:
        return ("none",)
    if r < 0.22:
        return ("leaf",)
    if r < 0.30:
        # a ChmSel over a random prefix-free static address set
        addrs = set()
        for _ in range(int(rng.integers(1, 4))):
            n = int(rng.integers(1, 4))
            a = tuple(ALPHA[int(rng.integers(3))] for _ in range(n))
            if not any(a[: len(b)] == b or b[: len(a)] == a for b in addrs):
                addrs.add(a)
        return ("chm", frozenset(addrs))
    n = int(rng.integers(1, 4))
    p = tuple(W if rng.random() < 0.3 else ALPHA[int(rng.integers(3))] for _ in range(n))
    return ("at", p) if rng.random() < 0.7 else ("exact", p)


def random_term(rng, depth):
    if depth == 0:
        return random_atom(rng)
    r = rng.random()
    if r < 0.22:
        return ("not", random_term(rng, depth - 1))
    if r < 0.34:
        c = W if rng.random() < 0.3 else ALPHA[int(rng.integers(3))]
        return ("ext", c, random_term(rng, depth - 1))
    # one side has full depth, the other a random smaller depth
    a = random_term(rng, depth - 1)
    b = random_term(rng, int(rng.integers(0, depth)))
    if rng.random() < 0.5:
        a, b = b, a
    return ("or" if rng.random() < 0.5 else "and", a, b)


def deep_terms(ctx, count):
    for ci in ctx.my_share(count):
        rng = ctx.child_rng(3, ci)
        t = random_term(rng, int(rng.integers(3, 5)))
        check_term(ctx, t, R.bitmask(t, U), full=(ci % 4 == 0), fp=("deep", R.show(t)), label="random_deep_terms")
        ctx.sample({"monitor": "deep", "term": R.show(t), "selected_of_40": bin(R.bitmask(t, U)).count("1")}, limit=2)


# ----------------------------------------------------------------------------- ChmSel with array leaves


def chm_array(ctx):
    """Union / intersection / complement of ChmSel operands whose choice maps hold array values
    (eager) or traced values (under jit).  The reference only looks at addresses."""
    import jax
    import jax.numpy as jnp

    C = G.C
    n = len(U)
    shapes = {
        "scalar-array": lambda k: jnp.asarray(float(k)),
        "vector": lambda k: jnp.asarray([float(k), float(k) + 0.5]),
    }
    layouts = [
        ("same-addresses", [("a",), ("b", "c")], [("a",), ("b", "c")]),
        ("overlapping", [("a",), ("b", "c")], [("a",), ("c",)]),
        ("disjoint", [("a", "b")], [("b",)]),
    ]

    def build(addrs, mk, base):
        maps = [C[a if len(a) > 1 else a[0]].set(mk(base + i)) for i, a in enumerate(addrs)]
        return functools.reduce(lambda x, y: x | y, maps)

    for sname, mk in shapes.items():
        for lname, A, B in layouts:
            for same_vals in (True, False):
                ta, tb = ("chm", frozenset(A)), ("chm", frozenset(B))
                ma, mb = R.bitmask(ta, U), R.bitmask(tb, U)
                for opn, exp in (("or", ma | mb), ("and", ma & mb)):
                    cond = f"{sname},{lname},{'equal' if same_vals else 'different'}-values"
                    try:
                        sa = build(A, mk, 1).get_selection()
                        sb = build(B, mk, 1 if same_vals else 7).get_selection()
                        sel = (sa | sb) if opn == "or" else (sa & sb)
                        got = mask_direct(sel)
                    except Exception as e:
                        ctx.count("chm_array_checks")
                        ctx.violation(
                            f"C18|op={opn}.build|on=ChmSel,ChmSel|field=raises|cond=array-valued-leaves,{common.exc_mechanism(e)}",
                            detail=f"ChmSel {opn} ChmSel with {cond}: {type(e).__name__}: {e}"[:300],
                        )
                        continue
                    ctx.count("chm_array_checks", n)
                    ctx.evaluation(fingerprint=("chm-array", opn, cond), nontrivial=True, n=n)
                    if got != exp:
                        _report_mask(ctx, (opn, ta, tb), got, exp, f"{opn}.chm-array", "member")
    # traced leaves: the whole construction runs under jit, memberships are static Python bools
    for lname, A, B in layouts:
        ta, tb = ("chm", frozenset(A)), ("chm", frozenset(B))
        ma, mb = R.bitmask(ta, U), R.bitmask(tb, U)
        for opn, exp in (("or", ma | mb), ("and", ma & mb)):
            box = {}

            def f(x, y, A=A, B=B, opn=opn, box=box):
                sa = build(A, lambda k: x + k, 0).get_selection()
                sb = build(B, lambda k: y + k, 0).get_selection()
                sel = (sa | sb) if opn == "or" else (sa & sb)
                box["got"] = mask_direct(sel)
                return x

            try:
                jax.jit(f)(jnp.asarray(1.0), jnp.asarray(2.0))
                got = box["got"]
            except Exception as e:
                ctx.count("chm_array_checks")
                ctx.violation(
                    f"C18|op={opn}.build|on=ChmSel,ChmSel|field=raises|cond=traced-leaves,{common.exc_mechanism(e)}",
                    detail=f"ChmSel {opn} ChmSel ({lname}) under jit: {type(e).__name__}: {e}"[:300],
                )
                continue
            ctx.count("chm_array_checks", n)
            ctx.evaluation(fingerprint=("chm-traced", opn, lname), nontrivial=True, n=n)
            if got != exp:
                _report_mask(ctx, (opn, ta, tb), got, exp, f"{opn}.chm-traced", "member")


# ----------------------------------------------------------------------------- run


def run(ctx):
    G.load()
    T1 = terms_depth1()
    n1 = len(T1)

    # --- layer <=1 : exhaustive in both tiers, with every lookup form
    for i in ctx.my_share(n1):
        t, m = T1[i]
        lab = "terms_depth0" if i < len(ATOMS) else "terms_depth1"
        check_term(ctx, t, m, full=True, fp=("d1", i), label=lab)
        if i >= 100 and i % 7 == 0:
            ctx.sample({"monitor": "exhaustive-depth1", "term": R.show(t), "selected_of_40": bin(m).count("1")}, limit=3)

    # at[()] is documented to be leaf
    if ctx.shard == 0:
        try:
            got = mask_direct(G.S.at[()])
            ctx.count("membership_checks", len(U))
            ctx.evaluation(n=len(U), nontrivial=False)
            if got != R.bitmask(("leaf",), U):
                _report_mask(ctx, ("at", ()), got, R.bitmask(("leaf",), U), "getitem", "member")
        except Exception as e:
            ctx.violation(f"C18|op=membership|on=at-empty|field=raises|cond={common.exc_mechanism(e)}", detail=str(e)[:300])
        chm_array(ctx)

    # --- smart constructors vs raw dataclass constructors
    atoms = T1[: len(ATOMS)]
    pairs = [(x, y) for x in atoms for y in atoms]
    # pairs over the depth-1 layer: seeded sample (quick) / larger sample (thorough)
    rng = np.random.default_rng([ctx.seed, 18, 77])
    extra = ctx.pick(600, 20000)
    idx = rng.integers(0, n1, size=(extra, 2))
    pairs += [(T1[int(a)], T1[int(b)]) for a, b in idx]
    # equal operands of depth 1 (the `a == b` arm with compound operands)
    pairs += [(T1[int(a)], T1[int(a)]) for a in rng.integers(len(ATOMS), n1, size=ctx.pick(60, 600))]
    my_pairs = [pairs[i] for i in ctx.my_share(len(pairs))]
    my_singles = [T1[i] for i in ctx.my_share(n1)]
    smart_vs_raw(ctx, my_pairs, my_singles)

    # --- layer 2
    n2 = depth2_size(T1)
    if ctx.quick():
        # seeded sample of the depth-2 space (not claimed exhaustive)
        k = 32000
        picks = np.random.default_rng([ctx.seed, 18, 5]).integers(0, n2, size=k)
        for j in ctx.my_share(k):
            i = int(picks[j])
            t, m = depth2_term(T1, i)
            check_term(ctx, t, m, full=(j % 8 == 0), fp=("d2", i), label="terms_depth2_sampled")
        if ctx.shard == 0:
            ctx.note(f"exhaustive space (quick): {n1} terms of depth<=1 x {len(U)} addresses; depth-2 layer sampled ({k} of {n2}); exhaustive_complete must equal {ctx.nshards}")
    else:
        for i in ctx.my_share(n2):
            t, m = depth2_term(T1, i)
            check_term(ctx, t, m, full=(i % 16 == 0), fp=("d2", i), label="terms_depth2")
            if i >= 5000 and i % 1009 == 0:
                ctx.sample({"monitor": "exhaustive-depth2", "term": R.show(t), "selected_of_40": bin(m).count("1")}, limit=3)
        if ctx.shard == 0:
            ctx.note(f"exhaustive space (thorough): {n1} + {n2} terms of depth<=2 x {len(U)} addresses; exhaustive_complete must equal {ctx.nshards}")
    # every index of this shard's share of the bounded space was run (no time budget cuts it)
    ctx.count("exhaustive_complete")

    # --- random deep terms over the full instantiation
    deep_terms(ctx, ctx.pick(4800, 120000))
