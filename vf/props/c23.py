"""C23 — GFI results are invariant under jax.jit and consistent under jax.vmap.

Differential monitor, the eager / unbatched run is the oracle (no probes inside compared runs):
* jit: simulate, assess, importance, update (edit), project inside jax.jit == eager, on normalised
  observables (choices as finite maps, masks as flag + valid value, scores, weights, retvals,
  backward constraints).  Python-level flags / indices of the eager run become traced values
  under jit, which targets the concrete-vs-traced shortcuts of the library.
* vmap: jax.vmap over keys, over arguments and over constraint values; slice i of the batched
  result == the unbatched call on the i-th inputs.
"""

from __future__ import annotations

import numpy as np

from vf import common, engine
from vf.engine import Discard
from vf.prog import ast, build, gen, obs, tree
from vf.props import _drive

S = "genjax._src.core.compiler.staging"
CONFIG = {
    "level": "exploration",
    "shards": {"quick": 16, "thorough": 16},
    "timeout_s": {"quick": 900, "thorough": 5400},
    "rule": "case = generated program + one op (simulate / assess / importance / update / project) run eagerly, under jax.jit (python flags and indices become traced) and under jax.vmap over keys / arguments / constraint values (batch 3), compared observable by observable. non-trivial: the program takes a flag or index argument, or has a combinator, and >=1 compared op is an edit; distinct by (AST shape, op, mode).",
    "reach_anchors": [f"{S}:FlagOp.cond", f"{S}:FlagOp.where", "genjax._src.core.generative.functional_types:Mask.flatten", "genjax._src.generative_functions.combinators.switch:Switch.simulate", "genjax._src.generative_functions.combinators.mask:MaskCombinator.edit"],
    "reach_required": [f"{S}:FlagOp.cond"],
    "counters_required": ["mode_comparisons", "mode:jit", "mode:vmap-keys"],
    "assumptions": ["eager execution is the oracle", "float32 tolerance between eager and compiled code (fusion reorders sums)"],
}


def run(ctx):
    n = ctx.pick(96, 900)
    budget = ctx.pick(60, 420)
    ctx.budget = budget
    for ci in ctx.my_share(n):
        if ctx.elapsed() > budget:
            ctx.note(f"time budget reached at case {ci}")
            break
        rng = ctx.child_rng(ci)
        try:
            one_case(ctx, rng, ci)
        except Discard as d:
            ctx.count("discarded:" + d.why.split(":")[0])
        except Exception as e:
            import traceback

            ctx.count("harness_errors")
            ctx.note(f"harness error case {ci}: {type(e).__name__}: {e} {traceback.format_exc()[-600:]}")


def _norm(node, tr):
    ex = obs.valid_assignment(obs.extract(node, tr.get_choices()))
    return ex, np.asarray(tr.get_score(), dtype=np.float64), build.from_real(tr.get_retval())


def _diff(a, b, unspecified_ret=False):
    ea, sa, ra = a
    eb, sb, rb = b
    if set(ea) != set(eb):
        return f"address sets differ {sorted(set(ea) ^ set(eb), key=repr)[:3]}"
    for p in ea:
        if not common.close(np.asarray(ea[p], dtype=np.float64), np.asarray(eb[p], dtype=np.float64), rtol=1e-5, atol=1e-5):
            return f"choice {p}: {engine._d(ea[p])} vs {engine._d(eb[p])}"
    if np.all(np.isfinite(sb)) and not common.close(sa, sb, terms=max(1, len(ea))):
        return f"score {sa} vs {sb}"
    if not unspecified_ret:
        d = tree.tcompare(ra, rb, common.close)
        if d:
            return "retval " + d
    return None


def _slice(tr, i):
    import jax

    return jax.tree_util.tree_map(lambda v: v[i], tr)


def one_case(ctx, rng, ci):
    import jax
    import jax.numpy as jnp
    from genjax import ChoiceMap, Diff, Update

    depth = int(rng.choice([1, 2])) if ctx.quick() else int(rng.choice([1, 2, 2, 3]))
    r = rng.random()
    root = ["Mask", "Switch", "OrElse", "Mix"] if r < 0.4 else None
    cfg = gen.Cfg(depth=depth, root=root, kinds=[k for k in gen.ALL_KINDS if k != "MaskedIterate"], hostile_idx=rng.random() < 0.2)
    node = gen.gen_program(rng, cfg)
    args = gen.gen_args(rng, node, concrete_flags=0.6)
    case = engine.Case(node, f"C23/s{ctx.seed}/sh{ctx.shard}/{ci}")
    gf = case.gf
    ra = engine.real_args(args)            # python flags / indices stay python
    ja = build.to_real(build.strip_py(args))  # everything an array (what jit/vmap see)
    kk = (ctx.seed * 6007 + ci * 29) % (2**30)
    key = engine.key(kk)
    hist = [f"args={_drive._short(args, 160)}"]
    has_flag = any(isinstance(a, build.PyVal) for a in args)
    unspec = any(isinstance(n, ast.MaskedIterate) for n in node.walk())
    edits = 0

    def report(op, mode, d):
        ctx.violation(
            f"C23|op={op}|on={node.kind}|field=differs|cond={mode}" + (",concrete-flag" if has_flag and mode == "jit" else ""),
            case=case.cid, detail=f"{op}: eager vs {mode}: {d}", program=case.src, history=hist,
        )

    def cmp(op, mode, a, b):
        ctx.count("mode_comparisons")
        ctx.count("mode:" + mode)
        ctx.count(f"cmp:{op}:{mode}")
        d = _diff(a, b, unspec)
        if d:
            report(op, mode, d)

    def cmpw(op, mode, wa, wb, n=4):
        ctx.count("mode_comparisons")
        wa, wb = float(np.asarray(wa)), float(np.asarray(wb))
        if np.isfinite(wb) and not common.close(wa, wb, terms=n):
            report(op, mode, f"weight {wa} vs {wb}")

    def lib(op, f):
        """Both modes must be able to run: an exception in the eager oracle rejects the case,
        an exception only in the transformed mode is a violation."""
        try:
            return f()
        except Exception as e:  # noqa
            return e

    # ---------------- simulate
    e0 = lib("simulate", lambda: gf.simulate(key, ra))
    if isinstance(e0, Exception):
        ctx.reject("eager-simulate:" + common.exc_mechanism(e0))
        return
    n0 = _norm(node, e0)
    j0 = lib("simulate", lambda: jax.jit(gf.simulate)(key, ja))
    if isinstance(j0, Exception):
        report("simulate", "jit", f"raised {common.exc_mechanism(j0)}: {str(j0)[:120]}")
    else:
        cmp("simulate", "jit", _norm(node, j0), n0)
    B = 3
    keys = jax.random.split(engine.key(kk + 1), B)
    vk = lib("simulate", lambda: jax.vmap(gf.simulate, in_axes=(0, None))(keys, ja))
    if isinstance(vk, Exception):
        report("simulate", "vmap-keys", f"raised {common.exc_mechanism(vk)}: {str(vk)[:120]}")
    else:
        for i in range(B):
            ei = lib("simulate", lambda: gf.simulate(keys[i], ja))
            if isinstance(ei, Exception):
                break
            cmp("simulate", "vmap-keys", _norm(node, _slice(vk, i)), _norm(node, ei))
    # vmap over arguments (all array-valued)
    if args and rng.random() < 0.6:
        alts = [build.to_real(build.strip_py(gen.perturb_args(rng, node, args, p=0.7))) for _ in range(B)]
        try:
            stacked = jax.tree_util.tree_map(lambda *xs: jnp.stack(xs), *alts)
            va = lib("simulate", lambda: jax.vmap(gf.simulate, in_axes=(None, 0))(key, stacked))
            if isinstance(va, Exception):
                report("simulate", "vmap-args", f"raised {common.exc_mechanism(va)}: {str(va)[:120]}")
            else:
                for i in range(B):
                    ei = lib("simulate", lambda: gf.simulate(key, alts[i]))
                    if isinstance(ei, Exception):
                        break
                    cmp("simulate", "vmap-args", _norm(node, _slice(va, i)), _norm(node, ei))
        except Exception as e:
            ctx.count("vmap_args_skipped")
    # ---------------- importance / assess / update / project on the eager trace
    if ctx.elapsed() > getattr(ctx, "budget", 1e9):
        ctx.evaluation(fingerprint=(node.shape_sig(), "sim-only"), nontrivial=False)
        ctx.count("cases_cut_by_budget")
        return
    rec = engine.observe(case, e0, args, [], what="simulate")
    if rec is None:
        ctx.evaluation(fingerprint=(node.shape_sig(), "sim-only"), nontrivial=False)
        return
    vals = engine.gen_constraint(rng, case, rec, args)
    chm = obs.build_constraint(vals)
    hist.append(f"constraint={_drive._short(vals, 120)}")
    ei = lib("importance", lambda: gf.importance(key, chm, ra))
    if not isinstance(ei, Exception):
        ji = lib("importance", lambda: jax.jit(gf.importance)(key, chm, ja))
        if isinstance(ji, Exception):
            report("importance", "jit", f"raised {common.exc_mechanism(ji)}: {str(ji)[:120]}")
        else:
            cmp("importance", "jit", _norm(node, ji[0]), _norm(node, ei[0]))
            cmpw("importance", "jit", ji[1], ei[1], max(1, len(vals)))
        # vmap over constraint values
        if vals and rng.random() < 0.7:
            alts = []
            for _ in range(B):
                alts.append({p: engine.sample_site_value(rng, _site_dist(node, p)) for p in vals})
            chms = [obs.build_constraint(a) for a in alts]
            try:
                stacked = jax.tree_util.tree_map(lambda *xs: jnp.stack(xs), *chms)
                vc = lib("importance", lambda: jax.vmap(gf.importance, in_axes=(None, 0, None))(key, stacked, ja))
                if isinstance(vc, Exception):
                    report("importance", "vmap-constraints", f"raised {common.exc_mechanism(vc)}: {str(vc)[:120]}")
                else:
                    for i in range(B):
                        e_i = lib("importance", lambda: gf.importance(key, chms[i], ja))
                        if isinstance(e_i, Exception):
                            break
                        cmp("importance", "vmap-constraints", _norm(node, _slice(vc[0], i)), _norm(node, e_i[0]))
                        cmpw("importance", "vmap-constraints", vc[1][i], e_i[1], max(1, len(vals)))
            except Exception:
                ctx.count("vmap_constraints_skipped")
    # assess
    # choices from a trace made with array-valued arguments: with a traced switch index assess
    # needs every branch's (masked) addresses, which only such a trace's choice map carries
    # (DESIGN.md 13.4); a python-int index yields the selected branch's map only
    e_arr = lib("simulate", lambda: gf.simulate(key, ja))
    own = e_arr.get_choices() if not isinstance(e_arr, Exception) else e0.get_choices()
    ea = lib("assess", lambda: gf.assess(own, ja))
    if not isinstance(ea, Exception):
        jas = lib("assess", lambda: jax.jit(gf.assess)(own, ja))
        if isinstance(jas, Exception):
            report("assess", "jit", f"raised {common.exc_mechanism(jas)}: {str(jas)[:120]}")
        else:
            cmpw("assess", "jit", jas[0], ea[0], max(1, len(rec.assign)))
            ctx.count("mode:jit")
            if not unspec:
                d = tree.tcompare(build.from_real(jas[1]), build.from_real(ea[1]), common.close)
                if d:
                    report("assess", "jit", "retval " + d)
    # update
    new_args = gen.perturb_args(rng, node, args) if rng.random() < 0.5 else args
    rn = engine.real_args(new_args)
    jn = build.to_real(build.strip_py(new_args))
    vals2 = engine.gen_constraint(rng, case, rec, args)
    chm2 = obs.build_constraint(vals2)
    hist.append(f"update constraint={_drive._short(vals2, 100)} new_args={_drive._short(new_args, 100)}")
    eu = lib("update", lambda: e0.edit(key, Update(chm2), Diff.unknown_change(rn)))
    if not isinstance(eu, Exception):
        edits += 1

        def jupd(k, tr, c, a):
            return tr.edit(k, Update(c), Diff.unknown_change(a))

        ju = lib("update", lambda: jax.jit(jupd)(key, e0, chm2, jn))
        if isinstance(ju, Exception):
            report("update", "jit", f"raised {common.exc_mechanism(ju)}: {str(ju)[:120]}")
        else:
            cmp("update", "jit", _norm(node, ju[0]), _norm(node, eu[0]))
            cmpw("update", "jit", ju[1], eu[1], max(1, 2 * len(rec.assign)))
            try:
                d0 = obs.valid_assignment(obs.extract(node, eu[3].constraint))
                d1 = obs.valid_assignment(obs.extract(node, ju[3].constraint))
                ctx.count("mode_comparisons")
                if set(d0) != set(d1) or any(not engine._same_value(d0[p], d1[p]) for p in d0):
                    report("update", "jit", f"backward constraints differ {sorted(set(d0) ^ set(d1), key=repr)[:3]}")
            except Exception:
                pass
    # project
    term = obs.gen_selection(rng, node, depth=1)
    sel = obs.build_selection(term)
    ep = lib("project", lambda: e0.project(key, sel))
    if not isinstance(ep, Exception):
        jp = lib("project", lambda: jax.jit(lambda k, tr: tr.project(k, sel))(key, e0))
        if isinstance(jp, Exception):
            report("project", "jit", f"raised {common.exc_mechanism(jp)}: {str(jp)[:120]}")
        else:
            cmpw("project", "jit", jp, ep, max(1, len(rec.assign)))
    # ---------------- one jitted driver shared by two functions that differ only in a captured
    # constant (same source line): the compiled code of the first must not be reused for the second
    if not unspec and ci % 3 == 0:
        import jax.tree_util as jtu

        def _shift(r, off):
            return jtu.tree_map(lambda x: x + off if jnp.issubdtype(jnp.asarray(x).dtype, jnp.floating) else x, r)

        def mk(off):
            return gf.map(lambda r: _shift(r, off))

        g1, g2 = mk(0.25), mk(10.5)
        drv = jax.jit(lambda g, k, a: g.simulate(k, a).get_retval())
        outs = lib("simulate", lambda: (drv(g1, key, ja), drv(g2, key, ja)))
        refs = lib("simulate", lambda: (g1.simulate(key, ja).get_retval(), g2.simulate(key, ja).get_retval()))
        if isinstance(refs, Exception):
            ctx.count("shared_driver_skipped")
        elif isinstance(outs, Exception):
            report("simulate", "shared-jit-driver", f"raised {common.exc_mechanism(outs)}: {str(outs)[:120]}")
        else:
            for which, (o, r) in enumerate(zip(outs, refs)):
                ctx.count("mode_comparisons")
                ctx.count("mode:shared-jit-driver")
                d = tree.tcompare(build.from_real(o), build.from_real(r), common.close)
                if d:
                    report("simulate", "shared-jit-driver", f"function #{which + 1} through the shared driver: retval {d}")
    nt = (has_flag or any(k not in ("Dist", "Static") for k in case.kinds)) and edits > 0
    ctx.evaluation(fingerprint=(node.shape_sig(), has_flag), nontrivial=nt)
    ctx.sample({"case": case.cid, "program": case.src, "history": hist}, limit=2)


def _site_dist(node, path):
    for s in node.sites():
        for p, _ in s.paths():
            if p == path:
                return s.dist
    raise KeyError(path)
