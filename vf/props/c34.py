"""C34 — get_subtrace returns the sub-execution at an address.

For every address the program traced (string and tuple addresses of a static function; the same
through vmap / scan / switch / dimap / mask wrappers, where the subtrace is the stacked one):
the subtrace's choices equal the parent's sub-map at that address, and its score (summed over
the stacked axes) equals that call's contribution to the parent's score per the reference model.
"""

import numpy as np

from vf import common, engine
from vf.engine import Issue
from vf.prog import ast, gen, obs
from vf.props import _drive

G = "genjax._src.generative_functions"
CONFIG = {
    "level": "exploration",
    "shards": {"quick": 16, "thorough": 16},
    "timeout_s": {"quick": 900, "thorough": 5400},
    "rule": "case = generated program whose (possibly wrapped) root is a static function + trace (simulate/importance/update/IndexRequest edit on vector roots) + get_subtrace at every traced address incl. tuple addresses and two-level chains; compared: subtrace choices vs parent's submap, subtrace score (summed over stacked axes) vs the reference model's contribution of that call. non-trivial: the addressed callee is itself a combinator or nested static function, or the root is wrapped in a vector combinator; distinct by (AST shape, wrapper path, address kind).",
    "reach_anchors": [f"{G}.static:StaticTrace.get_inner_trace", f"{G}.combinators.vmap:VmapTrace.get_inner_trace", f"{G}.combinators.scan:ScanTrace.get_inner_trace", f"{G}.combinators.switch:SwitchTrace.get_inner_trace", f"{G}.combinators.dimap:DimapTrace.get_inner_trace", f"{G}.combinators.mask:MaskTrace.get_inner_trace"],
    "reach_required": [f"{G}.static:StaticTrace.get_inner_trace", f"{G}.combinators.vmap:VmapTrace.get_inner_trace", f"{G}.combinators.scan:ScanTrace.get_inner_trace", f"{G}.combinators.dimap:DimapTrace.get_inner_trace"],
    "counters_required": ["subtrace_checks"],
    "assumptions": ["reference interpreter's per-call score contributions (sum of the live terms under the call's path)"],
}

WRAP = ["Vmap", "Repeat", "Scan", "Accumulate", "Iterate", "Dimap", "Mask", "Switch"]


def cfg_fn(rng, ctx):
    depth = 2 if ctx.quick() else int(rng.choice([2, 3]))
    r = rng.random()
    if r < 0.45:
        return gen.Cfg(depth=depth, root="Static", tuple_addr=0.4, hostile_idx=rng.random() < 0.5, weights={"Switch": 2.0})
    return gen.Cfg(depth=depth + (1 if depth < 3 else 0), root=WRAP + ["Switch"], tuple_addr=0.4, hostile_idx=rng.random() < 0.6, weights={"Static": 6.0})


def _static_under(node, rargs=None):
    """Follow single-child wrappers (and the selected branch of a root switch) down to the
    first static function; returns (static node, pattern prefix of index levels) or None."""
    prefix = ()
    n = node
    if isinstance(n, ast.Switch) and rargs is not None:
        n = n.branches[n.clamp(rargs[0])]
    for _ in range(4):
        if isinstance(n, ast.Static):
            return n, prefix
        if isinstance(n, (ast.Vmap, ast.Repeat, ast.Scan, ast.Accumulate, ast.Iterate, ast.MaskedIterateFinal)):
            prefix = prefix + (("#", n.n),)
            n = n.children[0]
        elif isinstance(n, (ast.Dimap, ast.Mask)):
            n = n.children[0]
        else:
            return None
    return None


def h_subtrace(ctx, plan, case, rec, rng, nk, hist, route, guarded):
    found = _static_under(case.node, rec.rargs)
    if found is None:
        return None
    st, prefix = found
    if not st.stmts:
        return None
    import jax

    issues = []
    dims = tuple(c[1] for c in prefix)
    masky = bool({"Mask", "Switch", "OrElse", "Mix", "MaskedIterateFinal", "MaskedIterate"} & case.kinds)
    for s in st.stmts:
        comps = ast.addr_components(s.addr)
        try:
            sub = rec.tr.get_subtrace(s.addr)
        except Exception as e:
            issues.append(Issue("subtrace.raises", f"get_subtrace({s.addr!r}) raised {common.exc_mechanism(e)}: {str(e)[:100]}", common.exc_mechanism(e)))
            continue
        # choices: the callee's sites relative to the subtrace, with the wrappers' index levels leading
        sites = s.callee.sites(prefix)
        try:
            # a stacked subtrace's choices are read the way the library itself reads them
            # (ScanTrace.build / VmapTrace.build): get_choices() mapped over the stacked axes
            getc = lambda t: t.get_choices()  # noqa
            for _ in dims:
                getc = jax.vmap(getc)
            sub_chm = getc(sub)
        except Exception as e:
            issues.append(Issue("subtrace.raises", f"choices of the subtrace at {s.addr!r} unreadable: {common.exc_mechanism(e)}: {str(e)[:100]}", "get_choices," + common.exc_mechanism(e)))
            continue
        try:
            ex = obs.valid_assignment(obs.extract_sites(sites, sub_chm))
        except obs.StructuralMismatch as e:
            issues.append(Issue("subtrace.choices", f"subtrace at {s.addr!r}: {e}"))
            continue
        # parent's view: paths = idx levels + comps + rest  <->  subtrace paths = idx levels + rest
        nd = len(dims)
        parent = {}
        for p, v in rec.assign.items():
            if p[nd : nd + len(comps)] == comps and all(not isinstance(c, str) for c in p[:nd]):
                parent[p[:nd] + p[nd + len(comps) :]] = v
        if masky:
            # under a mask / switch wrapper the parent's view is masked while the subtrace is the
            # raw inner execution: only what the parent holds as valid must agree
            bad = [p for p in parent if p not in ex or not engine._same_value(parent[p], ex[p])]
            if bad:
                issues.append(Issue("subtrace.choices", f"subtrace at {s.addr!r}: parent's valid choice {bad[0]} missing or different in the subtrace", "masked-wrapper"))
        elif set(parent) != set(ex):
            issues.append(Issue("subtrace.choices", f"subtrace at {s.addr!r}: address sets differ: {sorted(set(parent) ^ set(ex), key=repr)[:4]}", "tuple" if isinstance(s.addr, tuple) else "str"))
        else:
            for p in parent:
                if not engine._same_value(parent[p], ex[p]):
                    issues.append(Issue("subtrace.choices", f"subtrace at {s.addr!r}: {p} {engine._d(ex[p])} vs parent's {engine._d(parent[p])}"))
                    break
        # score: the call's contribution
        exp = 0.0
        nterm = 0
        for p, lp in rec.env.terms.items():
            if p[nd : nd + len(comps)] == comps and all(not isinstance(c, str) for c in p[:nd]):
                exp += lp
                nterm += 1
        try:
            got = float(np.sum(np.asarray(sub.get_score())))
        except Exception as e:
            issues.append(Issue("subtrace.raises", f"subtrace score unreadable: {e}"))
            continue
        masked = isinstance(case.node, ast.Mask) or "Mask" in case.kinds or "Switch" in case.kinds or "OrElse" in case.kinds or "Mix" in case.kinds or "MaskedIterateFinal" in case.kinds
        if np.isfinite(exp) and not masked and not common.close(got, exp, terms=max(1, nterm)):
            issues.append(Issue("subtrace.score", f"subtrace at {s.addr!r}: score {got} vs the call's contribution {exp} ({nterm} choices)", "stacked" if nd else "plain"))
        ctx.count("subtrace_checks")
        ctx.count("subtrace_addr:" + ("tuple" if isinstance(s.addr, tuple) else "str") + (":stacked" if nd else ""))
        # two-level chain
        if isinstance(s.callee, ast.Static) and s.callee.stmts and nd == 0:
            s2 = s.callee.stmts[0]
            try:
                sub2 = rec.tr.get_subtrace(s.addr, s2.addr)
                comps2 = comps + ast.addr_components(s2.addr)
                exp2 = sum(lp for p, lp in rec.env.terms.items() if p[: len(comps2)] == comps2)
                got2 = float(np.sum(np.asarray(sub2.get_score())))
                inner_masky = bool({"Mask", "Switch", "OrElse", "Mix", "MaskedIterateFinal"} & s.callee.kinds())
                if np.isfinite(exp2) and not masked and not inner_masky and not common.close(got2, exp2, terms=3):
                    issues.append(Issue("subtrace.score", f"get_subtrace({s.addr!r},{s2.addr!r}): score {got2} vs contribution {exp2}", "chain"))
                ctx.count("subtrace_chain_checks")
            except Exception as e:
                issues.append(Issue("subtrace.raises", f"get_subtrace({s.addr!r},{s2.addr!r}) raised {common.exc_mechanism(e)}", common.exc_mechanism(e)))
    hist.append(f"get_subtrace at {[s.addr for s in st.stmts]} (wrappers idx levels {dims})")
    route("subtrace", issues)
    return None


def nontrivial(case, hist):
    f = _static_under(case.node)
    if f is None:
        return False
    st, prefix = f
    return bool(prefix) or any(s.callee.kind != "Dist" for s in st.stmts)


PLAN = _drive.Plan(
    "C34", cfg_fn,
    clauses={"subtrace.*"},
    ops={"subtrace": 3, "update": 1, "index_edit": 1.5},
    extra_ops={"subtrace": h_subtrace},
    n_cases=(400, 3000), n_ops=(2, 4), nontrivial=nontrivial,
    always=(),
    exc_is_violation=False,
)


def run(ctx):
    _drive.run(ctx, PLAN)
