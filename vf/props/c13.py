"""C13 — switch, or_else and mix follow exactly one branch consistently.

Reference: the branch at the *clamped* index alone, consistently for score, return value,
valid choices, importance weights and edits; or_else(flag) = if/else branch; mix = categorical
log-probability of the component + that component."""

from vf.prog import gen
from vf.props import _drive

A = "genjax._src.generative_functions"
CONFIG = {
    "level": "exploration",
    "shards": {"quick": 16, "thorough": 16},
    "timeout_s": {"quick": 900, "thorough": 5400},
    "rule": 'case = program with a Switch / OrElse / Mix root (2-3 branches with heterogeneous addresses and distribution families; indices in range, out of range and negative; Python-int, array and computed indices) + importance / update ops. non-trivial: >=2 branches with different address sets; distinct by (AST shape, index class, op sequence).',
    "reach_anchors": ['genjax._src.generative_functions.combinators.switch:Switch.simulate', 'genjax._src.generative_functions.combinators.switch:Switch.generate', 'genjax._src.generative_functions.combinators.switch:Switch.edit', 'genjax._src.generative_functions.combinators.switch:Switch.assess', 'genjax._src.core.compiler.staging:multi_switch', 'genjax._src.core.compiler.staging:tree_choose'],
    "reach_required": ['genjax._src.generative_functions.combinators.switch:Switch.simulate', 'genjax._src.generative_functions.combinators.switch:Switch.generate', 'genjax._src.generative_functions.combinators.switch:Switch.edit', 'genjax._src.generative_functions.combinators.switch:Switch.assess', 'genjax._src.core.compiler.staging:multi_switch', 'genjax._src.core.compiler.staging:tree_choose'],
    "counters_required": ['ops:update'],
    "assumptions": [
        "reference interpreter vf/prog/ast.py transcribes the documented combinator semantics; scipy float64 densities",
        "float32 tolerance 2e-4 (relative+absolute) scaled by sqrt(#terms)",
        "programs from the bounded grammar (depth<=2 quick, <=3 thorough; sizes<=3/5); values read through public choice-map lookups",
    ],
}

KINDS = ["Dist", "Static", "Switch", "OrElse", "Mix", "Dimap", "Vmap"]


def cfg_fn(rng, ctx):
    depth = 2 if ctx.quick() else int(rng.choice([2, 2, 3]))
    kinds = KINDS
    mixed = rng.random() < 0.12
    if mixed:
        kinds = KINDS + ["Scan", "Iterate", "IterateFinal", "Repeat"]
    return gen.Cfg(depth=depth, kinds=kinds, root=["Switch", "Switch", "OrElse", "Mix"], hostile_idx=True, mixed_lead=mixed)


def nontrivial(case, hist):
    sets = [frozenset(s.static_path for s in b.sites()) for b in case.node.children]
    return len(set(sets)) >= 2


def cond_fn(case, hist, op, issue):
    a0 = hist[0] if hist else ""
    return issue.cond


PLAN = _drive.Plan(
    "C13", cfg_fn,
    clauses={"model.*", "imp.*", "upd.*", "assess.*", "raises"},
    ops={"update": 3, "project": 1},
    n_cases=(400, 3000), n_ops=(3, 6), nontrivial=nontrivial,
    always=("assess_self",),
    exc_is_violation=True,
)



def sig_fn(case, hist, op, issue, sig):
    # one mechanism, one signature: every branch of a switch receives the whole constraint /
    # choice map, and a vector-combinator branch indexes all of its leaves, including a sibling
    # branch's scalar leaf ("Too many indices: 0-dimensional array indexed with 1 regular index")
    if gen.mixed_lead(case.node) and "Too many indices" in issue.detail:
        return "C13|op=any|on=Switch|field=raises|cond=vector-branch-indexes-sibling-scalar-leaf"
    return None


PLAN.sig_fn = sig_fn


def run(ctx):
    _drive.run(ctx, PLAN)
