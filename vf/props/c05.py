"""C05 — update installs the constraint and weighs by the score change.

After update(key, tr, constraint, argdiffs): new arguments; constrained existing addresses hold
the constraint; unconstrained existing addresses keep their (unique) values; weight = new score -
old score whenever the reference model says no new random choice was introduced; the backward
constraint holds exactly the previous values at the overwritten addresses."""

from vf.prog import gen
from vf.props import _drive

A = "genjax._src.generative_functions"
CONFIG = {
    "level": "exploration",
    "shards": {"quick": 16, "thorough": 16},
    "timeout_s": {"quick": 900, "thorough": 5400},
    "rule": 'case = generated program + trace + sequence of updates (constraint: empty/one/several/per-index/all; arguments: unchanged tagged NoChange or Unknown, or changed values of equal shape incl. switch indices and mask flags). non-trivial: >=1 update that changes an argument and constrains a combinator-nested address; distinct by (AST shape, op sequence).',
    "reach_anchors": ['genjax._src.generative_functions.static:UpdateHandler.handle_trace', 'genjax._src.generative_functions.distributions.distribution:Distribution.edit_update_with_constraint', 'genjax._src.generative_functions.combinators.vmap:Vmap.edit_choice_map', 'genjax._src.generative_functions.combinators.scan:Scan.edit_update', 'genjax._src.generative_functions.combinators.switch:Switch.edit', 'genjax._src.generative_functions.combinators.mask:MaskCombinator.edit'],
    "reach_required": ['genjax._src.generative_functions.static:UpdateHandler.handle_trace', 'genjax._src.generative_functions.distributions.distribution:Distribution.edit_update_with_constraint', 'genjax._src.generative_functions.combinators.vmap:Vmap.edit_choice_map', 'genjax._src.generative_functions.combinators.scan:Scan.edit_update', 'genjax._src.generative_functions.combinators.switch:Switch.edit', 'genjax._src.generative_functions.combinators.mask:MaskCombinator.edit'],
    "counters_required": ['ops:update'],
    "assumptions": [
        "reference interpreter vf/prog/ast.py transcribes the documented combinator semantics; scipy float64 densities",
        "float32 tolerance 2e-4 (relative+absolute) scaled by sqrt(#terms)",
        "programs from the bounded grammar (depth<=2 quick, <=3 thorough; sizes<=3/5); values read through public choice-map lookups",
    ],
}

def cfg_fn(rng, ctx):
    depth = int(rng.choice([1, 2, 2])) if ctx.quick() else int(rng.choice([1, 2, 2, 3]))
    return gen.Cfg(depth=depth, allow_zero_len=False)


def nontrivial(case, hist):
    ok = any(h.startswith("update") and "new_args=None" not in h and "constraint={}" not in h for h in hist)
    return ok and any(k not in ("Dist", "Static") for k in case.kinds)


def cond_fn(case, hist, op, issue):
    conds = [issue.cond] if issue.cond else []
    if {"Switch", "OrElse", "Mix"} & case.kinds:
        conds.append("has-switch")
    if "Mask" in case.kinds or "MaskedIterateFinal" in case.kinds:
        conds.append("has-mask")
    return ",".join(conds)


PLAN = _drive.Plan(
    "C05", cfg_fn,
    clauses={"upd.*"},
    ops={"update": 1},
    n_cases=(400, 3000), n_ops=(3, 6), nontrivial=nontrivial,
    always=(), cond_fn=cond_fn,
    exc_is_violation=True,
)



def run(ctx):
    _drive.run(ctx, PLAN)
