"""C10 — project splits the score along a selection.

project(S) must equal the reference sum of log-densities of the selected live choices;
project(all) = score, project(none) = 0, project(S) + project(~S) = score on the real values."""

from vf.prog import gen
from vf.props import _drive

A = "genjax._src.generative_functions"
CONFIG = {
    "level": "exploration",
    "shards": {"quick": 16, "thorough": 16},
    "timeout_s": {"quick": 900, "thorough": 5400},
    "rule": "case = generated program from constructs that support project (distributions, static, vmap/repeat, scan family, switch family, dimap) + trace + projections with selections all/none/prefix/wildcard/union/intersection/complement incl. hierarchical tuple addresses. non-trivial: proper non-empty selection splitting a combinator's choices; distinct by (AST shape, selection shape).",
    "reach_anchors": ['genjax._src.generative_functions.static:StaticGenerativeFunction.project', 'genjax._src.generative_functions.distributions.distribution:Distribution.project', 'genjax._src.generative_functions.combinators.vmap:Vmap.project', 'genjax._src.generative_functions.combinators.scan:Scan.project', 'genjax._src.generative_functions.combinators.switch:Switch.project', 'genjax._src.generative_functions.combinators.dimap:Dimap.project'],
    "reach_required": ['genjax._src.generative_functions.static:StaticGenerativeFunction.project', 'genjax._src.generative_functions.distributions.distribution:Distribution.project', 'genjax._src.generative_functions.combinators.vmap:Vmap.project', 'genjax._src.generative_functions.combinators.scan:Scan.project', 'genjax._src.generative_functions.combinators.switch:Switch.project', 'genjax._src.generative_functions.combinators.dimap:Dimap.project'],
    "counters_required": ['project_checks'],
    "assumptions": [
        "reference interpreter vf/prog/ast.py transcribes the documented combinator semantics; scipy float64 densities",
        "float32 tolerance 2e-4 (relative+absolute) scaled by sqrt(#terms)",
        "programs from the bounded grammar (depth<=2 quick, <=3 thorough; sizes<=3/5); values read through public choice-map lookups",
    ],
}

KINDS = ["Dist", "Static", "Vmap", "Repeat", "Scan", "Accumulate", "Reduce", "Iterate", "IterateFinal", "Switch", "OrElse", "Mix", "Dimap"]


def cfg_fn(rng, ctx):
    depth = int(rng.choice([1, 2, 2])) if ctx.quick() else int(rng.choice([1, 2, 2, 3]))
    return gen.Cfg(depth=depth, kinds=KINDS, tuple_addr=0.4)


def nontrivial(case, hist):
    return any("project" in h and "('at'" in h for h in hist) and any(k not in ("Dist", "Static") for k in case.kinds)


PLAN = _drive.Plan(
    "C10", cfg_fn,
    clauses={"proj.*"},
    ops={"project": 2, "project_ids": 2, "update": 1},
    n_cases=(400, 3000), n_ops=(4, 8), nontrivial=nontrivial,
    always=(),
    exc_is_violation=True,
)



def run(ctx):
    _drive.run(ctx, PLAN)
