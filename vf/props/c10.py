"""C10 — project splits the score along a selection.

project(S) must equal the reference sum of log-densities of the selected live choices;
project(all) = score, project(none) = 0, project(S) + project(~S) = score on the real values."""

from vf.prog import gen
from vf.props import _drive

A = "genjax._src.generative_functions"
CONFIG = {
    "level": "exploration",
    "shards": {"quick": 16, "thorough": 16},
    "timeout_s": {"quick": 900, "thorough": 5400},
    "rule": "case = generated program from constructs that support project (distributions, static, vmap/repeat, scan family, switch family, dimap) + trace + projections with selections all/none/prefix/wildcard/union/intersection/complement incl. hierarchical tuple addresses. non-trivial: proper non-empty selection splitting a combinator's choices; distinct by (AST shape, selection shape).",
    "reach_anchors": ['genjax._src.generative_functions.static:StaticGenerativeFunction.project', 'genjax._src.generative_functions.distributions.distribution:Distribution.project', 'genjax._src.generative_functions.combinators.vmap:Vmap.project', 'genjax._src.generative_functions.combinators.scan:Scan.project', 'genjax._src.generative_functions.combinators.switch:Switch.project', 'genjax._src.generative_functions.combinators.dimap:Dimap.project'],
    "reach_required": ['genjax._src.generative_functions.static:StaticGenerativeFunction.project', 'genjax._src.generative_functions.distributions.distribution:Distribution.project', 'genjax._src.generative_functions.combinators.vmap:Vmap.project', 'genjax._src.generative_functions.combinators.scan:Scan.project', 'genjax._src.generative_functions.combinators.switch:Switch.project', 'genjax._src.generative_functions.combinators.dimap:Dimap.project'],
    "counters_required": ['project_checks'],
    "assumptions": [
        "reference interpreter vf/prog/ast.py transcribes the documented combinator semantics; scipy float64 densities",
        "float32 tolerance 2e-4 (relative+absolute) scaled by sqrt(#terms)",
        "programs from the bounded grammar (depth<=2 quick, <=3 thorough; sizes<=3/5); values read through public choice-map lookups",
    ],
}

KINDS = ["Dist", "Static", "Vmap", "Repeat", "Scan", "Accumulate", "Reduce", "Iterate", "IterateFinal", "Switch", "OrElse", "Mix", "Dimap"]


def cfg_fn(rng, ctx):
    depth = int(rng.choice([1, 2, 2])) if ctx.quick() else int(rng.choice([1, 2, 2, 3]))
    return gen.Cfg(depth=depth, kinds=KINDS, tuple_addr=0.4, hostile_idx=rng.random() < 0.4)


OFF_SUPPORT = {"uniform": 5.0, "exponential": -1.0, "gamma": -1.0, "beta": 2.0}


def h_offsupport(ctx, plan, case, rec, rng, nk, hist, route, guarded):
    """A trace holding a zero-density choice (a constraint outside the support): projections
    that do not select that choice must still be the finite sum of the selected log-densities
    (project(none) == 0), eagerly and under jit."""
    import jax
    import numpy as np
    from vf import common, engine
    from vf.engine import Issue
    from vf.prog import obs

    cands = []
    for st in case.node.sites():
        if st.dist.name in OFF_SUPPORT and st.switchy is None:
            for pth, _ in st.paths():
                cands.append((pth, st.dist.name))
    if not cands:
        return None
    pth, dname = cands[int(rng.integers(len(cands)))]
    vals = {pth: np.float64(OFF_SUPPORT[dname])}
    hist.append(f"importance with an off-support value at {pth} ({dname}={OFF_SUPPORT[dname]}) then projections")
    out = guarded("importance", lambda: engine.op_importance(case, nk(), vals, rec.args))
    if out is None or out[0] is None:
        return None
    r0 = out[0]
    if pth not in r0.live() or np.isfinite(r0.env.terms[pth]):
        return None
    issues = []
    spath = obs.static_of(pth)
    terms = [("none",), ("not", ("at", spath)), ("and", ("all",), ("not", ("at", spath)))]
    for term in terms:
        sel = obs.build_selection(term)
        exp = sum(lp for q, lp in r0.env.terms.items() if obs.sel_contains(term, obs.static_of(q)))
        if not np.isfinite(exp):
            continue
        for mode in ("eager", "jit"):
            try:
                if mode == "eager":
                    w = r0.tr.project(engine.key(nk()), sel)
                else:
                    w = jax.jit(lambda k, t: t.project(k, sel))(engine.key(nk()), r0.tr)
            except Exception as e:
                mech = common.exc_mechanism(e)
                if _drive.rejection_allowed("project", mech):
                    ctx.reject("project:" + mech)
                    break
                issues.append(Issue("proj.raises", f"project raised {mech}", mech))
                break
            w = float(np.asarray(w))
            ctx.count("offsupport_projections")
            if not common.close(w, exp, terms=max(1, len(r0.env.terms))):
                issues.append(Issue("proj.value", f"trace holds a zero-density choice at {pth}; project({term}) [{mode}] = {w}, expected the finite sum {exp} of the selected log-densities", "zero-density-choice-unselected," + mode))
    route("project", issues)
    return None


def nontrivial(case, hist):
    return any("project" in h and "('at'" in h for h in hist) and any(k not in ("Dist", "Static") for k in case.kinds)


PLAN = _drive.Plan(
    "C10", cfg_fn,
    clauses={"proj.*"},
    ops={"project": 2, "project_ids": 2, "update": 1, "offsupport": 1.5},
    extra_ops={"offsupport": h_offsupport},
    n_cases=(400, 3000), n_ops=(4, 8), nontrivial=nontrivial,
    always=(),
    exc_is_violation=True,
)



def run(ctx):
    _drive.run(ctx, PLAN)
