"""C26 — Importance / ImportanceK / ChangeTarget return properly weighted particles and unbiased evidence.

Workload: random small Bayesian networks (vf/gen/smc_models.py: flip / categorical nets with <= 32
latent outcomes, linear-Gaussian nets; hierarchical addresses; parameters passed as program
arguments in three calling conventions) conditioned on random observations, run through the REAL
`genjax.inference.smc` algorithms under jit(vmap) over a batch of parameter draws and keys.

Deterministic monitors (every particle of every run is judged from its OWN choices by the float64
reference vf/ref/smc_ref.py):
* particle satisfies the target's constraints; particle score == log p(x, obs);
* log-weight == log p(x, obs) - log q(x), q = internal (ancestral) proposal on the addresses no
  custom proposal supplies, times the custom proposal's density (exact user-defined proposal,
  full or partial, or a `Marginal` of a guide program);
* conditional SMC: the retained choices are one of the particles, and every particle (retained and
  fresh) carries the same weight function;
* ChangeTarget (run_smc / run_csmc, new arguments and new observations):
  weight == log p_new(x, obs_new) - log q_old(x)  (= old weight + log new density - log old density);
* collection log-marginal-likelihood == logmeanexp(weights);
* SMCAlgorithm.random_weighted returns exactly the unconstrained addresses; with one particle its
  weight (and estimate_logpdf of a given sample) is exactly log q(x).

Statistical monitors (exact expectations by enumeration / closed form, fixed sample sizes, two-stage
confirmation): mean exp(log Z estimate) == Z (run_smc collections, log_marginal_likelihood_estimate
with and without a new target); particle frequencies == proposal; random_weighted of K-particle
importance resampling is an unbiased density sampler of its exact output distribution q_K
(frequencies == q_K, E[1{x}/w] == 1); estimate_logpdf is an unbiased estimate of q_K(x).
"""

from __future__ import annotations

import math
import re

import numpy as np

from vf import common
from vf.gen import smc_models as G
from vf.ref import smc_ref as R

SMC = "genjax._src.inference.smc"
CONFIG = {
    "level": "exploration",
    "shards": {"quick": 16, "thorough": 16},
    "timeout_s": {"quick": 900, "thorough": 3600},
    "rule": "case = (random net: 2-5 flip/categorical/normal nodes, random parents, nested addresses; calling convention; observed set; algorithm Importance|ImportanceK K in {1,2,5,50}; proposal none|exact custom full|exact custom partial|Marginal(guide); path run_smc|run_csmc|ChangeTarget.run_smc|ChangeTarget.run_csmc|random_weighted|estimate_logpdf) x a batch of random parameter tables / observations / keys; every particle is one evaluation. non-trivial: >=1 latent and >=1 observed node with an edge in the net; distinct by (path, algorithm, K, proposal, net structure, observed set).",
    "reach_anchors": [
        f"{SMC}:Importance.run_smc", f"{SMC}:Importance.run_csmc", f"{SMC}:ImportanceK.run_smc", f"{SMC}:ImportanceK.run_csmc",
        f"{SMC}:ChangeTarget.run_smc", f"{SMC}:ChangeTarget.run_csmc", f"{SMC}:SMCAlgorithm.random_weighted",
        f"{SMC}:SMCAlgorithm.estimate_logpdf", f"{SMC}:SMCAlgorithm.log_marginal_likelihood_estimate",
        f"{SMC}:ParticleCollection.get_log_marginal_likelihood_estimate",
    ],
    "reach_required": [
        f"{SMC}:Importance.run_smc", f"{SMC}:Importance.run_csmc", f"{SMC}:ImportanceK.run_smc", f"{SMC}:ImportanceK.run_csmc",
        f"{SMC}:ChangeTarget.run_smc", f"{SMC}:SMCAlgorithm.random_weighted",
    ],
    "counters_required": ["particles_weight_checked", "particles_constraint_checked", "changetarget_particles_checked", "rw_address_checks", "evidence_tests"],
    "counters_inconclusive": ["grey"],  # a statistical cell in the grey band (1e-9 <= stage-2 p < 1e-3) makes the run inconclusive
    "assumptions": [
        "float64 numpy/scipy reference densities of flip/categorical/normal; enumeration of <= 32 latent outcomes; multivariate-normal closed form for linear-Gaussian evidence",
        "the internal proposal of a static @gen program is ancestral sampling of the unconstrained choices (documented: importance weight = density of the constrained choices)",
        "normal approximation of means of >= 2048 bounded i.i.d. terms, guarded by two-stage confirmation (1e-6 then 1e-9 with 8x samples)",
        "jax.jit / jax.vmap / jax.random as trusted base",
    ],
}

PATHS = ["smc", "csmc", "ct_smc", "ct_csmc", "rw", "est"]
ALGS = [("imp", 1), ("impk", 2), ("impk", 1), ("impk", 5), ("impk", 50)]
PROPS = ["none", "custom", "custom-partial", "marginal"]
NET_HI = [5]
OPNAME = {"smc": "run_smc", "csmc": "run_csmc", "ct_smc": "run_smc", "ct_csmc": "run_csmc", "rw": "random_weighted",
          "est": "estimate_logpdf", "lml": "log_marginal_likelihood_estimate", "lml_t": "log_marginal_likelihood_estimate"}


class Scen:
    pass


def _on(sc):
    base = "Importance" if sc.alg == "imp" else "ImportanceK"
    return "ChangeTarget" if sc.path.startswith("ct_") else base


def _cond(sc, extra=None, structural=False):
    """Structural condition of a signature: the proposal arm (+ particle class for conditional runs);
    the single-particle qualifier only for structural failures (exceptions, malformed collections)."""
    c = f"proposal-{sc.prop}"
    if structural and sc.alg == "impk" and sc.K == 1:
        c += ",single-particle"
    if extra:
        c += "," + extra
    if getattr(sc, "release", None) and sc.path == "ct_smc":
        c += ",observation-released"
    return c


def _plain(s):
    return re.sub(r"\x1b\[[0-9;]*m", "", s)


def exc_mech(e):
    s = str(e)
    if isinstance(e, TypeError) and "violates type hint" in s and "tuple[typing.Any, ...]" in s and "args" in s:
        return "beartype-varargs-annotation"
    return common.exc_mechanism(e)


# ------------------------------------------------------------------------------- scenario generation


def make_scen(rng, path, alg, K, prop, family=None, max_lat_outcomes=32, min_lat=1, force_conv=None, scalar_leaves=False):
    sc = Scen()
    sc.path, sc.alg, sc.K, sc.prop = path, alg, K, prop
    if family is None:
        family = "gauss" if rng.random() < 0.3 else "disc"
    for _ in range(500):
        # scalar_leaves: flips / normals at flat addresses, one scalar argument per table entry, so
        # that every leaf of a trace is a scalar
        net = G.random_net(rng, family, n_hi=NET_HI[0], nested_p=0.0, flip_only=True) if scalar_leaves else G.random_net(rng, family, n_hi=NET_HI[0])
        n = len(net)
        obs = [i for i in range(n) if rng.random() < 0.4]
        if not obs:
            obs = [int(rng.integers(n))]
        lat = [i for i in range(n) if i not in obs]
        if len(lat) < min_lat:
            continue
        if prop == "custom-partial" and len(lat) < 2:
            continue
        if family == "disc" and int(np.prod(net.cards(lat))) > max_lat_outcomes:
            continue
        # non-trivial: some observed node is connected to some latent node
        linked = any((set(net.nodes[o].parents) | net.ancestors(o)) & set(lat) for o in obs) or any(
            set(net.nodes[l].parents) & set(obs) for l in lat
        )
        if not linked:
            continue
        break
    else:
        raise RuntimeError("no scenario")
    sc.net, sc.obs, sc.lat, sc.family = net, obs, lat, family
    n_entries = sum(int(np.prod(net.param_shape(i))) for i in range(n))
    convs = [False, True] + (["scalar"] if n_entries <= 40 else [])
    sc.conv = convs[int(rng.integers(len(convs)))]
    if force_conv is not None and (force_conv != "scalar" or n_entries <= 60):
        sc.conv = force_conv
    if scalar_leaves:
        sc.conv = "scalar"
    sc.qidx, sc.qspec, sc.qconsts, sc.guide, sc.aux = [], (), None, None, False
    if prop in ("custom", "custom-partial"):
        if prop == "custom-partial":
            k = int(rng.integers(1, len(lat)))
            sc.qidx = sorted(rng.choice(lat, size=k, replace=False).tolist())
        else:
            sc.qidx = list(lat)
        sc.qspec = G.random_qnet(rng, net, sc.qidx)
    elif prop in ("marginal", "marginal-aux"):
        sc.qidx = list(lat)
        sc.qconsts = G.random_qconsts(rng, net, sc.qidx)
        sc.aux = prop == "marginal-aux"
        sc.guide, sc.guide_src = G.build_guide(net, sc.qidx, sc.qconsts, aux=sc.aux)
    sc.internal = [i for i in lat if i not in sc.qidx]
    sc.model, sc.src = G.build(net, sc.conv)
    sc.retarget = path.startswith("ct_") or path == "lml_t" or (path in ("rw", "est") and rng.random() < 0.5)
    # ChangeTarget.run_smc towards a target that no longer observes some of the old target's
    # observed addresses: the released addresses are re-proposed from the model under the new
    # arguments (proposal = conditional prior, so they contribute nothing to the weight)
    sc.release = []
    if path == "ct_smc" and rng.random() < 0.45:
        k = int(rng.integers(1, len(sc.obs) + 1))
        sc.release = sorted(rng.choice(sc.obs, size=k, replace=False).tolist())
    sc.obs2 = [i for i in sc.obs if i not in sc.release]
    return sc


def make_rows(rng, sc, B):
    """Random parameter tables, observations, retained samples for B independent rows."""
    net = sc.net
    rows = {}
    rows["params"] = G.random_params(rng, net, B)
    s1 = R.sample_batch(net, rows["params"], rng)
    if sc.family == "disc" and rng.random() < 0.5:
        # arbitrary (not model-typical) observations
        for i in sc.obs:
            s1[i] = rng.integers(0, net.nodes[i].card, size=B)
    rows["obs"] = {i: s1[i] for i in sc.obs}
    if sc.retarget:
        rows["params2"] = G.random_params(rng, net, B)
        s2 = R.sample_batch(net, rows["params2"], rng)
        rows["obs2"] = {i: s2[i] for i in sc.obs}
    else:
        rows["params2"] = rows["params"]
        rows["obs2"] = rows["obs"]
    s3 = R.sample_batch(net, rows["params"], rng)
    rows["ret"] = {i: s3[i] for i in sc.lat}
    rows["qparams"] = G.random_qparams(rng, net, sc.qidx, sc.qspec, B) if sc.qspec else []
    return rows


def tile_rows(rows, N):
    """Row 0 repeated N times (statistical cells: one target, N keys)."""
    def t(a):
        a = np.asarray(a)
        return np.repeat(a[:1], N, axis=0)

    out = {}
    for k, v in rows.items():
        if isinstance(v, dict):
            out[k] = {i: t(x) for i, x in v.items()}
        else:
            out[k] = [t(x) for x in v]
    return out


def row0(rows):
    out = {}
    for k, v in rows.items():
        if isinstance(v, dict):
            out[k] = {i: np.asarray(x)[:1] for i, x in v.items()}
        else:
            out[k] = [np.asarray(x)[:1] for x in v]
    return out


# ------------------------------------------------------------------------------- the real computation


def make_fn(sc):
    import jax
    import jax.numpy as jnp
    from genjax.inference import Marginal, Target
    from genjax.inference.smc import ChangeTarget, Importance, ImportanceK

    net = sc.net
    P = G.proposal_class()
    keys_of = [G.addr_key(nd.addr) for nd in net.nodes]

    def target_of(params, obs, idxs=None):
        if idxs is not None:
            obs = [o for i, o in zip(sc.obs, obs) if i in idxs]
        return Target(sc.model, G.model_args(net, sc.conv, params), G.constraint(net, sc.obs if idxs is None else idxs, obs))

    def f(key, params, obs, qparams, params2, obs2, ret):
        T = target_of(params, obs)
        if sc.prop == "none":
            q = None
        elif sc.prop in ("custom", "custom-partial"):
            q = P(tuple(qparams), sc.qspec)
        elif sc.aux:
            # the guide's auxiliary choice is marginalised: only the target's latent addresses are selected
            q = Marginal(sc.guide, G.selection(net, sc.qidx))
        else:
            q = Marginal(sc.guide)
        alg = Importance(T, q) if sc.alg == "imp" else ImportanceK(T, q, sc.K)
        T2 = target_of(params2, obs2, sc.obs2 if sc.release else None) if sc.retarget else T
        retchm = G.constraint(net, sc.lat, ret)
        path = sc.path
        pc = None
        if path == "smc":
            pc = alg.run_smc(key)
        elif path == "csmc":
            pc = alg.run_csmc(key, retchm)
        elif path == "ct_smc":
            pc = ChangeTarget(alg, T2).run_smc(key)
        elif path == "ct_csmc":
            pc = ChangeTarget(alg, T2).run_csmc(key, retchm)
        if pc is not None:
            tr = pc.get_particles()
            ch = tr.get_choices()
            lw = pc.get_log_weights()
            if jnp.ndim(lw) != 1:  # malformed collection: reported by check_collection
                return {"lw": lw}
            return {
                "lw": lw,
                # per-particle scores (get_score of a batched static trace sums over the batch)
                "score": jax.vmap(lambda t: t.get_score())(tr),
                "vals": [ch[k] for k in keys_of],
                "lml": pc.get_log_marginal_likelihood_estimate(),
            }
        if path == "rw":
            w, chm = alg.random_weighted(key, T2)
            return {
                "w": w,
                "present": [jnp.asarray(k in chm) for k in keys_of],
                "vals": [chm[keys_of[i]] for i in sc.lat],
            }
        if path == "est":
            return {"w": alg.estimate_logpdf(key, retchm, T2)}
        if path == "lml":
            return {"w": alg.log_marginal_likelihood_estimate(key)}
        if path == "lml_t":
            return {"w": alg.log_marginal_likelihood_estimate(key, T2)}
        raise AssertionError(path)

    return jax.jit(jax.vmap(f))


def call_fn(fn, sc, rows, keyseed, B):
    import jax
    import jax.numpy as jnp

    net = sc.net
    keys = jax.random.split(jax.random.key(int(keyseed)), B)
    cast = lambda d, idxs: [jnp.asarray(G.cast_value(net, i, d[i])) for i in idxs]  # noqa: E731
    out = fn(
        keys,
        [jnp.asarray(p) for p in rows["params"]],
        cast(rows["obs"], sc.obs),
        [jnp.asarray(p) for p in rows["qparams"]],
        [jnp.asarray(p) for p in rows["params2"]],
        cast(rows["obs2"], sc.obs),
        cast(rows["ret"], sc.lat),
    )
    return jax.tree_util.tree_map(np.asarray, out)


# ------------------------------------------------------------------------------- reference side


def _as_idx(net, i, a):
    a = np.asarray(a)
    if net.nodes[i].kind == "normal":
        return a.astype(np.float64)
    return a.astype(np.int64)


def log_q(sc, rows, lat_vals):
    """log q(x) of the algorithm's own proposal under its own (old) target.  lat_vals: idx -> [B, *e]."""
    net = sc.net
    shape = np.asarray(lat_vals[sc.lat[0]]).shape
    v1 = dict(lat_vals)
    for i in sc.obs:
        o = np.asarray(rows["obs"][i])
        v1[i] = np.broadcast_to(o.reshape((-1,) + (1,) * (len(shape) - 1)), shape)
    lq = np.zeros(shape)
    if sc.internal:
        lq = lq + R.joint_logp(net, rows["params"], v1, sc.internal)
    if sc.prop in ("custom", "custom-partial"):
        lq = lq + R.qspec_logp(sc.qspec, sc.qidx, rows["qparams"], v1)
    elif sc.prop in ("marginal", "marginal-aux"):
        lq = lq + R.guide_logp(net, sc.qidx, sc.qconsts, v1, aux=sc.aux)
    return lq


def log_p(sc, params, obs, lat_vals):
    net = sc.net
    shape = np.asarray(lat_vals[sc.lat[0]]).shape
    v = dict(lat_vals)
    for i in sc.obs:
        o = np.asarray(obs[i])
        v[i] = np.broadcast_to(o.reshape((-1,) + (1,) * (len(shape) - 1)), shape)
    return R.joint_logp(net, params, v)


def _close_arr(a, b, terms):
    a = np.asarray(a, dtype=np.float64)
    b = np.asarray(b, dtype=np.float64)
    tol = common.tol(a, b, terms)
    with np.errstate(invalid="ignore"):
        ok = np.abs(a - b) <= tol
    ok = np.where(np.isnan(a) | np.isnan(b), False, ok)
    both_inf = np.isinf(a) & np.isinf(b) & (a == b)
    return ok | both_inf


_CASE = [""]


def describe(sc):
    return {
        "case": _CASE[0],
        "net": sc.net.describe(), "observed": ["/".join(sc.net.nodes[i].addr) for i in sc.obs],
        "algorithm": sc.alg, "K": sc.K, "proposal": sc.prop, "proposal_addresses": ["/".join(sc.net.nodes[i].addr) for i in sc.qidx],
        "released_observations": ["/".join(sc.net.nodes[i].addr) for i in getattr(sc, "release", [])], "path": sc.path, "calling_convention": {False: "spread", True: "packed", "scalar": "scalar"}[sc.conv], "retarget": bool(sc.retarget),
    }


def _witness(sc, rows, b, extra):
    w = describe(sc)
    w["program"] = sc.src
    if sc.guide is not None:
        w["guide"] = sc.guide_src
    w["row"] = {
        "params": [np.asarray(p)[b].tolist() for p in rows["params"]],
        "obs": {str(i): np.asarray(v)[b].tolist() for i, v in rows["obs"].items()},
        "retained": {str(i): np.asarray(v)[b].tolist() for i, v in rows["ret"].items()},
    }
    if sc.retarget:
        w["row"]["params_new"] = [np.asarray(p)[b].tolist() for p in rows["params2"]]
        w["row"]["obs_new"] = {str(i): np.asarray(v)[b].tolist() for i, v in rows["obs2"].items()}
    if rows["qparams"]:
        w["row"]["qparams"] = [np.asarray(p)[b].tolist() for p in rows["qparams"]]
    if sc.qconsts:
        w["row"]["guide_consts"] = {str(k): v for k, v in sc.qconsts.items()}
    w.update(extra)
    return w


def check_collection(ctx, sc, rows, out, B):
    net = sc.net
    op, on = OPNAME[sc.path], _on(sc)
    lw = np.asarray(out["lw"])
    K = sc.K
    if lw.ndim != 2 or lw.shape != (B, K):
        ctx.violation(f"C26|op={op}|on={on}|field=collection-shape|cond={_cond(sc, structural=True)}",
                      detail=f"log-weights of a {K}-particle collection have shape {lw.shape[1:]} per run", **_witness(sc, rows, 0, {}))
        return
    ct = sc.path.startswith("ct_")
    Tp, To = (rows["params2"], rows["obs2"]) if ct else (rows["params"], rows["obs"])
    vals = {i: _as_idx(net, i, out["vals"][i]) for i in range(len(net))}
    terms = len(net) + 2
    # 1. constraints
    okc = np.ones((B, K), dtype=bool)
    released = list(sc.release) if ct else []
    for i in sc.obs:
        if i in released:
            continue
        okc &= vals[i] == _as_idx(net, i, To[i])[:, None]
    ctx.count("particles_constraint_checked", B * K)
    if not okc.all():
        b, k = np.argwhere(~okc)[0]
        ctx.violation(f"C26|op={op}|on={on}|field=constraint|cond={_cond(sc)}",
                      detail=f"particle {k} does not hold the target's observations", n_bad=int((~okc).sum()),
                      **_witness(sc, rows, b, {"particle": {str(i): vals[i][b, k].tolist() for i in vals}}))
    lat_vals = {i: vals[i] for i in sc.lat}
    logq = log_q(sc, rows, lat_vals)
    if released:
        # score: the joint density of the particle's own values (released addresses included);
        # weight: the released addresses were drawn from their conditional prior under the new
        # arguments, so their terms cancel: sum over the other addresses - log q_old(x)
        vfull = dict(vals)
        for i in sc.obs2:
            vfull[i] = np.broadcast_to(_as_idx(net, i, To[i])[:, None], vals[i].shape)
        logp = R.joint_logp(net, Tp, vfull)
        exp_lw = R.joint_logp(net, Tp, vfull, [i for i in range(len(net)) if i not in released]) - logq
        ctx.count("changetarget_released_observation_particles", B * K)
    else:
        logp = log_p(sc, Tp, To, lat_vals)
        exp_lw = logp - logq
    fin = np.isfinite(exp_lw) & okc
    ctx.count("expectation_nonfinite_skipped", int((~np.isfinite(exp_lw)).sum()))
    # 2. score
    oks = _close_arr(out["score"], logp, terms) | ~fin
    ctx.count("particles_score_checked", int(fin.sum()))
    if not oks.all():
        b, k = np.argwhere(~oks)[0]
        ctx.violation(f"C26|op={op}|on={on}|field=score|cond={_cond(sc)}",
                      detail=f"particle score {np.asarray(out['score'])[b, k]} != log p(x, obs) = {logp[b, k]}", n_bad=int((~oks).sum()),
                      **_witness(sc, rows, b, {"particle": {str(i): vals[i][b, k].tolist() for i in vals}}))
    # 3. weight
    okw = _close_arr(lw, exp_lw, terms) | ~fin
    ctx.count("particles_weight_checked", int(fin.sum()))
    if ct:
        ctx.count("changetarget_particles_checked", int(fin.sum()))
    ctx.count(f"weight_checked[{sc.path},{sc.alg}{K},{sc.prop}]", int(fin.sum()))
    is_ret = None
    if sc.path in ("csmc", "ct_csmc"):
        is_ret = np.ones((B, K), dtype=bool)
        for i in sc.lat:
            is_ret &= vals[i] == _as_idx(net, i, rows["ret"][i])[:, None]
        ctx.count("csmc_retained_checked", B)
        miss = ~is_ret.any(axis=1)
        if miss.any():
            b = int(np.argwhere(miss)[0][0])
            ctx.violation(f"C26|op={op}|on={on}|field=retained-missing|cond={_cond(sc)}",
                          detail="no particle of the conditional run holds the retained choices", n_bad=int(miss.sum()),
                          **_witness(sc, rows, b, {"particles": {str(i): vals[i][b].tolist() for i in sc.lat}}))
    if not okw.all():
        bad = ~okw
        classes = [(None, bad)] if is_ret is None else [("retained", bad & is_ret), ("fresh", bad & ~is_ret)]
        for cname, m in classes:
            if not m.any():
                continue
            b, k = np.argwhere(m)[0]
            ctx.violation(f"C26|op={op}|on={on}|field=log_weight|cond={_cond(sc, cname)}",
                          detail=f"log-weight {lw[b, k]} != log p(x,obs) - log q(x) = {logp[b, k]} - {logq[b, k]} = {exp_lw[b, k]}",
                          n_bad=int(m.sum()), n_checked=int(fin.sum()),
                          **_witness(sc, rows, b, {"particle": {str(i): vals[i][b, k].tolist() for i in vals}, "observed_log_weight": float(lw[b, k]),
                                                  "expected_log_weight": float(exp_lw[b, k])}))
    # 4. collection estimate
    lml = np.asarray(out["lml"], dtype=np.float64)
    ref = R.logmeanexp(lw, axis=1)
    okl = _close_arr(lml, ref, K + 1) | ~np.isfinite(ref)
    ctx.count("lml_identity_checked", B)
    if not okl.all():
        b = int(np.argwhere(~okl)[0][0])
        ctx.violation(f"C26|op=get_log_marginal_likelihood_estimate|on=ParticleCollection|field=value|cond=particles-{'one' if K == 1 else 'many'}",
                      detail=f"{lml[b]} != logmeanexp(weights) = {ref[b]}", weights=lw[b].tolist(), case=_CASE[0])
    ctx.evaluation(fingerprint=(sc.path, sc.alg, K, sc.prop, sc.net.sig(), tuple(sc.obs)), nontrivial=True, n=B * K)


def check_rw(ctx, sc, rows, out, B):
    net = sc.net
    on = _on(sc)
    present = np.stack([np.broadcast_to(np.asarray(p), (B,)) for p in out["present"]], axis=1)  # [B, n]
    ctx.count("rw_address_checks", B)
    for i in range(len(net)):
        want = i in sc.lat
        bad = present[:, i] != want
        if bad.any():
            b = int(np.argwhere(bad)[0][0])
            field = "returns-constrained-address" if not want else "missing-latent-address"
            ctx.violation(f"C26|op=random_weighted|on={on}|field={field}|cond={_cond(sc)}",
                          detail=f"address {'/'.join(net.nodes[i].addr)} present={bool(present[b, i])}", **_witness(sc, rows, b, {}))
    w = np.asarray(out["w"], dtype=np.float64)
    if sc.K == 1:
        lat_vals = {i: _as_idx(net, i, out["vals"][j]) for j, i in enumerate(sc.lat)}
        lq = log_q(sc, rows, lat_vals)
        ok = _close_arr(w, lq, len(net) + 2) | ~np.isfinite(lq)
        ctx.count("rw_single_particle_density_checked", B)
        if not ok.all():
            b = int(np.argwhere(~ok)[0][0])
            ctx.violation(f"C26|op=random_weighted|on={on}|field=density|cond={_cond(sc)}",
                          detail=f"one-particle density estimate {w[b]} != log q(x) = {lq[b]}", n_bad=int((~ok).sum()),
                          **_witness(sc, rows, b, {"sample": {str(i): lat_vals[i][b].tolist() for i in sc.lat}}))
    else:
        ctx.count("rw_multi_particle_finite_checked", B)
        if not np.isfinite(w).all():
            b = int(np.argwhere(~np.isfinite(w))[0][0])
            ctx.violation(f"C26|op=random_weighted|on={on}|field=density-nonfinite|cond={_cond(sc)}", detail=f"weight {w[b]}", **_witness(sc, rows, b, {}))
    ctx.evaluation(fingerprint=("rw", sc.alg, sc.K, sc.prop, sc.net.sig(), tuple(sc.obs)), nontrivial=True, n=B)


def check_est(ctx, sc, rows, out, B):
    net = sc.net
    on = _on(sc)
    w = np.asarray(out["w"], dtype=np.float64)
    if sc.K == 1:
        lat_vals = {i: _as_idx(net, i, rows["ret"][i]) for i in sc.lat}
        lq = log_q(sc, rows, lat_vals)
        ok = _close_arr(w, lq, len(net) + 2) | ~np.isfinite(lq)
        ctx.count("est_single_particle_density_checked", B)
        if not ok.all():
            b = int(np.argwhere(~ok)[0][0])
            ctx.violation(f"C26|op=estimate_logpdf|on={on}|field=density|cond={_cond(sc)}",
                          detail=f"one-particle density estimate {w[b]} != log q(x) = {lq[b]}", n_bad=int((~ok).sum()), **_witness(sc, rows, b, {}))
    else:
        ctx.count("est_multi_particle_finite_checked", B)
        if not np.isfinite(w).all():
            b = int(np.argwhere(~np.isfinite(w))[0][0])
            ctx.violation(f"C26|op=estimate_logpdf|on={on}|field=density-nonfinite|cond={_cond(sc)}", detail=f"estimate {w[b]}", **_witness(sc, rows, b, {}))
    ctx.evaluation(fingerprint=("est", sc.alg, sc.K, sc.prop, sc.net.sig(), tuple(sc.obs)), nontrivial=True, n=B)


def run_or_violation(ctx, sc, thunk, rows=None):
    """Run the real computation; an exception on a valid input is a violation named by mechanism."""
    try:
        return thunk()
    except Exception as e:  # noqa: BLE001
        mech = exc_mech(e)
        ctx.count("cells_raised")
        ctx.count(f"raised[{sc.path},{sc.alg}{sc.K},{sc.prop}]")
        w = describe(sc)
        w["program"] = sc.src
        if mech == "beartype-varargs-annotation":
            # one mechanism, one signature: the class whose estimate_logpdf annotation rejected the call
            m = re.search(r"inference\.\w+\.(\w+)\.estimate_logpdf", str(e))
            ctx.violation(f"C26|op=estimate_logpdf|on={m.group(1) if m else 'unknown'}|field=raises|cond={mech}",
                          detail=f"{type(e).__name__}: {_plain(str(e))[:400]}", reached_via=f"{_on(sc)}.{OPNAME[sc.path]}", **w)
            return None
        cond = _cond(sc, structural=True) + "," + mech
        ctx.violation(f"C26|op={OPNAME[sc.path]}|on={_on(sc)}|field=raises|cond={cond}", detail=f"{type(e).__name__}: {_plain(str(e))[:400]}", **w)
        return None


# ------------------------------------------------------------------------------- identity cells


_PLANS = {}


def _stratified(name, seed, first, rest):
    """Plan of arms: cell i gets first[i % len(first)] and the (i // len(first))-th element of a
    seed-dependent shuffle of `rest` drawn separately for each value of the first arm.  Every
    len(first) consecutive cells cover every value of the first arm; len(first)*len(rest) cells cover
    the full factorial."""
    key = (name, seed)
    if key not in _PLANS:
        rng = np.random.default_rng([977, seed, len(first), len(rest)])
        _PLANS[key] = [[rest[k] for k in rng.permutation(len(rest))] for _ in first]
    per = _PLANS[key]
    return lambda i: (first[i % len(first)], per[i % len(first)][(i // len(first)) % len(rest)])


def cell_plan(ci, seed):
    path, ((alg, K), prop) = _stratified("id", seed, PATHS, [(a, q) for a in ALGS for q in PROPS])(ci)
    return path, alg, K, prop


def identity_cell(ctx, ci, B):
    _CASE[0] = f"id/{ci}"
    rng = ctx.child_rng(1, ci)
    path, alg, K, prop = cell_plan(ci, ctx.seed)
    if prop == "custom-partial" and path in ("csmc", "ct_csmc", "est"):
        prop = "custom"  # the conditional run stacks proposal and retained choice maps: same addresses required
    # ImportanceK's conditional run without a proposal stacks whole traces with a helper that only
    # handles scalar leaves; most of those cells use scalar-leaf programs so that the weights are observed
    scalar_leaves = path in ("csmc", "ct_csmc", "est") and alg == "impk" and prop == "none" and rng.random() < 0.7
    sc = make_scen(rng, path, alg, K, prop, scalar_leaves=scalar_leaves)
    rows = make_rows(rng, sc, B)
    ctx.count("identity_cells")
    ctx.count(f"cells[{path}]")
    ctx.sample(describe(sc), limit=3)
    fn = make_fn(sc)
    out = run_or_violation(ctx, sc, lambda: call_fn(fn, sc, rows, rng.integers(1 << 30), B), rows)
    if out is None:
        return
    if path in ("smc", "csmc", "ct_smc", "ct_csmc"):
        check_collection(ctx, sc, rows, out, B)
    elif path == "rw":
        check_rw(ctx, sc, rows, out, B)
    else:
        check_est(ctx, sc, rows, out, B)


# ------------------------------------------------------------------------------- statistical cells


def _exact_target(sc, r0, new):
    """ExactTarget with p~ of the (new or own) target and q of the algorithm's own target."""
    net = sc.net
    params, obs = (r0["params2"], r0["obs2"]) if new else (r0["params"], r0["obs"])
    et = R.ExactTarget(net, params, sc.obs, [int(obs[i][0]) for i in sc.obs])
    # proposal under the OWN target
    lat_vals = {i: et.vals[i] for i in sc.lat}
    lq = log_q(sc, r0, lat_vals)[0]
    et.logq = lq
    et.q = np.exp(lq)
    et.logw = et.logp - lq
    et.w = np.exp(et.logw)
    et.var_w = float(np.sum(et.q * et.w * et.w) - et.Z**2)
    return et


def _two_stage(ctx, name, p1, stage2, sig, witness):
    ctx.count("statistical_cells")
    verdict, ps = R.stage_verdict(p1, stage2)
    ctx.count(f"stat[{name}]")
    if verdict == "held":
        if ps[1] is not None:
            ctx.count("stage1_flags_cleared")
        return True
    if verdict == "grey":
        ctx.count("grey")
        ctx.note(f"grey band: {name} p1={ps[0]:.3g} p2={ps[1]:.3g} {sig}")
        return False
    ctx.violation(sig, detail=f"{name}: stage-1 p={ps[0]:.3g}, stage-2 (8x samples, fresh keys) p={ps[1]:.3g}", **witness)
    return False


def _stat_plan(si, seed):
    kinds = ["smc", "lml", "sir", "csmc_est", "ct_smc", "lml_t", "sir", "smc"]
    props = ["none", "custom", "marginal", "marginal-aux", "custom-partial"]
    kind, ((alg, K), prop) = _stratified("stat", seed, kinds, [(a, q) for a in ALGS for q in props])(si)
    return kind, alg, K, prop


def stat_cell(ctx, si, N, reps):
    _CASE[0] = f"st/{si}"
    rng = ctx.child_rng(2, si)
    kind, alg, K, prop = _stat_plan(si, ctx.seed)
    path = {"smc": "smc", "ct_smc": "ct_smc", "lml": "lml", "lml_t": "lml_t", "sir": "rw", "csmc_est": "est"}[kind]
    family = "disc"
    max_lat = 32
    if kind in ("sir", "csmc_est"):
        K = [1, 2, 3][int(rng.integers(3))]
        alg = "impk" if K > 1 or rng.random() < 0.5 else "imp"
        max_lat = 8 if K == 3 else 12
        if prop in ("marginal-aux", "custom-partial") and kind == "csmc_est":
            prop = "custom"
        if prop == "marginal-aux":
            prop = "marginal"
    else:
        if rng.random() < 0.3 and prop in ("none", "custom", "custom-partial"):
            family = "gauss"
    sc = make_scen(rng, path, alg, K, prop, family=family, max_lat_outcomes=max_lat)
    if kind in ("sir", "csmc_est"):
        sc.retarget = False
    sc.release, sc.obs2 = [], list(sc.obs)  # released observations: deterministic monitors only
    rows1 = make_rows(rng, sc, 1)
    rows = tile_rows(rows1, N)
    r0 = row0(rows1)
    ctx.count(f"stat_cells[{kind}]")
    ctx.sample(dict(describe(sc), statistical=kind, keys=N * reps), limit=3)
    fn = make_fn(sc)
    stream = [0]

    def draw(nrep):
        outs = []
        for _ in range(nrep):
            stream[0] += 1
            outs.append(call_fn(fn, sc, rows, int(rng.integers(1 << 30)) + stream[0], N))
        return outs

    first = run_or_violation(ctx, sc, lambda: draw(reps), rows)
    if first is None:
        return
    wit = _witness(sc, rows1, 0, {"keys": N * reps})
    on, condp = _on(sc), _cond(sc)
    exact = sc.family == "disc" and not sc.aux

    if kind in ("smc", "ct_smc", "lml", "lml_t"):
        new = sc.retarget
        if sc.family == "disc":
            et = _exact_target(sc, r0, new)
            logZ = et.logZ
        else:
            params, obs = (r0["params2"], r0["obs2"]) if new else (r0["params"], r0["obs"])
            logZ = R.gaussian_logZ(sc.net, params, sc.obs, [float(obs[i][0]) for i in sc.obs])

        def lml_of(outs):
            if kind in ("smc", "ct_smc"):
                return np.concatenate([R.logmeanexp(np.asarray(o["lw"]).reshape(N, -1), axis=1) for o in outs])
            return np.concatenate([np.asarray(o["w"], dtype=np.float64).reshape(N) for o in outs])

        def p_evidence(outs):
            r = np.exp(lml_of(outs) - logZ)
            n = r.shape[0]
            if exact:
                cv2 = max(et.var_w, 0.0) / K / et.Z**2
                sd = math.sqrt(cv2 / n)
            else:
                m = float(np.mean(r))
                cv2 = float(np.var(r, ddof=1)) / (m * m) if m > 0 else float("inf")
                sd = float(np.std(r, ddof=1)) / math.sqrt(n)
            # the normal approximation of the mean needs an adequate effective sample size; a
            # heavy-tailed weight distribution (badly mismatched proposal) is not judged
            if n / (1.0 + cv2) < 400.0:
                return 1.0, float(np.mean(r)), sd, False
            return R.z_pvalue(float(np.mean(r)), 1.0, sd), float(np.mean(r)), sd, True

        p1, m1, sd1, powered = p_evidence(first)
        if not powered:
            ctx.count("evidence_low_effective_sample_size_skipped")
            return
        ctx.count("evidence_tests")
        ctx.count(f"evidence_tests[{kind},{sc.alg}{K},{sc.prop},{sc.family}]")
        ctx.evaluation(fingerprint=("evidence", kind, sc.alg, K, sc.prop, sc.net.sig(), tuple(sc.obs)), nontrivial=True, n=N * reps)
        wit2 = dict(wit, exact_logZ=logZ, mean_ratio_stage1=m1, sd_of_mean=sd1)
        _two_stage(ctx, "evidence", p1, lambda: p_evidence(draw(8 * reps))[0],
                   f"C26|op={OPNAME[path]}|on={on}|field=evidence-mean|cond={condp}", wit2)
        if kind in ("smc", "ct_smc") and sc.family == "disc":
            # particle 0 is distributed as the proposal
            def p_freq(outs):
                counts = np.zeros(et.n)
                for o in outs:
                    lat_vals = {i: _as_idx(sc.net, i, o["vals"][i])[:, 0] for i in sc.lat}
                    counts += np.bincount(et.outcome_index(lat_vals), minlength=et.n)
                if sc.aux:
                    qd = np.exp(R.guide_logp(sc.net, sc.qidx, sc.qconsts, {i: et.vals[i] for i in sc.lat}, aux=True)[0])
                else:
                    qd = et.q
                return R.g_test(counts, qd)[0]

            ctx.count("frequency_tests")
            _two_stage(ctx, "particle-frequency", p_freq(first), lambda: p_freq(draw(8 * reps)),
                       f"C26|op={OPNAME[path]}|on={on}|field=particle-distribution|cond={condp}", wit)
        return

    et = _exact_target(sc, r0, False)
    if kind == "sir":
        qK, m1, m2 = et.sir_distribution(K)
        ptil = np.exp(et.logp)

        def stats_of(outs):
            counts = np.zeros(et.n)
            ysum = np.zeros(et.n)
            n = 0
            for o in outs:
                lat_vals = {i: _as_idx(sc.net, i, o["vals"][j]) for j, i in enumerate(sc.lat)}
                idx = et.outcome_index(lat_vals)
                counts += np.bincount(idx, minlength=et.n)
                ysum += np.bincount(idx, weights=np.exp(-np.asarray(o["w"], dtype=np.float64)), minlength=et.n)
                n += idx.shape[0]
            return counts, ysum, n

        def p_freq(outs):
            counts, _, _ = stats_of(outs)
            return R.g_test(counts, qK)[0]

        def p_weight(outs):
            # Y_x = 1{X=x} / w_hat has mean 1 for every x; exact variance qK * E[Zhat^2|x]/p~^2 - 1
            counts, ysum, n = stats_of(outs)
            ps = []
            for x in range(et.n):
                if qK[x] < 0.03:
                    continue
                var = qK[x] * m2[x] / ptil[x] ** 2 - 1.0
                if n / (1.0 + max(var, 0.0)) < 400.0:
                    continue  # effective sample size too small for the normal approximation
                ps.append(R.z_pvalue(ysum[x] / n, 1.0, math.sqrt(max(var, 0.0) / n)))
            return min(1.0, min(ps) * len(ps)) if ps else 1.0

        ctx.count("sir_tests")
        ctx.evaluation(fingerprint=("sir", sc.alg, K, sc.prop, sc.net.sig(), tuple(sc.obs)), nontrivial=True, n=N * reps)
        wit2 = dict(wit, exact_output_distribution=qK.tolist())
        _two_stage(ctx, "sir-frequency", p_freq(first), lambda: p_freq(draw(8 * reps)),
                   f"C26|op=random_weighted|on={on}|field=sample-distribution|cond={condp}", wit2)
        _two_stage(ctx, "sir-density", p_weight(first), lambda: p_weight(draw(8 * reps)),
                   f"C26|op=random_weighted|on={on}|field=reciprocal-density-mean|cond={condp}", wit2)
        return

    if kind == "csmc_est":
        x = int(et.outcome_index({i: _as_idx(sc.net, i, r0["ret"][i]) for i in sc.lat})[0])
        mean, var = et.csmc_density_moments(K, x)

        def p_est(outs):
            e = np.concatenate([np.exp(np.asarray(o["w"], dtype=np.float64)).reshape(N) for o in outs])
            n = e.shape[0]
            if var <= 1e-12 * mean * mean:
                return 1.0 if np.all(np.abs(e - mean) <= 1e-3 * abs(mean)) else 0.0
            if n / (1.0 + var / (mean * mean)) < 400.0:
                return 1.0
            return R.z_pvalue(float(np.mean(e)), mean, math.sqrt(var / n))

        ctx.count("csmc_estimate_tests")
        ctx.evaluation(fingerprint=("csmc_est", sc.alg, K, sc.prop, sc.net.sig(), tuple(sc.obs)), nontrivial=True, n=N * reps)
        _two_stage(ctx, "csmc-density", p_est(first), lambda: p_est(draw(8 * reps)),
                   f"C26|op=estimate_logpdf|on={on}|field=density-mean|cond={condp}", dict(wit, exact_density=mean))
        return


# ------------------------------------------------------------------------------- entry


def _replay_kind(ctx):
    """In replay mode (./check C26 --replay file) only the witness's kind of cell is re-run; the
    worker already restricts my_share() to the witness's case index."""
    if not getattr(ctx, "replay", None):
        return None
    try:
        import json

        with open(ctx.replay) as f:
            k = str(json.load(f).get("case", "")).split("/")[0]
        return k if k in ("id", "st") else None
    except Exception:  # noqa: BLE001
        return None


def run(ctx):
    common.import_repo()
    R.selftest()
    NET_HI[0] = ctx.pick(4, 5)
    budget = ctx.pick(70.0, 600.0)
    n_id = ctx.pick(96, 720)
    n_stat = ctx.pick(48, 320)
    B = ctx.pick(192, 256)
    N = 2048
    reps = ctx.pick(1, 4)
    ids = list(ctx.my_share(n_id))
    sts = list(ctx.my_share(n_stat))
    # interleave so that a slow machine degrades both kinds of coverage evenly
    order = []
    si = 0
    for j, ci in enumerate(ids):
        order.append(("id", ci))
        while si < len(sts) and (si + 1) * len(ids) <= (j + 1) * len(sts):
            order.append(("st", sts[si]))
            si += 1
    order += [("st", s) for s in sts[si:]]
    rk = _replay_kind(ctx)
    for pos, (kind, idx) in enumerate(order):
        if rk is not None and kind != rk:
            continue
        # the first identity cells and the first statistical cell of a shard always run (a loaded
        # machine must not starve the required monitors); afterwards the time budget decides
        if pos >= 3 and ctx.elapsed() > budget:
            ctx.count("cells_skipped_budget")
            continue
        if kind == "id":
            identity_cell(ctx, idx, B)
        else:
            stat_cell(ctx, idx, N, reps)
