"""C17 — choice map queries agree with a finite-map model.

Runtime monitor.  Seeded construction histories (vf.gen.chm_terms) are executed step by step
on the real genjax objects and on an independent finite-map model (vf.ref.chm_model).  Every
intermediate map of every history is then queried, through every documented lookup form, on
the address universe of its case, and each answer is judged against the model:

  lookups     chm[addr], addr in chm, chm.get_submap(addr).get_value(), get_submap(*addr),
              chm(a)(b)..., chm(prefix)[rest], indices as python ints and as 0-d arrays,
              full / partial slices on dense leaves; eagerly and under jax.jit (flags, indices,
              index vectors and values traced);
  selection   chm.get_selection()[addr] / `addr in sel` for every static address over {a,b,c}
              up to length 3 (and ()): selected iff the map holds an entry there;
  builders    from_mapping / d with a repeated address (documented: later pair wins).

Normalisation: absent == entry with flag False; Mask(v, f) -> (v, f) elementwise; bare value
-> (v, True).  Positions where the documentation does not determine the result (value vs
sub-map unions, shape clashes, ...) are *unspecified* in the model and never compared; the
library may refuse them (counted as rejected, by mechanism), any other exception is a violation.
"""

from __future__ import annotations

import json
import os
import subprocess
import sys
import tempfile
import time

import numpy as np

from vf import common
from vf.gen import chm_terms as T
from vf.ref import chm_model as M

CM = "genjax._src.core.generative.choice_map"
_ANCHORS = [
    f"{CM}:Static.build", f"{CM}:Static.merge_with", f"{CM}:Static.filter", f"{CM}:Static.get_inner_map",
    f"{CM}:Indexed.build", f"{CM}:Indexed.filter", f"{CM}:Indexed.get_inner_map",
    f"{CM}:Switch.build", f"{CM}:Switch.filter", f"{CM}:Switch.get_value", f"{CM}:Switch.get_inner_map",
    f"{CM}:Or.build", f"{CM}:Or.filter", f"{CM}:Or.get_inner_map",
    f"{CM}:Choice.build", f"{CM}:Choice.filter", f"{CM}:Choice.get_inner_map",
    f"{CM}:_ChoiceMapBuilder.set", f"{CM}:_ChoiceMapBuilder.update",
    f"{CM}:ChmSel.get_subselection", f"{CM}:ChmSel.check",
    f"{CM}:ChoiceMap.__getitem__", f"{CM}:ChoiceMap.__contains__", f"{CM}:ChoiceMap.get_submap",
    f"{CM}:ChoiceMap.from_mapping",
    "genjax._src.core.generative.functional_types:Mask.__or__",
    "genjax._src.core.generative.functional_types:Mask.__getitem__",
]

CONFIG = {
    "level": "exploration",
    "shards": {"quick": 16, "thorough": 16},
    "timeout_s": {"quick": 600, "thorough": 3000},
    "rule": (
        "case = random schema over alphabet {a,b,c} (static depth <= 3, explicit index levels, dense array leaves) "
        "+ 4..8 construction steps drawn from {C[..].set / entry / choice.extend / vmapped builders, d / kw / from_mapping / "
        "set(dict), extend, at[..].set, at[..].update, | + merge, &, switch (python / array index, in and out of range), "
        "mask (python / array / vector flag), filter (selection terms with wildcards, |, &, ~, leaf), get_submap / call}; "
        "every intermediate map is queried on all its own positions, their one-step-off siblings, element / slice positions "
        "and every position of every other map of the case. A map is non-trivial when its construction history has >= 3 steps "
        "of >= 2 kinds; distinct by (mode, ordered op kinds of the history)."
    ),
    "reach_anchors": _ANCHORS,
    "reach_required": _ANCHORS,
    "counters_required": [
        "maps_queried_eager", "maps_queried_jit", "lookup_getitem", "lookup_contains", "lookup_submap_value",
        "lookup_chain", "lookup_splat", "lookup_split", "lookup_arridx", "lookup_slice", "selection_checks",
        "expected_present", "expected_absent", "dup_address_checks",
    ],
    "assumptions": [
        "numpy as the trusted base of the model; jax.jit / jax.vmap as trusted transformations",
        "an absent entry and an entry whose flag is False are the same observation",
        "unions of a value with a sub-map, of an index level with a static level, of leaves of different shapes, vector flags "
        "against non-matching leaves, maps derived from an array switch whose index is out of range, and integer lookups "
        "into scalar leaves / out of the range of dense leaves are outside the documented domain: not compared",
        "the selection of a map is static: addresses held only by entries whose (array) flag is False are not judged",
    ],
}

# library refusals (mechanism = exception type @ innermost repo function) accepted for a model
# position that is unspecified for the given reason
_LAMBDA = {"TypeError@choice_map.py:<lambda>", "IndexError@choice_map.py:<lambda>", "TypeError@functional_types.py:<lambda>", "IndexError@functional_types.py:<lambda>"}
REFUSALS = {
    "value-vs-submap": {"Exception@choice_map.py:build"} | _LAMBDA,
    "index-vs-static-level": {"Exception@choice_map.py:build", "AssertionError@choice_map.py:get_inner_map", "ValueError@functional_types.py:check_leaf_shapes"} | _LAMBDA,
    "leaf-shape-clash": {"ValueError@functional_types.py:check_leaf_shapes", "ValueError@functional_types.py:_validate_mask_shapes"},
    "flag-shape-clash": {"ValueError@functional_types.py:check_leaf_shapes", "AssertionError@functional_types.py:build"},
    "vector-flag-vs-leaf-shape": {"ValueError@functional_types.py:_validate_init", "AssertionError@functional_types.py:build"},
    "vector-flag-vs-scalar-flag": {"AssertionError@functional_types.py:build", "ValueError@functional_types.py:_validate_init"},
    "index-into-scalar": _LAMBDA,
    "index-out-of-range-dense": _LAMBDA,
    "leading-index-over-switch": _LAMBDA,
    "leading-index-over-index-level": _LAMBDA | {"AssertionError@choice_map.py:get_inner_map"},
    "slice-over-index-level": _LAMBDA | {"AssertionError@choice_map.py:get_inner_map"},
    "selection-of-invalid-entry": set(),
    "selection-of-unspecified": set(),
}
ALL_REFUSALS = set().union(*REFUSALS.values())
TWO_SWITCH = "Exception@choice_map.py:build"
VECOR_SIG_VALUE = "C17|op=or|on=Mask-leaf|field=value|cond=vector-flag+trailing-dims"
VECOR_SIG_RAISE = "C17|op=or|on=Mask-leaf|field=raises|cond=vector-flag+trailing-dims"
SEL_INDEX_SIG = "C17|op=get_selection|on=ChmSel|field=selected|cond=index-level-on-path"
AND_INDEX_SIG = "C17|op=and|on=ChmSel|field=missing|cond=index-level-on-path"
DUP_SIG = "C17|op=from_mapping|on=ChoiceMap|field=value|cond=repeated-address-later-pair"

STATIC_ADDRS = [()] + [(a,) for a in T.ALPHA] + [(a, b) for a in T.ALPHA for b in T.ALPHA] + [
    (a, b, c) for a in T.ALPHA for b in T.ALPHA for c in T.ALPHA
]


# =========================================================================== helpers


def _mech(e):
    m = common.exc_mechanism(e)
    return m


def _allowed(reasons, mech):
    """A refusal is accepted when the model marks some position of the map as unspecified and the
    mechanism belongs to the library's refusal family (the exact pairing reason -> mechanism is
    not predictable below an unspecified position: shapes and kinds there are unknown)."""
    return bool(reasons) and mech in ALL_REFUSALS


def _norm(G, v):
    """Real lookup result -> None (absent) | (val float64 ndarray, flag bool ndarray same shape) | ('bad', why)"""
    if v is None:
        return None
    Mask = G["Mask"]
    if isinstance(v, Mask):
        val, f = v.value, v.primal_flag()
    else:
        val, f = v, True
    return _norm_vf(val, f)


def _norm_vf(val, f):
    try:
        val = np.asarray(val).astype(np.float64)
        f = np.asarray(f).astype(bool)
    except Exception as e:  # a pytree or non-numeric value where an array is expected
        return ("bad", f"non-array value {type(val).__name__}: {e}")
    if f.ndim > val.ndim or f.shape != val.shape[: f.ndim]:
        return ("bad", f"flag shape {f.shape} is not a prefix of value shape {val.shape}")
    flag = np.broadcast_to(f.reshape(f.shape + (1,) * (val.ndim - f.ndim)), val.shape)
    return (val, flag)


def _judge(node, got):
    """Compare a normalised real result with the model node at the same address.
    Returns None (agrees) or (field, detail)."""
    if isinstance(got, tuple) and len(got) == 2 and isinstance(got[0], str):
        return ("malformed", got[1])
    if isinstance(node, M.Leaf) and node.flag.any():
        if got is None:
            return ("missing", f"expected value shape {node.val.shape} with {int(node.flag.sum())} valid element(s), observed absent")
        val, flag = got
        if val.shape != node.val.shape:
            return ("shape", f"expected shape {node.val.shape}, observed {val.shape}")
        if not np.array_equal(flag, node.flag):
            return ("flag", f"expected flags {node.flag.tolist()}, observed {flag.tolist()}")
        ok = np.isclose(val[flag], node.val[flag], rtol=1e-5, atol=1e-5)
        if not ok.all():
            return ("value", f"expected {np.where(node.flag, node.val, np.nan).tolist()}, observed {np.where(flag, val, np.nan).tolist()}")
        return None
    # the model holds no valid entry here
    if got is None:
        return None
    val, flag = got
    if flag.any():
        return ("spurious", f"expected no entry, observed value {np.where(flag, val, np.nan).tolist()} with valid flag(s)")
    return None


def _key_real(G, comp, arr=False):
    if isinstance(comp, tuple):  # ('sl', start, stop)
        return slice(comp[1], comp[2], None)
    if isinstance(comp, str):
        return comp
    return G["jnp"].asarray(comp, dtype=G["jnp"].int32) if arr else int(comp)


def _key_model(comp):
    if isinstance(comp, tuple):
        return slice(comp[1], comp[2], None)
    return comp


def _path_class(path):
    if any(isinstance(c, tuple) for c in path):
        return "slice"
    if any(isinstance(c, int) for c in path):
        return "indexed"
    return "static"


# =========================================================================== query plan


def own_positions(node, limit=120):
    """Every position of a model map: inner positions, leaves, element / slice positions of
    array leaves, leading-index positions of dense sub-maps, one-step-off siblings."""
    out = []
    seen = set()

    def add(p):
        if p not in seen and len(out) < limit:
            seen.add(p)
            out.append(p)

    def rec(nd, p):
        add(p)
        if nd is M.EMPTY or isinstance(nd, M.Unspec):
            return
        if isinstance(nd, M.Leaf):
            add(p + ("a",))
            if nd.val.ndim >= 1:
                n = nd.val.shape[0]
                add(p + (0,))
                add(p + (n - 1,))
                add(p + (("sl", None, None),))
                if n >= 2:
                    add(p + (("sl", 1, n),))
                if nd.val.ndim >= 2:
                    add(p + (n - 1, nd.val.shape[1] - 1))
                    add(p + (0, ("sl", None, None)))
            return
        if isinstance(nd, M.Dict):
            d = M.dense_dim(nd)
            for k in T.ALPHA:
                if k in nd.kids:
                    rec(nd.kids[k], p + (k,))
                else:
                    add(p + (k,))
            if d is not None:
                below = [q for q, l, _s in M.leaves(nd)]
                for q in below[:4]:
                    add(p + (0,) + q)
                    add(p + (d - 1,) + q)
                    add(p + (("sl", None, None),) + q)
                    if d >= 2:
                        add(p + (("sl", 0, d - 1),) + q)
            return
        if isinstance(nd, M.Index):
            for k in (*T.IDX, 5):
                if k in nd.kids:
                    rec(nd.kids[k], p + (k,))
                else:
                    add(p + (k,))
                    # the skeleton below an unselected index must be (semantically) empty too
                    for q, _l, _s in list(M.leaves(nd.shadow))[:2]:
                        if all(c is not None for c in q):
                            add(p + (k,) + q)
            add(p + ("a",))

    rec(node, ())
    return out


def valid_query(path):
    """Lookup addresses must be: scalars, then at most one partial slice, then full slices
    (library address validation); slices only followed by static components."""
    seen_slice = False
    for c in path:
        if isinstance(c, tuple):
            seen_slice = True
        elif isinstance(c, int) and seen_slice:
            return False
    return True


# =========================================================================== case execution


class Runner:
    def __init__(self, ctx, G):
        self.ctx = ctx
        self.G = G

    # ---------------------------------------------------------------- building
    def build_case(self, case, n_steps, forced=()):
        """Generate steps against the model pool and execute them eagerly in lock-step.
        Returns the list of real maps (None for steps the library refused)."""
        ctx, G = self.ctx, self.G
        jnp = G["jnp"]
        reals = []
        attempts = 0
        forced = list(forced)
        last_switch = None
        while len(case.steps) < n_steps and attempts < n_steps * 3:
            attempts += 1
            nd0 = len(case.dyn)
            fresh = len(case.models) < 2 or case.rng.random() < 0.28
            if len(case.models) >= 2 and forced:
                f = forced.pop(0)
                src = last_switch if f.endswith("@switch") else None
                step = T.gen_combine(case, force=(f.split("@")[0], src))
            else:
                step = T.gen_fresh(case) if fresh else T.gen_combine(case)
            deps = T.step_deps(step)
            if any(reals[d] is None for d in deps):
                del case.dyn[nd0:]
                continue
            try:
                model = T.model_step(case, step)
            except Exception:
                raise
            dyn = self._dyn_real(case)
            meta = self._meta(case, step, deps)
            try:
                real = T.realize(G, dyn, reals, step)
            except Exception as e:  # library exception while constructing
                self._build_exception(case, step, model, meta, e)
                real = None
            case.steps.append(step)
            case.models.append(model)
            case.meta.append(meta)
            reals.append(real)
            if real is not None:
                ctx.count(f"built_{step['op']}")
                if step["op"] == "switch" and not step["concrete"]:
                    last_switch = len(reals) - 1
        return reals

    def _dyn_real(self, case):
        jnp = self.G["jnp"]
        return [jnp.asarray(a) for a in case.dyn]

    def _meta(self, case, step, deps):
        op = step["op"]
        hist = []
        depset = set()
        for d in deps:
            depset |= case.meta[d]["deps"] | {d}
        for d in sorted(depset):
            hist.append(case.steps[d]["op"])
        hist.append(op)
        nsw = sum(case.meta[d]["nsw"] for d in deps) + (1 if (op == "switch" and not step["concrete"]) else 0)
        oob = any(case.meta[d]["oob"] or case.meta[d]["oob_self"] for d in deps)
        oob_self = False
        if op == "switch" and not step["concrete"]:
            i = int(case.dyn[step["idx"]])
            oob_self = not (0 <= i < len(step["maps"]))
        and_defect = set()
        if op == "and":
            a = case.models[step["a"]]
            noidx = {M.static_part(p) for p, l, sh in M.leaves(a) if isinstance(l, M.Leaf) and not sh and l.flag.any() and not M.has_index_level(p)}
            _s, valid, _u, via = M.static_addresses(a)
            and_defect = {x for x in valid if x in via and x not in noidx}
        return {"deps": depset, "hist": tuple(hist), "nsw": nsw, "oob": oob, "oob_self": oob_self, "and_defect": and_defect, "bad": False}

    def _build_exception(self, case, step, model, meta, e):
        ctx = self.ctx
        mech = _mech(e)
        reasons = M.unspec_reasons(model)
        msg = str(e)
        if "two switches" in msg and mech == TWO_SWITCH and meta["nsw"] >= 2:
            ctx.reject("build:two-switches-in-or:" + mech)
            return
        if _allowed(reasons, mech):
            ctx.reject(f"build:{'+'.join(sorted(reasons))[:60]}:{mech}")
            return
        if mech == "ValueError@staging.py:inner" and any(isinstance(l, M.Leaf) and "vecor" in l.taint for _p, l, _s in M.leaves(model)):
            ctx.violation(VECOR_SIG_RAISE, detail=f"{type(e).__name__}: {msg[:300]}", step=step, steps=self._witness(case, step))
            return
        if meta["oob"] and not isinstance(e, (TypeError,)):
            ctx.reject("build:derived-from-out-of-range-switch:" + mech)
            return
        ctx.violation(
            f"C17|op={step['op']}|on=construction|field=raises|cond={mech}",
            detail=f"{type(e).__name__}: {msg[:300]}", step=step, steps=self._witness(case, step), model=repr(model)[:400],
        )

    def _witness(self, case, step=None, upto=None):
        steps = case.steps if upto is None else case.steps[: upto + 1]
        out = {"steps": steps + ([step] if step is not None and (not steps or steps[-1] is not step) else []), "dyn": [a.tolist() for a in case.dyn]}
        return json.loads(json.dumps(out, default=str))

    # ---------------------------------------------------------------- observing
    def universe(self, case):
        uni = []
        seen = set()
        for m in case.models:
            for p in own_positions(m):
                if p not in seen:
                    seen.add(p)
                    uni.append(p)
        return uni

    def queries_for(self, case, k, uni, budget):
        """(path, expected model node) for map k: own positions first, then the case universe."""
        model = case.models[k]
        out = []
        seen = set()
        n_unspec = 0
        for p in own_positions(model) + uni:
            if p in seen or not valid_query(p):
                continue
            seen.add(p)
            exp = M.lookup(model, tuple(_key_model(c) for c in p))
            if isinstance(exp, M.Unspec):
                n_unspec += 1
                continue
            out.append((p, exp))
            if len(out) >= budget:
                break
        if n_unspec:
            self.ctx.count("queries_skipped_unspecified", n_unspec)
        return out

    def ask(self, root, path, form, rng):
        """One lookup through one form. Returns the raw library result or None (absent)."""
        G = self.G
        NoValue = G["NoValue"]
        arr = form == "arridx"
        keys = tuple(_key_real(G, c, arr) for c in path)
        if form in ("getitem", "arridx", "slice"):
            try:
                if len(keys) == 1 and rng.random() < 0.5:
                    return root[keys[0]]
                return root[keys]
            except NoValue:
                return None
        if form == "contains":
            return (keys if len(keys) != 1 else keys[0]) in root
        if form == "submap_value":
            return root.get_submap(keys).get_value()
        if form == "splat":
            return root.get_submap(*keys).get_value()
        if form == "chain":
            cur = root
            for kk in keys:
                cur = cur(kk)
            return cur.get_value()
        if form == "split":
            j = int(rng.integers(1, len(keys)))
            try:
                return root(keys[:j])[keys[j:] if len(keys[j:]) > 1 else keys[j]]
            except NoValue:
                return None
        raise ValueError(form)

    def forms_for(self, path, rng, full):
        has_slice = any(isinstance(c, tuple) for c in path)
        has_int = any(isinstance(c, int) for c in path)
        if has_slice:
            return ["slice", "contains"] if full else ["slice"]
        forms = ["getitem", "contains"]
        extra = ["submap_value", "chain", "splat"]
        if len(path) >= 2:
            extra.append("split")
        if has_int:
            extra.append("arridx")
        if len(path) == 0:
            extra = ["submap_value"]
        if full:
            k = min(len(extra), 2)
            forms += [str(x) for x in rng.choice(extra, size=k, replace=False)]
        return forms

    def observe_eager(self, case, reals, k, uni, rng):
        """Query map k eagerly and judge. Returns number of comparisons."""
        ctx, G = self.ctx, self.G
        model, meta, step = case.models[k], case.meta[k], case.steps[k]
        root = reals[k]
        n_cmp = 0
        reasons = M.unspec_reasons(model)
        tainted = any(isinstance(l, M.Leaf) and "vecor" in l.taint for _p, l, _s in M.leaves(model))
        for path, exp in self.queries_for(case, k, uni, budget=90):
            present = isinstance(exp, M.Leaf) and exp.flag.any()
            got_item = "?"
            for form in self.forms_for(path, rng, full=True):
                try:
                    raw = self.ask(root, path, form, rng)
                except Exception as e:
                    if self._lookup_exception(case, k, path, form, exp, e, reasons, tainted, "eager"):
                        meta["bad"] = True
                    continue
                ctx.count(f"lookup_{form}")
                ctx.count("expected_present" if present else "expected_absent")
                n_cmp += 1
                if form == "contains":
                    bad = None
                    if present and raw is not True:
                        bad = ("missing", f"`in` is {raw!r} where the model holds a valid entry")
                    elif raw not in (True, False):
                        bad = ("malformed", f"`in` returned {raw!r}")
                    elif got_item != "?" and raw != (got_item is not None):
                        # documented: `addr in chm` <=> chm[addr] does not raise
                        bad = ("contains-vs-getitem", f"`in` is {raw!r} but chm[addr] {'returned a value' if got_item is not None else 'raised ChoiceMapNoValueAtAddress'}")
                else:
                    if form in ("getitem", "slice"):
                        got_item = raw
                    bad = _judge(exp, _norm(G, raw))
                if bad is not None:
                    self._report(case, k, path, form, exp, bad, "eager")
                    meta["bad"] = True
        return n_cmp

    def _lookup_exception(self, case, k, path, form, exp, e, reasons, tainted, mode):
        """True if it was reported as a violation."""
        ctx = self.ctx
        mech = _mech(e)
        msg = str(e)
        meta = case.meta[k]
        if "two switches" in msg and mech == TWO_SWITCH and meta["nsw"] >= 2:
            ctx.reject("lookup:two-switches-in-or:" + mech)
            return False
        if mech == "ValueError@staging.py:inner" and tainted:
            ctx.violation(VECOR_SIG_RAISE, detail=f"lookup {path!r} [{form}] raised {type(e).__name__}: {msg[:200]}", steps=self._witness(case, upto=k))
            return True
        if reasons and _allowed(reasons, mech):
            ctx.reject(f"lookup:{'+'.join(sorted(reasons))[:60]}:{mech}")
            return False
        merged = M.index_merge_reasons(case.models[k], tuple(_key_model(c) for c in path))
        if merged and _allowed(merged, mech):
            ctx.reject(f"lookup:index-level-skeletons:{'+'.join(sorted(merged))[:50]}:{mech}")
            return False
        if meta["nsw"] >= 1 and mech in _LAMBDA and any(not isinstance(c, str) for c in path):
            # a map built from an array switch keeps the (0-d) switch index inside its skeleton even
            # where it is semantically empty; an integer / slice lookup that is mapped over that
            # skeleton is refused by the library
            ctx.reject("lookup:leading-index-over-switch-skeleton:" + mech)
            return False
        ctx.violation(
            f"C17|op={case.steps[k]['op']}|on={form}|field=raises|cond={mode},{mech}",
            detail=f"lookup {path!r} raised {type(e).__name__}: {msg[:300]}", expected=repr(exp)[:200],
            steps=self._witness(case, upto=k), model=repr(case.models[k])[:600],
        )
        return True

    def _report(self, case, k, path, form, exp, bad, mode):
        ctx = self.ctx
        field, detail = bad
        step = case.steps[k]
        meta = case.meta[k]
        if isinstance(exp, M.Leaf) and "vecor" in exp.taint and field in ("value", "flag", "shape"):
            sig = VECOR_SIG_VALUE
        elif step["op"] == "and" and field == "missing" and M.static_part(tuple(c for c in path if not isinstance(c, tuple))) in meta["and_defect"]:
            sig = AND_INDEX_SIG
        else:
            sig = f"C17|op={step['op']}|on={form}|field={field}|cond={mode},{_path_class(path)}-path"
        ctx.violation(
            sig, detail=detail, lookup=[list(c) if isinstance(c, tuple) else c for c in path], form=form,
            history=list(meta["hist"]), steps=self._witness(case, upto=k), model=repr(case.models[k])[:800],
        )

    # ---------------------------------------------------------------- selections
    def observe_selection(self, case, reals, k):
        ctx = self.ctx
        model = case.models[k]
        root = reals[k]
        supp, valid, unknown, via = M.static_addresses(model)
        noidx = {M.static_part(p) for p, l, sh in M.leaves(model) if isinstance(l, M.Leaf) and not sh and l.flag.any() and not M.has_index_level(p)}
        try:
            sel = root.get_selection()
        except Exception as e:
            ctx.violation(f"C17|op=get_selection|on=ChmSel|field=raises|cond={_mech(e)}", detail=str(e)[:300], steps=self._witness(case, upto=k))
            return 0
        n = 0
        reasons = M.unspec_reasons(model)
        for addr in STATIC_ADDRS:
            if any(addr[: len(u)] == u for u in unknown):
                continue
            if addr in supp and addr not in valid:
                ctx.count("selection_grey_skipped")
                continue
            exp = addr in valid
            try:
                got = sel[addr] if len(addr) != 1 else sel[addr[0]]
                got2 = (addr if len(addr) != 1 else addr[0]) in sel
            except Exception as e:
                mech = _mech(e)
                if case.meta[k]["nsw"] >= 2 and "two switches" in str(e):
                    ctx.reject("selection:two-switches-in-or:" + mech)
                elif reasons and _allowed(reasons, mech):
                    ctx.reject(f"selection:{'+'.join(sorted(reasons))[:60]}:{mech}")
                elif mech == "ValueError@staging.py:inner" and M.has_taint(model, "vecor"):
                    ctx.violation(VECOR_SIG_RAISE, detail=f"sel[{addr!r}] raised {type(e).__name__}: {str(e)[:200]}", steps=self._witness(case, upto=k))
                    case.meta[k]["bad"] = True
                else:
                    ctx.violation(f"C17|op=get_selection|on=ChmSel|field=raises|cond={mech}", detail=f"sel[{addr!r}]: {str(e)[:300]}", steps=self._witness(case, upto=k))
                continue
            n += 1
            ctx.count("selection_checks")
            ctx.count("selection_expected_true" if exp else "selection_expected_false")
            if bool(got) != bool(got2):
                ctx.violation("C17|op=get_selection|on=ChmSel|field=contains-vs-getitem|cond=any", detail=f"sel[{addr!r}]={got!r} but `in` gives {got2!r}", steps=self._witness(case, upto=k))
            if bool(got) != exp:
                if exp and addr not in noidx:
                    sig = SEL_INDEX_SIG
                else:
                    sig = f"C17|op=get_selection|on=ChmSel|field={'not-selected' if exp else 'over-selected'}|cond=static-path"
                case.meta[k]["bad"] = True
                ctx.violation(sig, detail=f"get_selection()[{addr!r}] = {got!r}, the map {'holds' if exp else 'holds no'} entry with that static address", model=repr(model)[:600], steps=self._witness(case, upto=k))
        return n

    # ---------------------------------------------------------------- jit replay
    def observe_jit(self, case, reals, good, uni, rng):
        """Re-run the whole history inside jax.jit with every dynamic input traced; query the
        maps in `good` through chm[addr] / in / get_submap().get_value() and judge."""
        ctx, G = self.ctx, self.G
        jax, jnp = G["jax"], G["jnp"]
        NoValue = G["NoValue"]
        Mask = G["Mask"]
        plan = []
        for k in good:
            for path, exp in self.queries_for(case, k, uni, budget=22):
                form = "slice" if any(isinstance(c, tuple) for c in path) else str(rng.choice(["getitem", "getitem", "submap_value", "chain", "arridx"]))
                if form == "arridx" and not any(isinstance(c, int) for c in path):
                    form = "getitem"
                plan.append((k, path, form, exp))
        info = []

        def run_all(dyn):
            info.clear()
            pool = []
            for i, step in enumerate(case.steps):
                if reals[i] is None:
                    pool.append(None)
                    continue
                pool.append(T.realize(G, dyn, pool, step))
            outs = []
            sub_rng = np.random.default_rng(0)
            for k, path, form, _exp in plan:
                try:
                    raw = self.ask(pool[k], path, form, sub_rng)
                except Exception as e:  # recorded statically, judged outside
                    info.append(("raise", e))
                    continue
                if raw is None:
                    info.append(("absent", None))
                    continue
                if isinstance(raw, Mask):
                    val, f = raw.value, raw.primal_flag()
                else:
                    val, f = raw, True
                try:
                    outs.append((jnp.asarray(val), jnp.asarray(f)))
                    info.append(("value", None))
                except Exception as e:
                    info.append(("raise", e))
            return outs

        dyn = [jnp.asarray(a) for a in case.dyn]
        try:
            outs = jax.jit(run_all)(dyn)
        except Exception as e:
            mech = _mech(e)
            reasons = set()
            for m in case.models:
                reasons |= M.unspec_reasons(m)
            if reasons and _allowed(reasons, mech):
                ctx.reject(f"jit-build:{'+'.join(sorted(reasons))[:60]}:{mech}")
            elif any(m["oob"] or m["nsw"] >= 2 for m in case.meta):
                ctx.reject("jit-build:out-of-range-or-two-switch-history:" + mech)
            else:
                ctx.violation(f"C17|op=history|on=construction|field=raises|cond=jit,{mech}", detail=f"{type(e).__name__}: {str(e)[:300]}", steps=self._witness(case))
            return 0
        n_cmp = 0
        it = iter(outs)
        info_l = list(info)
        for (k, path, form, exp), (kind, payload) in zip(plan, info_l):
            model, meta = case.models[k], case.meta[k]
            reasons = M.unspec_reasons(model)
            tainted = any(isinstance(l, M.Leaf) and "vecor" in l.taint for _p, l, _s in M.leaves(model))
            if kind == "raise":
                self._lookup_exception(case, k, path, form, exp, payload, reasons, tainted, "jit")
                continue
            if kind == "absent":
                got = None
            else:
                val, f = next(it)
                got = _norm_vf(val, f)
            ctx.count(f"jit_lookup_{form}")
            n_cmp += 1
            bad = _judge(exp, got)
            if bad is not None:
                self._report(case, k, path, form, exp, bad, "jit")
        return n_cmp


# =========================================================================== fixed monitors


def dup_address_monitor(ctx, G, n):
    """from_mapping / d: 'If multiple pairs have the same address, later pairs will overwrite
    earlier ones.'"""
    ChoiceMap = G["ChoiceMap"]
    for i in range(n):
        rng = ctx.child_rng(7, i)
        ln = int(rng.integers(1, 4))
        addr = tuple(str(rng.choice(T.ALPHA)) for _ in range(ln))
        v1, v2 = float(rng.integers(1, 50)), float(rng.integers(51, 99))
        other = "z"
        shape = int(rng.integers(3))
        if shape == 0:
            pairs = [(addr if ln > 1 else addr[0], v1), (other, 0.0), (addr if ln > 1 else addr[0], v2)]
            m = ChoiceMap.from_mapping(pairs)
            how = "from_mapping same key twice"
        elif shape == 1 and ln >= 2:
            pairs = [(addr, v1), (addr[0], _nest(addr[1:], v2))]
            m = ChoiceMap.from_mapping(pairs)
            how = "from_mapping tuple key then nested dict"
        else:
            if ln < 2:
                addr = addr + ("b",)
            m = ChoiceMap.d({addr: v1, addr[0]: _nest(addr[1:], v2)})
            how = "d tuple key then nested dict"
        got = m[addr]
        ctx.count("dup_address_checks")
        ctx.evaluation(fingerprint=("dup", how, len(addr)), nontrivial=True)
        if float(np.asarray(got)) != v2:
            ctx.violation(DUP_SIG, detail=f"{how}: address {addr!r} given {v1} then {v2}; lookup returns {float(np.asarray(got))}, documented: later pair wins", address=list(addr))


def _nest(addr, v):
    out = v
    for c in reversed(addr):
        out = {c: out}
    return out


# =========================================================================== driver


def run_cases(ctx, n_cases, n_jit, budget_s):
    G = T.real_env()
    from genjax._src.core.generative.choice_map import ChoiceMapNoValueAtAddress

    G["NoValue"] = ChoiceMapNoValueAtAddress
    runner = Runner(ctx, G)
    jit_left = n_jit
    for ci in ctx.my_share(n_cases * ctx.nshards):
        if time.process_time() > budget_s:
            ctx.note(f"cpu budget reached after case index {ci}")
            break
        rng = ctx.child_rng(1, ci)
        # one leading dimension per shard: eager jax compiles once per distinct shape
        case = T.Case(rng, N=(2, 3, 4)[ctx.shard % 3])
        n_steps = int(rng.integers(4, 9))
        # the first case of every shard is steered through the rarer mechanisms
        forced = ("switch:arr", "filter@switch", "mask@switch", "at_update", "or") if ci == ctx.shard else ()
        reals = runner.build_case(case, max(n_steps, 7) if forced else n_steps, forced)
        uni = runner.universe(case)
        good = []
        for k, real in enumerate(reals):
            meta = case.meta[k]
            if real is None:
                continue
            if any(case.meta[d]["bad"] for d in meta["deps"]):
                ctx.count("maps_skipped_after_violation")
                meta["bad"] = True
                continue
            if meta["oob"]:
                ctx.count("maps_skipped_derived_from_out_of_range_switch")
                continue
            if isinstance(case.models[k], M.Unspec):
                ctx.count("maps_wholly_unspecified")
                continue
            n = runner.observe_eager(case, reals, k, uni, rng)
            if not meta["bad"]:
                n += runner.observe_selection(case, reals, k)
            hist = meta["hist"]
            nontrivial = len(hist) >= 3 and len(set(hist)) >= 2
            ctx.evaluation(fingerprint=("eager", hist), nontrivial=nontrivial, n=max(n, 1))
            ctx.count("maps_queried_eager")
            ctx.count(f"queried_{case.steps[k]['op']}")
            if nontrivial:
                ctx.count("maps_nontrivial")
            if not meta["bad"]:
                good.append(k)
        if jit_left > 0 and good and time.process_time() < budget_s * 0.9:
            jit_left -= 1
            n = runner.observe_jit(case, reals, good, uni, rng)
            if n:
                ctx.count("maps_queried_jit", len(good))
                ctx.count("jit_histories")
                for k in good:
                    hist = case.meta[k]["hist"]
                    ctx.evaluation(fingerprint=("jit", hist), nontrivial=len(hist) >= 3 and len(set(hist)) >= 2, n=max(1, n // len(good)))
        ctx.sample({"schema": repr(case.schema), "steps": case.steps[:8], "n_dyn": len(case.dyn)}, limit=2)
    return G


def _merge_child(ctx, path):
    with open(path) as f:
        res = json.load(f)
    ctx.evaluations += res.get("evaluations", 0)
    ctx.fingerprints.update(res.get("fingerprints", []))
    for k, v in res.get("counters", {}).items():
        ctx.count(k, v)
    for k, v in res.get("reach", {}).items():
        ctx.reached(k, v)
    for k, v in res.get("rejected", {}).items():
        ctx.rejected[k] = ctx.rejected.get(k, 0) + v
    for v in res.get("violations", []):
        ctx.violations.append(v)
    for s in res.get("notes", []):
        ctx.note(s)


def run(ctx):
    common.import_repo()
    quick = ctx.quick()
    # thorough: shards 1,2,3 (mod 4) re-execute themselves under PYTHONHASHSEED=1,2,3 (set/dict
    # iteration order inside Static.merge_with), shard 0 (mod 4) keeps the inherited seed
    hs = ctx.shard % 4
    if not quick and hs != 0 and os.environ.get("C17_CHILD") != "1":
        env = dict(os.environ)
        env["PYTHONHASHSEED"] = str(hs)
        env["C17_CHILD"] = "1"
        with tempfile.TemporaryDirectory() as td:
            out = os.path.join(td, "child.json")
            cmd = [sys.executable, "-m", "vf.worker", "--prop", ctx.prop, "--tier", ctx.tier, "--seed", str(ctx.seed),
                   "--shard", str(ctx.shard), "--nshards", str(ctx.nshards), "--out", out]
            p = subprocess.run(cmd, env=env, cwd=os.path.dirname(os.path.dirname(os.path.dirname(os.path.abspath(__file__)))),
                               capture_output=True, text=True, timeout=CONFIG["timeout_s"]["thorough"] - 60)
            if not os.path.exists(out):
                raise RuntimeError("hash-seed child failed: " + (p.stdout + p.stderr)[-800:])
            _merge_child(ctx, out)
            ctx.count(f"hashseed_{hs}_shards")
        return
    ctx.count(f"hashseed_{os.environ.get('PYTHONHASHSEED', '?')}_shards_inprocess")
    G = run_cases(ctx, n_cases=ctx.pick(12, 400), n_jit=ctx.pick(2, 40), budget_s=ctx.pick(42, 800))
    dup_address_monitor(ctx, G, ctx.pick(2, 12))
