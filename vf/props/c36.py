"""C36 — the stateful interpreter is transparent for unhandled primitives.

For every generated JAX function f (vf/gen/jaxfns.py; control flow, literals, closed-over
constants, multi-output primitives, custom_jvp/vjp, 0-4 inputs) the REAL interpreter is run with a
handler whose `handles()` is always False and judged against ordinary evaluation f(*args):

* `stateful-eager`  stateful(f)(h, *args) concretely (op by op)          == f(*args)
* `stateful-jit`    jax.jit(lambda *a: stateful(f)(h, *a)) on 2 input sets == jax.jit(f)
* `stateful-trace`  jax.eval_shape of the interpreter                      == jax.eval_shape(f)
* `stateful-vmap`   jax.vmap of the interpreter over the stacked input sets == jax.vmap(f)
* `isb-eager/jit/trace`  w = initial_style_bind(prim)(f) evaluated outside any handler: values ==
  f(*args), shapes/dtypes == jax.eval_shape(f), make_jaxpr(w) is a single `prim` equation whose
  out avals are those of f (abstract eval)
* `isb-vmap`        jax.vmap(w): if the primitive has no batching rule the library refusal is
  counted as rejected, otherwise the result must equal jax.vmap(f)
* `stateful-of-isb` stateful(w)(h, *args): the interpreter binds the initial-style primitive,
  which must evaluate to its wrapped function, eagerly and under jit.
`dispatch()` of the handler must never be called.
"""

from __future__ import annotations

import numpy as np

from vf import common
from vf.gen import jaxfns as G
from vf.ref import jaxfn_oracle as O

S = "genjax._src.core.compiler.interpreters.stateful"
E = "genjax._src.core.compiler.interpreters.environment"
P = "genjax._src.core.compiler.initial_style_primitive"
CONFIG = {
    "level": "exploration",
    "shards": {"quick": 16, "thorough": 16},
    "timeout_s": {"quick": 600, "thorough": 3000},
    "rule": "case = (generated pure JAX function from vf/gen/jaxfns.py, input set, mode) with modes stateful-{eager,jit,trace,vmap}, isb-{eager,jit,trace,vmap}, stateful-of-isb-{eager,jit}; the handler answers False to every handles() query. non-trivial: the function contains >=1 control-flow or multi-output primitive, or a closed-over constant together with a literal; distinct by (control/multi-output feature set, #input leaves, mode).",
    "reach_anchors": [
        f"{S}:StatefulInterpreter.eval_jaxpr_stateful",
        f"{S}:StatefulInterpreter.run_interpreter",
        f"{E}:Environment.read",
        f"{E}:Environment.write",
        f"{P}:initial_style_bind",
    ],
    "reach_required": [
        f"{S}:StatefulInterpreter.eval_jaxpr_stateful",
        f"{E}:Environment.read",
        f"{E}:Environment.write",
        f"{P}:initial_style_bind",
    ],
    "counters_required": [
        "c36_functions",
        "c36_leaves_compared",
        "mode:stateful-eager",
        "mode:stateful-jit",
        "mode:stateful-trace",
        "mode:isb-eager",
        "mode:isb-jit",
        "mode:isb-trace",
        "mode:stateful-of-isb-eager",
        "handler_queries",
    ],
    "assumptions": [
        "ordinary evaluation f(*args) (eager and jax.jit) is the trusted base; it is cross-checked against an independent numpy float64 evaluation of the same AST and a function on which they disagree is skipped (counter oracle_selfcheck_skipped)",
        "generated programs are well-conditioned on their input sets (every discrete decision has margin >= 0.02, |values| <= 40), float comparison 2e-4 rel+abs scaled by sqrt(#statements); ints and bools exact; shapes and dtypes exact (weak_type is not compared)",
        "jax.vmap of an initial-style primitive: a missing batching rule (NotImplementedError raised by jax) is a library refusal, not a violation",
    ],
}


def _prim():
    from genjax._src.core.compiler.initial_style_primitive import InitialStylePrimitive

    global _PRIM
    try:
        return _PRIM
    except NameError:
        _PRIM = InitialStylePrimitive("vf_c36_probe")
        return _PRIM


def _handler_cls():
    from genjax._src.core.compiler.interpreters.stateful import StatefulHandler

    class NoHandler(StatefulHandler):
        def __init__(self):
            self.asked = 0
            self.dispatched = 0

        def handles(self, primitive):
            self.asked += 1
            return False

        def dispatch(self, primitive, *args, **kwargs):
            self.dispatched += 1
            raise AssertionError("dispatch() called although handles() returned False")

    return NoHandler


def check_function(ctx, spec, rng, ci):
    import jax
    import jax.numpy as jnp
    import jax.tree_util as jtu
    from genjax._src.core.compiler.initial_style_primitive import initial_style_bind
    from genjax._src.core.compiler.interpreters.stateful import stateful

    import time

    _t = [time.time()]

    def lap(name):
        now = time.time()
        ctx.count("ms:" + name, int(1000 * (now - _t[0])))
        _t[0] = now

    ref = O.Reference(spec)
    with_eager_ref = ctx.tier == "thorough" or ci % 3 == 0
    ok_ref = ref.compute(eager_sets=(0,) if with_eager_ref else ())
    lap("reference")
    if not ok_ref:
        ctx.count("oracle_selfcheck_skipped")
        ctx.note(f"case {ci}: skipped, {ref.why}")
        return
    ctx.count("c36_functions")
    if with_eager_ref:
        ctx.count("c36_functions_with_eager_reference")
    for ft in spec.features:
        ctx.count("feat:" + ft)
    ctx.count(f"inputs:{len(spec.leaves)}")
    f0 = ref.f
    nout = len(ref.items)
    classes = ref.classes
    fclass = O.feature_class(spec)
    out_struct = ref.struct(ref.eager_tree[0])
    shape_ref = jtu.tree_leaves(jax.eval_shape(f0, *ref.args[0]))
    L = len(spec.leaves)
    nontrivial = bool(fclass) or ({"literal-operand", "const-jnp"} <= spec.features) or ({"literal-operand", "const-np"} <= spec.features)
    H = _handler_cls()
    prim = _prim()
    w = initial_style_bind(prim)(f0)

    def wit(si):
        return dict(program=ref.src, inputs={k: np.asarray(v).tolist() for k, v in spec.input_sets[si].items()}, case=ci)

    def guarded(thunk, mode, si, op):
        try:
            return True, thunk()
        except Exception as e:  # noqa
            if jax.config.jax_enable_checks:
                jax.config.update("jax_enable_checks", False)
                try:
                    r = thunk()
                    ctx.count("enable_checks_only_exceptions")
                    ctx.note(f"jax_enable_checks-only exception in {mode}: {type(e).__name__}: {str(e)[:200]}")
                    return True, r
                except Exception:
                    pass
                finally:
                    jax.config.update("jax_enable_checks", True)
            ctx.violation(
                f"C36|op={op}|on=interpreter|field=raises|cond={mode},{common.exc_mechanism(e)}",
                detail=f"{type(e).__name__}: {str(e)[:400]}", **wit(si),
            )
            return False, None

    def judge(out, expected, mode, si, op, batched=False):
        """Compare one result tree with ordinary evaluation (list of leaves)."""
        ctx.count("mode:" + mode)
        ctx.evaluation(fingerprint=(fclass, L, mode), nontrivial=nontrivial)
        try:
            st = ref.struct(out)
            flat = jtu.tree_leaves(out)
        except Exception as e:
            ctx.violation(f"C36|op={op}|on=output-tree|field=structure|cond={mode},not-a-pytree", detail=str(e)[:300], **wit(si))
            return
        if st != out_struct or len(flat) != nout:
            ctx.violation(f"C36|op={op}|on=output-tree|field=structure|cond={mode}", detail=f"output tree {st} differs from ordinary evaluation {out_struct}", **wit(si))
            return
        for j, (g, e) in enumerate(zip(flat, expected)):
            ctx.count("c36_leaves_compared")
            cls = classes[j]
            try:
                ga = np.asarray(g)
                bad = ga.dtype == object
            except Exception:
                bad = True
            if bad:
                ctx.violation(f"C36|op={op}|on={cls}|field=value|cond={mode},not-an-array", detail=f"output leaf {j} is {type(g).__name__}", **wit(si))
                continue
            if not O.same_value(e, ga, terms=ref.terms):
                ctx.violation(
                    f"C36|op={op}|on={cls}|field=value|cond={mode}",
                    detail=f"output leaf {j} ({cls}): got {common.short(ga.tolist())}, ordinary evaluation {common.short(np.asarray(e).tolist())}", **wit(si),
                )
            elif not ref.is_lit[j]:
                # dtype: only for leaves that are jax arrays (a closed-over numpy constant that never
                # meets a jax operation is handed back as the numpy object it was, as f itself does)
                if isinstance(g, jax.Array):
                    ctx.count("c36_dtype_checks")
                    if g.dtype != shape_ref[j].dtype:
                        ctx.violation(f"C36|op={op}|on={cls}|field=dtype|cond={mode}", detail=f"output leaf {j}: {g.dtype} vs ordinary evaluation {shape_ref[j].dtype}", **wit(si))
                else:
                    ctx.count("c36_dtype_checks_skipped_non_jax_leaf")

    def judge_avals(out, mode, op):
        ctx.count("mode:" + mode)
        ctx.evaluation(fingerprint=(fclass, L, mode), nontrivial=nontrivial)
        flat = jtu.tree_leaves(out)
        if ref.struct(out) != out_struct or len(flat) != nout:
            ctx.violation(f"C36|op={op}|on=output-tree|field=structure|cond={mode}", detail=f"abstract output tree {ref.struct(out)} differs from jax.eval_shape(f) {out_struct}", **wit(0))
            return
        for j, (g, e) in enumerate(zip(flat, shape_ref)):
            ctx.count("c36_avals_compared")
            if not (hasattr(g, "shape") and tuple(g.shape) == tuple(e.shape) and g.dtype == e.dtype):
                ctx.violation(f"C36|op={op}|on={classes[j]}|field=aval|cond={mode}", detail=f"output leaf {j}: {g} vs jax.eval_shape(f) {e}", **wit(0))

    def handler_report(h, mode):
        ctx.count("handler_queries", h.asked)
        if h.dispatched:
            ctx.violation(f"C36|op=stateful|on=handler|field=dispatch-called|cond={mode}", detail="dispatch() was called on a handler whose handles() is always False", **wit(0))

    # ---- stateful, eager
    # (op-by-op evaluation compiles every control-flow primitive: 2 of 3 functions in quick)
    if ctx.tier == "thorough" or ci % 3 != 2:
        h = H()
        ok, out = guarded(lambda: stateful(f0)(h, *ref.args[0]), "stateful-eager", 0, "stateful")
        if ok:
            judge(out, ref.eager[0], "stateful-eager", 0, "stateful")
        handler_report(h, "stateful-eager")
        lap("stateful-eager")
    # ---- stateful, abstract
    h = H()
    ok, out = guarded(lambda: jax.eval_shape(lambda *a: stateful(f0)(h, *a), *ref.args[0]), "stateful-trace", 0, "stateful")
    if ok:
        judge_avals(out, "stateful-trace", "stateful")
    handler_report(h, "stateful-trace")
    # ---- stateful, jit, both input sets
    h = H()
    sj = jax.jit(lambda *a: stateful(f0)(h, *a))
    for si in range(len(spec.input_sets)):
        ok, out = guarded(lambda: sj(*ref.args[si]), "stateful-jit", si, "stateful")
        if not ok:
            break
        judge(out, ref.jit[si], "stateful-jit", si, "stateful")
    handler_report(h, "stateful-jit")
    lap("stateful-jit")
    # ---- initial_style_bind outside any handler
    # (op-by-op evaluation compiles every control-flow primitive: every third function in quick)
    if ctx.tier == "thorough" or ci % 3 == 1:
        ok, out = guarded(lambda: w(*ref.args[0]), "isb-eager", 0, "initial_style_bind")
        if ok:
            judge(out, ref.eager[0], "isb-eager", 0, "initial_style_bind")
        lap("isb-eager")
    ok, out = guarded(lambda: jax.eval_shape(w, *ref.args[0]), "isb-trace", 0, "initial_style_bind")
    if ok:
        judge_avals(out, "isb-trace", "initial_style_bind")
    ok, jpr = guarded(lambda: jax.make_jaxpr(w)(*ref.args[0]), "isb-jaxpr", 0, "initial_style_bind")
    if ok:
        ctx.count("mode:isb-jaxpr")
        eqns = jpr.jaxpr.eqns
        if not (len(eqns) == 1 and eqns[0].primitive is prim):
            ctx.violation("C36|op=initial_style_bind|on=jaxpr|field=equations|cond=not-a-single-bind", detail=f"make_jaxpr(w) has equations {[str(e.primitive) for e in eqns][:8]}", **wit(0))
        else:
            avs = [v.aval for v in eqns[0].outvars]
            if len(avs) != nout or any(tuple(a.shape) != tuple(e.shape) or a.dtype != e.dtype for a, e in zip(avs, shape_ref)):
                ctx.violation("C36|op=initial_style_bind|on=jaxpr|field=aval|cond=abstract-eval", detail=f"out avals {avs} vs jax.eval_shape(f) {shape_ref}", **wit(0))
            ctx.count("c36_avals_compared", len(avs))
    wj = jax.jit(w)
    for si in range(len(spec.input_sets)):
        ok, out = guarded(lambda: wj(*ref.args[si]), "isb-jit", si, "initial_style_bind")
        if not ok:
            break
        judge(out, ref.jit[si], "isb-jit", si, "initial_style_bind")
    lap("isb-jit")
    # ---- the interpreter meets the initial-style primitive
    if ctx.tier == "thorough" or ci % 4 == 0:
        h = H()
        ok, out = guarded(lambda: stateful(w)(h, *ref.args[0]), "stateful-of-isb-eager", 0, "stateful+initial_style_bind")
        if ok:
            judge(out, ref.eager[0], "stateful-of-isb-eager", 0, "stateful+initial_style_bind")
        handler_report(h, "stateful-of-isb-eager")
        lap("stateful-of-isb-eager")
    elif ci % 4 == 2:
        h = H()
        swj = jax.jit(lambda *a: stateful(w)(h, *a))
        ok, out = guarded(lambda: swj(*ref.args[1 % len(ref.args)]), "stateful-of-isb-jit", 1 % len(ref.args), "stateful+initial_style_bind")
        if ok:
            judge(out, ref.jit[1 % len(ref.args)], "stateful-of-isb-jit", 1 % len(ref.args), "stateful+initial_style_bind")
        handler_report(h, "stateful-of-isb-jit")
        lap("stateful-of-isb-jit")
    # ---- an initial-style primitive INSIDE the interpreted function whose wrapped function
    # closes over a value computed earlier in that function (the closed-over tracer becomes an
    # operand of the bind): interpreter result == the same composition without the primitive
    def _float_leaves(a):
        return [x for x in jtu.tree_leaves(a) if hasattr(x, "dtype") and jnp.issubdtype(jnp.asarray(x).dtype, jnp.floating)]

    if _float_leaves(ref.args[0]) and ci % 2 == 0:
        def _scale(o, c):
            return o * c.astype(o.dtype) if hasattr(o, "dtype") and jnp.issubdtype(jnp.asarray(o).dtype, jnp.floating) else o

        def g_plain(*a):
            c = jnp.cos(sum(jnp.sum(x) for x in _float_leaves(a))) + 1.5
            return jtu.tree_map(lambda o: _scale(o, c), f0(*a))

        def g_isb(*a):
            c = jnp.cos(sum(jnp.sum(x) for x in _float_leaves(a))) + 1.5
            inner = initial_style_bind(prim)(lambda *b: jtu.tree_map(lambda o: _scale(o, c), f0(*b)))
            return inner(*a)

        si = 1 % len(ref.args)
        try:
            exp = [np.asarray(x) for x in jtu.tree_leaves(jax.jit(g_plain)(*ref.args[si]))]
        except Exception:
            exp = None
            ctx.count("closure_isb_reference_failed")
        if exp is not None:
            h = H()
            modes = [("stateful-of-closure-isb-jit", lambda: jax.jit(lambda *a: stateful(g_isb)(h, *a))(*ref.args[si]))]
            if ctx.tier == "thorough" or ci % 6 == 0:
                modes.append(("stateful-of-closure-isb-eager", lambda: stateful(g_isb)(h, *ref.args[si])))
            for mode, thunk in modes:
                ok, out = guarded(thunk, mode, si, "stateful+initial_style_bind")
                if not ok:
                    continue
                ctx.count("mode:" + mode)
                ctx.evaluation(fingerprint=(fclass, L, mode), nontrivial=nontrivial)
                flat = jtu.tree_leaves(out)
                if len(flat) != len(exp):
                    ctx.violation(f"C36|op=stateful+initial_style_bind|on=output-tree|field=structure|cond={mode}", detail=f"{len(flat)} leaves vs {len(exp)}", **wit(si))
                    continue
                for j, (g, e) in enumerate(zip(flat, exp)):
                    ctx.count("c36_leaves_compared")
                    if not O.same_value(e, np.asarray(g), terms=ref.terms + 2):
                        ctx.violation(f"C36|op=stateful+initial_style_bind|on={classes[j] if j < len(classes) else 'leaf'}|field=value|cond={mode}",
                                      detail=f"output leaf {j}: got {common.short(np.asarray(g).tolist())}, the same composition without the primitive {common.short(e.tolist())}", **wit(si))
            handler_report(h, "stateful-of-closure-isb")
        lap("stateful-of-closure-isb")
    # ---- vmap (needs array arguments of equal structure)
    if L > 0 and not spec.py_scalar_args and (ci % 8 == 1):
        stacked = jtu.tree_map(lambda *xs: jnp.stack(xs), *ref.args)
        try:
            vref = jtu.tree_leaves(jax.vmap(f0)(*stacked))
        except Exception:
            vref = None
        if vref is not None:
            h = H()
            ok, out = guarded(lambda: jax.vmap(lambda *a: stateful(f0)(h, *a))(*stacked), "stateful-vmap", 0, "stateful")
            if ok:
                judge(out, vref, "stateful-vmap", 0, "stateful")
            handler_report(h, "stateful-vmap")
            try:
                out = jax.vmap(w)(*stacked)
                judge(out, vref, "isb-vmap", 0, "initial_style_bind")
            except NotImplementedError as e:
                if "atching rule" in str(e):
                    ctx.reject("initial_style_bind:jax.vmap:NotImplementedError(no batching rule for the primitive)")
                else:
                    ctx.violation(f"C36|op=initial_style_bind|on=vmap|field=raises|cond={common.exc_mechanism(e)}", detail=str(e)[:300], **wit(0))
            except Exception as e:
                ctx.violation(f"C36|op=initial_style_bind|on=vmap|field=raises|cond={common.exc_mechanism(e)}", detail=f"{type(e).__name__}: {str(e)[:300]}", **wit(0))
        lap("vmap")
    ctx.sample({"program": ref.src, "inputs": wit(0)["inputs"], "describe": G.describe(spec)}, limit=2)


def check_corpus(ctx, name, f, args):
    """Fixed hand-written functions (PRNG keys, transforms inside, None/empty/bare outputs, dtype
    zoo) through the interpreter and through an initial-style primitive, eagerly and under jit."""
    import jax
    import jax.tree_util as jtu
    from genjax._src.core.compiler.initial_style_primitive import initial_style_bind
    from genjax._src.core.compiler.interpreters.stateful import stateful

    H = _handler_cls()
    ref_out = f(*args)
    ref_leaves = jtu.tree_leaves(ref_out)
    jit_leaves = jtu.tree_leaves(jax.jit(f)(*args))
    struct = O.struct_of(ref_out)
    on = "corpus-" + name
    witness = dict(program=f"vf.gen.jaxfns.corpus() entry {name!r}")
    ctx.count("c36_corpus_functions")
    w = initial_style_bind(_prim())(f)
    h = H()
    runs = [
        ("stateful-eager", "stateful", lambda: stateful(f)(h, *args), ref_leaves),
        ("stateful-jit", "stateful", lambda: jax.jit(lambda *a: stateful(f)(h, *a))(*args), jit_leaves),
        ("isb-eager", "initial_style_bind", lambda: w(*args), ref_leaves),
        ("isb-jit", "initial_style_bind", lambda: jax.jit(w)(*args), jit_leaves),
        ("stateful-of-isb-eager", "stateful+initial_style_bind", lambda: stateful(w)(h, *args), ref_leaves),
    ]
    for mode, op, thunk, expected in runs:
        try:
            out = thunk()
        except Exception as e:
            ctx.violation(f"C36|op={op}|on={on}|field=raises|cond={mode},{common.exc_mechanism(e)}", detail=f"{type(e).__name__}: {str(e)[:300]}", **witness)
            continue
        ctx.count("mode:corpus-" + mode)
        ctx.evaluation(fingerprint=(on, mode), nontrivial=True)
        flat = jtu.tree_leaves(out)
        if O.struct_of(out) != struct or len(flat) != len(expected):
            ctx.violation(f"C36|op={op}|on={on}|field=structure|cond={mode}", detail=f"output tree {O.struct_of(out)} vs ordinary evaluation {struct}", **witness)
            continue
        for j, (g, e) in enumerate(zip(flat, expected)):
            ctx.count("c36_leaves_compared")
            if not O.same_value_any(e, g):
                ctx.violation(f"C36|op={op}|on={on}|field=value|cond={mode}", detail=f"output leaf {j}: {common.short(g)} vs ordinary evaluation {common.short(e)}", **witness)
            elif isinstance(g, jax.Array) and isinstance(e, jax.Array) and g.dtype != e.dtype:
                ctx.violation(f"C36|op={op}|on={on}|field=dtype|cond={mode}", detail=f"output leaf {j}: {g.dtype} vs {e.dtype}", **witness)
    ctx.count("handler_queries", h.asked)
    if h.dispatched:
        ctx.violation(f"C36|op=stateful|on=handler|field=dispatch-called|cond=corpus", detail="dispatch() was called", **witness)


def run(ctx):
    common.import_repo()
    import jax

    if ctx.shard % 4 == 1:
        jax.config.update("jax_enable_checks", True)
        ctx.count("shards_with_jax_enable_checks")
    for k, (name, f, args) in enumerate(G.corpus()):
        if k % ctx.nshards == ctx.shard:
            check_corpus(ctx, name, f, args)
    n = ctx.pick(150, 2500)
    budget = ctx.pick(70.0, 780.0)
    for ci in ctx.my_share(n):
        if ctx.elapsed() > budget:
            ctx.count("cases_skipped_time_budget")
            continue
        rng = ctx.child_rng(ci)
        depth = 2 if ctx.quick() else int(rng.choice([2, 2, 3]))
        spec = G.generate(rng, G.Cfg(depth=depth))
        spec.wrapper = "plain"
        check_function(ctx, spec, rng, ci)
