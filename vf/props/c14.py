"""C14 — mask: a true flag is transparent and a false flag is inert.

Reference: flag ? inner : (score 0, importance weight 0, no valid choices, invalid return).
Flag-flipping updates must weigh new score - old score (all four transitions)."""

from vf.prog import gen
from vf.props import _drive

A = "genjax._src.generative_functions"
CONFIG = {
    "level": "exploration",
    "shards": {"quick": 16, "thorough": 16},
    "timeout_s": {"quick": 900, "thorough": 5400},
    "rule": 'case = program with a Mask root (composed inner programs; flags as Python bool / 0-d array; per-element flags under vmap) + importance / update ops with flag transitions T->T, T->F, F->T, F->F with and without constraints and argument changes. non-trivial: inner program has >=2 choices and the history contains a flag transition; distinct by (AST shape, transition sequence).',
    "reach_anchors": ['genjax._src.generative_functions.combinators.mask:MaskTrace.build', 'genjax._src.generative_functions.combinators.mask:MaskCombinator.edit', 'genjax._src.generative_functions.combinators.mask:MaskCombinator.generate', 'genjax._src.generative_functions.combinators.mask:MaskCombinator.assess'],
    "reach_required": ['genjax._src.generative_functions.combinators.mask:MaskTrace.build', 'genjax._src.generative_functions.combinators.mask:MaskCombinator.edit', 'genjax._src.generative_functions.combinators.mask:MaskCombinator.generate', 'genjax._src.generative_functions.combinators.mask:MaskCombinator.assess'],
    "counters_required": ['ops:update', 'mask_transitions'],
    "assumptions": [
        "reference interpreter vf/prog/ast.py transcribes the documented combinator semantics; scipy float64 densities",
        "float32 tolerance 2e-4 (relative+absolute) scaled by sqrt(#terms)",
        "programs from the bounded grammar (depth<=2 quick, <=3 thorough; sizes<=3/5); values read through public choice-map lookups",
    ],
}

KINDS = ["Dist", "Static", "Mask", "Vmap", "Scan", "Dimap"]


def cfg_fn(rng, ctx):
    depth = 2 if ctx.quick() else int(rng.choice([2, 2, 3]))
    root = "Mask" if rng.random() < 0.7 else "Vmap"
    c = gen.Cfg(depth=depth, kinds=KINDS, root=root)
    if root == "Vmap":
        c.weights = {"Mask": 6.0}
    elif rng.random() < 0.35:
        # a mask around vectorised masks (vmap / repeat of a masked call): inner flags are arrays
        # (needs three levels below the root: mask -> vmap -> mask -> distribution)
        c = gen.Cfg(depth=3, kinds=["Dist", "Vmap", "Repeat", "Mask", "Static"], root=root, max_stmts=2)
        c.weights = {"Vmap": 4.0, "Repeat": 1.0, "Mask": 4.0, "Static": 1.0, "Dist": 1.0}
    return c


def h_update(ctx, plan, case, rec, rng, nk, hist, route, guarded):
    from vf import engine
    import numpy as np
    new_args = gen.perturb_args(rng, case.node, rec.args, p=0.7)
    vals = engine.gen_constraint(rng, case, None, new_args, only_live=False, frac=float(rng.choice([0.0, 0.5, 1.0])))
    hist.append(f"update constraint={_drive._short(vals)} new_args={_drive._short(new_args)}")
    out = guarded("update", lambda: engine.op_update(case, rec, nk(), vals, new_args, None))
    if out is None:
        return None
    new, w, rd, bwd, issues = out
    if new is not None:
        old_live, new_live = rec.live(), new.live()
        exp = new.env.score() - rec.env.score()
        # C14: an update that flips the flag has weight = new score - old score, new choices or not
        trans = ("T" if old_live else "F") + ("T" if new_live else "F")
        ctx.count("mask_transitions")
        ctx.count("transition:" + trans)
        if np.isfinite(exp) and not engine.close(w, exp, terms=max(1, len(old_live) + len(new_live))) and not (new.volatile & new_live):
            issues.append(engine.Issue("mask.weight", f"flag-transition update weight {w} vs new score - old score {exp}", "live:" + trans))
    route("update", issues)
    return new


def nontrivial(case, hist):
    n = sum(1 for s in case.node.sites() for _ in s.paths())
    return n >= 2 and any(h.startswith("update") for h in hist)


PLAN = _drive.Plan(
    "C14", cfg_fn,
    clauses={"model.*", "imp.*", "upd.value", "upd.unchanged", "mask.*", "assess.*", "raises"},
    ops={"update": 1},
    extra_ops={"update": h_update},
    n_cases=(400, 3000), n_ops=(3, 6), nontrivial=nontrivial,
    always=("assess_self",),
    exc_is_violation=True,
)



def run(ctx):
    _drive.run(ctx, PLAN)
