"""C22 — the static language traces exactly the visited addresses, once each.

Three monitors on generated static programs (nested static calls, string and tuple addresses):
1. address ledger vs trace: the addresses the AST says are visited == the addresses with a
   value in `tr.get_choices()`, tuple addresses nested hierarchically (looked up component by
   component), after simulate / importance / update / regenerate / StaticRequest;
2. AddressReuse: a program that traces one address twice (same string, same tuple, in a nested
   callee, across statement positions) must raise AddressReuse in every GFI entry point that
   traces (simulate, importance, assess);
3. MissingAddress: `assess` raises MissingAddress exactly when a visited address has no value:
   every single-address deletion and random subsets of the full choice map must raise; the full
   map (plus extra unvisited addresses) must not.
"""

from __future__ import annotations

import copy

import numpy as np

from vf import common, engine
from vf.engine import Discard, Issue, Rejected
from vf.prog import ast, gen, obs
from vf.props import _drive

G = "genjax._src.generative_functions"
CONFIG = {
    "level": "exploration",
    "shards": {"quick": 16, "thorough": 16},
    "timeout_s": {"quick": 900, "thorough": 5400},
    "rule": "case = static program (distributions + nested static calls, string and tuple addresses of depth <=3) under one of three monitors: ledger (visited == present after each GFI op), duplicate-address mutants (must raise AddressReuse in simulate/importance/assess), partial choice maps (assess must raise MissingAddress iff a visited address is missing). non-trivial: program has a nested call or a tuple address; distinct by (AST shape, monitor, mutation kind).",
    "reach_anchors": [f"{G}.static:StaticHandler.record", f"{G}.static:AssessHandler.handle_trace", f"{G}.static:SimulateHandler.handle_trace", f"{G}.static:GenerateHandler.handle_trace", f"{G}.static:UpdateHandler.handle_trace"],
    "reach_required": [f"{G}.static:StaticHandler.record", f"{G}.static:AssessHandler.handle_trace", f"{G}.static:GenerateHandler.handle_trace", f"{G}.static:UpdateHandler.handle_trace"],
    "counters_required": ["ledger_checks", "reuse_checks", "missing_checks"],
    "assumptions": ["the AST knows the visited addresses independently of the library"],
}

KINDS = ["Dist", "Static"]


def cfg_fn(rng, ctx):
    depth = int(rng.choice([1, 2, 2, 3])) if not ctx.quick() else int(rng.choice([1, 2, 2]))
    return gen.Cfg(depth=depth, kinds=KINDS, root="Static", tuple_addr=0.45, literal_ret=0.15, vector_dists=False)


def nontrivial(case, hist):
    st = case.node
    return any(isinstance(s.addr, tuple) or s.callee.kind == "Static" for s in st.stmts)


# monitor 1 goes through the shared driver (model.addrs / model.structure after every op)
PLAN = _drive.Plan(
    "C22", cfg_fn,
    clauses={"model.addrs", "model.structure", "assess.raises"},
    ops={"update": 2, "regenerate": 1, "static_request": 1},
    n_cases=(160, 1500), n_ops=(2, 4), nontrivial=nontrivial,
    always=("assess_self",),
    exc_is_violation=False,
)
PLAN.budget_s = (40, 240)


def _exc_name(e):
    return type(e).__name__


def reuse_monitor(ctx, n_cases, budget):
    """Programs with a duplicated address must raise AddressReuse."""
    t0 = ctx.elapsed()
    for ci in ctx.my_share(n_cases):
        if ctx.elapsed() - t0 > budget:
            break
        rng = ctx.child_rng(7, ci)
        cfg = cfg_fn(rng, ctx)
        node = gen.gen_program(rng, cfg)
        # choose a static function (root or nested) with >= 2 statements and duplicate an address
        cands = [n for n in node.walk() if isinstance(n, ast.Static) and len(n.stmts) >= 2]
        if not cands:
            continue
        tgt = cands[int(rng.integers(len(cands)))]
        i, j = sorted(rng.choice(len(tgt.stmts), size=2, replace=False))
        kind = "tuple" if isinstance(tgt.stmts[i].addr, tuple) else "str"
        tgt.stmts[j].addr = tgt.stmts[i].addr
        where = "root" if tgt is node else "nested"
        args = gen.gen_args(rng, node)
        try:
            case = engine.Case(node, f"C22/reuse/s{ctx.seed}/sh{ctx.shard}/{ci}")
        except Exception as e:
            ctx.reject("build:" + common.exc_mechanism(e))
            continue
        ra = engine.real_args(args)
        # a value at every site; the duplicated sites share one address (and one value); a site
        # whose address would sit above/below another entry cannot be written into one map
        vals = {}
        for st in node.sites():
            for pth, _ in st.paths():
                if pth in vals or any(q[: len(pth)] == pth or pth[: len(q)] == q for q in vals):
                    continue
                vals[pth] = engine.sample_site_value(rng, st.dist)
        full_chm = obs.build_constraint(vals)
        for op in ("simulate", "importance", "assess"):
            try:
                if op == "simulate":
                    case.gf.simulate(engine.key(ci), ra)
                elif op == "importance":
                    from genjax import ChoiceMap

                    case.gf.importance(engine.key(ci), ChoiceMap.empty(), ra)
                else:
                    case.gf.assess(full_chm, ra)
                raised = None
            except Exception as e:  # noqa
                raised = e
            ctx.count("reuse_checks")
            ctx.count("reuse:" + op)
            ctx.evaluation(fingerprint=("reuse", node.shape_sig(), op, kind, where), nontrivial=True)
            if raised is None or _exc_name(raised) != "AddressReuse":
                got = "nothing" if raised is None else f"{_exc_name(raised)}: {str(raised)[:80]}"
                ctx.violation(
                    f"C22|op={op}|on=Static|field=address-reuse|cond={kind},{where},{'no-exception' if raised is None else _exc_name(raised)}",
                    detail=f"address {tgt.stmts[i].addr!r} traced twice; {op} raised {got}, expected AddressReuse",
                    program=case.src, case=case.cid,
                )
        ctx.sample({"monitor": "reuse", "program": case.src, "duplicated": repr(tgt.stmts[i].addr)}, limit=1)


def _forward_values(rng, case, args):
    def fill(path, dist, params):
        return dist.sample_constraint(rng, params)

    env = ast.RefEnv({}, fill=fill)
    try:
        case.node.ref(env, (), engine.build.strip_py(args))
    except RuntimeError:
        pass  # duplicated address: the reference interpreter refuses too; values so far suffice
    return dict(env.values), env


def missing_monitor(ctx, n_cases, budget):
    """assess raises MissingAddress iff a visited address has no value."""
    from genjax import ChoiceMap

    t0 = ctx.elapsed()
    for ci in ctx.my_share(n_cases):
        if ctx.elapsed() - t0 > budget:
            break
        rng = ctx.child_rng(8, ci)
        cfg = cfg_fn(rng, ctx)
        node = gen.gen_program(rng, cfg)
        args = gen.gen_args(rng, node)
        try:
            case = engine.Case(node, f"C22/missing/s{ctx.seed}/sh{ctx.shard}/{ci}")
        except Exception as e:
            ctx.reject("build:" + common.exc_mechanism(e))
            continue
        ra = engine.real_args(args)
        try:
            vals, env = _forward_values(rng, case, args)
        except ast.Fragile:
            ctx.count("discarded:fragile")
            continue
        paths = sorted(vals, key=repr)
        if not paths:
            continue
        trials = [("full", set())]
        for p in paths[: ctx.pick(4, 8)]:
            trials.append(("drop-one", {p}))
        if len(paths) >= 3:
            k = int(rng.integers(2, len(paths)))
            trials.append(("drop-some", set(map(tuple, rng.choice(np.array(paths, dtype=object), size=k, replace=False)))))
        trials.append(("extra", None))
        for kind, drop in trials:
            if kind == "extra":
                sub = dict(vals)
                sub[("zz_unvisited",)] = np.float64(0.25)
                expect_raise = False
            else:
                sub = {p: v for p, v in vals.items() if p not in drop}
                expect_raise = bool(drop)
            chm = obs.build_constraint(sub) if sub else ChoiceMap.empty()
            try:
                case.gf.assess(chm, ra)
                raised = None
            except Exception as e:  # noqa
                raised = e
            ctx.count("missing_checks")
            ctx.count("missing:" + kind)
            ctx.evaluation(fingerprint=("missing", node.shape_sig(), kind), nontrivial=nontrivial(case, []))
            name = None if raised is None else _exc_name(raised)
            ok = (name == "MissingAddress") if expect_raise else (raised is None)
            if not ok:
                depthk = "nested" if any(len(p) > 1 for p in (drop or [])) else "top"
                ctx.violation(
                    f"C22|op=assess|on=Static|field=missing-address|cond={kind},{depthk},{'no-exception' if raised is None else name}",
                    detail=f"assess with {kind} (dropped {sorted(drop or [], key=repr)[:3]}): raised {name}: {str(raised)[:100] if raised else ''}; expected {'MissingAddress' if expect_raise else 'no exception'}",
                    program=case.src, case=case.cid,
                )
        ctx.sample({"monitor": "missing", "program": case.src, "addresses": [repr(p) for p in paths[:8]]}, limit=1)


def run(ctx):
    _drive.run(ctx, PLAN)
    for k in list(ctx.counters):
        pass
    ctx.count("ledger_checks", ctx.counters.get("assess_self_checks", 0))
    reuse_monitor(ctx, ctx.pick(64, 600), ctx.pick(20, 120))
    missing_monitor(ctx, ctx.pick(64, 600), ctx.pick(25, 120))
