"""C35 — masked constraint values act as conditional constraints.

Differential + model: for importance and update, a constraint whose values are wrapped in
Mask(v, flag) must behave exactly like the *effective* constraint (entries with a true flag,
bare) under the same key — same trace, same weight — and the effective run itself is judged by
the reference interpreter.  Flags: Python bool (concrete), 0-d array, and one vector-flag Mask
per array-valued entry under the vector combinators (elementwise).
"""

import numpy as np

from vf import common, engine
from vf.engine import Issue
from vf.prog import gen, obs
from vf.prog.build import PyVal
from vf.props import _drive

G = "genjax._src.generative_functions"
CONFIG = {
    "level": "exploration",
    "shards": {"quick": 16, "thorough": 16},
    "timeout_s": {"quick": 900, "thorough": 5400},
    "rule": "case = generated program + importance/update whose constraint values are Mask-wrapped with flag patterns (concrete python bools, 0-d arrays, vector flags on array-valued entries under vmap/scan), each compared under the same key with the effective bare constraint and with the reference model. non-trivial: >=1 true and >=1 false flag on combinator-nested addresses; distinct by (AST shape, flag representation, op sequence).",
    "reach_anchors": [f"{G}.distributions.distribution:Distribution.generate_choice_map", f"{G}.distributions.distribution:Distribution.edit_update_with_constraint", "genjax._src.core.generative.choice_map:Choice.build", "genjax._src.core.generative.choice_map:Indexed.get_inner_map"],
    "reach_required": [f"{G}.distributions.distribution:Distribution.generate_choice_map", f"{G}.distributions.distribution:Distribution.edit_update_with_constraint", "genjax._src.core.generative.choice_map:Choice.build"],
    "counters_required": ["masked_pairs"],
    "assumptions": ["reference interpreter as in C03/C05", "same-key differential: the library may not consume randomness differently for Mask(v,True) and v"],
}


def cfg_fn(rng, ctx):
    depth = int(rng.choice([1, 2, 2])) if ctx.quick() else int(rng.choice([1, 2, 2, 3]))
    root = ["Vmap", "Scan", "Repeat", "Static"] if rng.random() < 0.5 else None
    return gen.Cfg(depth=depth, root=root, kinds=[k for k in gen.ALL_KINDS if k not in ("Switch", "OrElse", "Mix")] if rng.random() < 0.7 else None)


def _flags(rng, vals, rep):
    masks = {}
    for p in vals:
        f = bool(rng.random() < 0.55)
        if rep == "py":
            masks[p] = PyVal(f)
        else:
            masks[p] = np.bool_(f)
    return masks


def h_masked(ctx, plan, case, rec, rng, nk, hist, route, guarded):
    do_update = rng.random() < 0.5
    rep = str(rng.choice(["py", "arr", "vec"]))
    form = "full" if rep == "vec" else str(rng.choice(["scalar", "scalar", "array"]))
    if rep != "vec" and form == "array":
        form = "scalar"  # Mask-wrapped entries are written one by one
    src = rec if do_update else None
    frac = 1.0 if rep == "vec" else float(rng.choice([0.4, 0.7, 1.0]))
    vals = engine.gen_constraint(rng, case, src, rec.args, only_live=do_update, frac=frac)
    if not vals:
        return None
    masks = _flags(rng, vals, "arr" if rep == "vec" else rep)
    eff = engine.effective_constraint(vals, masks)
    k = nk()
    opn = "update" if do_update else "importance"
    hist.append(f"masked-{opn} rep={rep} form={form} vals={_drive._short(vals, 120)} flags={''.join('T' if p in eff else 'F' for p in vals)}")
    if do_update:
        a = guarded(opn, lambda: engine.op_update(case, rec, k, vals, None, "nochange", form=form, masks=masks))
        b = guarded(opn, lambda: engine.op_update(case, rec, k, eff, None, "nochange", form="scalar"))
        if a is None or b is None:
            return None
        ra, wa, _, _, ia = a
        rb, wb, _, _, ib = b
    else:
        a = guarded(opn, lambda: engine.op_importance(case, k, vals, rec.args, form=form, masks=masks))
        b = guarded(opn, lambda: engine.op_importance(case, k, eff, rec.args, form="scalar"))
        if a is None or b is None:
            return None
        ra, wa, ia = a
        rb, wb, ib = b
    issues = [Issue("mask." + i.clause, i.detail, rep) for i in ia]
    if ra is not None and rb is not None:
        d = engine.same_trace(ra, rb)
        cond = f"{opn},{rep}"
        if do_update and len(eff) < len(vals) and set(ra.assign) == set(rb.assign):
            # which choices differ?  If a masked-off entry is present and every difference lies in
            # a branch of a switch-like node, the mechanism is the switch's re-run of its branch
            # on an UnknownChange index tag (the masked-off update tags its value conservatively)
            branchy = {p for s in case.node.sites() if s.switchy for p, _ in s.paths()}
            diff = {p for p in ra.assign if not engine._same_value(ra.assign[p], rb.assign[p])}
            if diff and diff <= branchy:
                cond = "update,masked-off-entry-reruns-switch-branch"
        if d:
            issues.append(Issue("maskc.differs", f"Mask-wrapped constraint gives a different trace than its effective bare constraint under the same key: {d}", cond))
        if np.isfinite(wb) and not common.close(wa, wb, terms=max(1, len(vals))):
            issues.append(Issue("maskc.weight", f"weight {wa} (masked) vs {wb} (effective bare constraint)", cond))
    route("masked-" + opn, issues)
    ctx.count("masked_pairs")
    ctx.count("masked_rep:" + rep)
    nt = sum(1 for p in vals if p in eff)
    if 0 < nt < len(vals):
        ctx.count("masked_mixed_flags")
    return rb if do_update else None


def nontrivial(case, hist):
    return any(("T" in h.split("flags=")[-1] and "F" in h.split("flags=")[-1]) for h in hist if h.startswith("masked")) and any(k not in ("Dist", "Static") for k in case.kinds)


def sig_fn(case, hist, op, issue, sig):
    if issue.cond and issue.cond.endswith("masked-off-entry-reruns-switch-branch"):
        return f"C35|op=masked-update|on=any|field={issue.clause}|cond=masked-off-entry-reruns-switch-branch"
    return None


PLAN = _drive.Plan(
    "C35", cfg_fn,
    clauses={"mask.*", "maskc.*"},
    ops={"masked": 1},
    extra_ops={"masked": h_masked},
    n_cases=(400, 3000), n_ops=(2, 5), nontrivial=nontrivial,
    always=(),
    exc_is_violation=True,
)
PLAN.sig_fn = sig_fn


def run(ctx):
    _drive.run(ctx, PLAN)
