"""C29 — ADEV estimators are correct derivative estimators.

Runtime monitors over random ADEV programs (vf/gen/c29_progs.py; 1-3 sample sites, arithmetic,
jnp.where / lax.cond on samples, sites inside lax.cond, add_cost, baseline) built from every
primitive exported by `genjax.adev`; the oracle is the plain numpy model vf/ref/c29_ref.py.

Every sampled value is *observed* through a `jax.debug.callback` tap at the end of the program
(one record per executed enumeration path), so no assumption is made about key derivation.

Monitors
  primal       jvp_estimate(...).primal == sum over enumeration paths of P(path) * value(path)
               with the observed samples (all programs)                         [deterministic]
  tangent      same, differentiated: enumeration primitives give the exact derivative and
               normal_reparam / mv_normal_diag_reparam / mv_normal_reparam(mu) / uniform give the
               pathwise derivative for the noise actually drawn                 [deterministic]
  site-noise   two different sites never have identical standardised noise in every run
  grad-vs-jvp  grad_estimate(key, args)[i] == tangent of jvp_estimate(key, unit tangent e_i)
  estimate     Expectation.estimate(key, args) == program value for its own observed samples
  mean         mean over N keys of primal / tangents == exact (E[f], dE[f]/dtheta) from
               enumeration + Gauss quadrature (z-test, empirical SE, two-stage)  [statistical]
"""

from __future__ import annotations

import math

import numpy as np

from vf import common
from vf.gen import c29_progs as G
from vf.ref import c29_ref as R

CORE = "genjax._src.adev.core"
PRIM = "genjax._src.adev.primitives"
_ANCH = [
    f"{CORE}:ADInterpreter.eval_jaxpr_adev", f"{CORE}:ADInterpreter.forward_mode",
    f"{CORE}:Expectation.jvp_estimate", f"{CORE}:Expectation.estimate", f"{CORE}:Expectation.grad_estimate",
    f"{CORE}:invoke_closed_over_jvp", f"{CORE}:TailCallADEVPrimitive.jvp_estimate",
    f"{PRIM}:REINFORCE.jvp_estimate", f"{PRIM}:FlipEnum.jvp_estimate", f"{PRIM}:FlipMVD.jvp_estimate",
    f"{PRIM}:FlipEnumParallel.jvp_estimate", f"{PRIM}:CategoricalEnumParallel.jvp_estimate",
    f"{PRIM}:NormalREPARAM.before_tail_call", f"{PRIM}:MvNormalDiagREPARAM.before_tail_call",
    f"{PRIM}:MvNormalREPARAM.before_tail_call", f"{PRIM}:Uniform.before_tail_call",
    f"{PRIM}:BetaIMPLICIT.before_tail_call", f"{PRIM}:Baseline.jvp_estimate", f"{PRIM}:AddCost.jvp_estimate",
]
CONFIG = {
    "level": "exploration",
    "shards": {"quick": 16, "thorough": 16},
    "timeout_s": {"quick": 600, "thorough": 3000},
    "rule": "random ADEV programs per focus arm (each exported primitive, baseline(.), add_cost, sites inside lax.cond, site pairs) with 1-3 sample sites, 1-2 parameters (python floats or one array), random parameter values incl. near-edge ones; every worker first traces each primitive on a single-site program (kinds that raise are not used as non-focus sites); a few programs per worker are also evaluated op-by-op (no jit) and compared with the jitted result. distinct = (arm, structural class, number of sites, parameter form, mode); non-trivial = at least one sample site.",
    "reach_anchors": _ANCH,
    "reach_required": [
        f"{CORE}:ADInterpreter.eval_jaxpr_adev", f"{CORE}:Expectation.jvp_estimate", f"{CORE}:Expectation.grad_estimate",
        f"{CORE}:invoke_closed_over_jvp", f"{PRIM}:REINFORCE.jvp_estimate", f"{PRIM}:FlipEnum.jvp_estimate",
        f"{PRIM}:NormalREPARAM.before_tail_call", f"{PRIM}:Baseline.jvp_estimate", f"{PRIM}:AddCost.jvp_estimate",
    ],
    "counters_required": ["det_primal_checks", "det_tangent_checks", "grad_vs_jvp_checks", "estimate_calls", "stat_cells"],
    "assumptions": [
        "the meaning of a primitive is the distribution it names (flip: Bernoulli(p); categorical: probabilities; geometric_reinforce((l,)): tfd.Geometric(l) i.e. success probability sigmoid(l), support 0,1,..; mv_normal_reparam: covariance matrix)",
        "pathwise coupling checked deterministically only where it is unambiguous: x = mu + sigma*eps (normal, diagonal mv normal), dx/dmu = 1 for mv_normal_reparam with a parameter-independent covariance, uniform has no parameters; beta_implicit and covariance derivatives are checked statistically",
        "numpy Gauss-Hermite/Legendre/Jacobi quadrature + enumeration (two resolutions must agree) and float64 central differences as the exact expectation/derivative",
        "jax.debug.callback delivers the values computed in the program",
    ],
}

N_RUNS = 5  # tapped evaluations (keys) per program


class Tap:
    def __init__(self):
        self.rows = []

    def __call__(self, *vals):
        self.rows.append([np.asarray(v).tolist() for v in vals])


def raising_prim(e):
    """Class of the innermost ADEV primitive whose method is on the traceback."""
    from genjax._src.adev.core import ADEVPrimitive

    name = None
    tb = e.__traceback__
    while tb is not None:
        s = tb.tb_frame.f_locals.get("self")
        if isinstance(s, ADEVPrimitive):
            name = type(s).__name__
        tb = tb.tb_next
    return name


def make_duals(A, prog, theta, i, single_form):
    """Dual arguments with the unit tangent e_i."""
    import jax.numpy as jnp

    n = prog["n_theta"]
    if prog.get("theta_form") == "vector":
        t = np.zeros(n, dtype=np.float32)
        if i is not None:
            t[i] = 1.0
        d = A.Dual(jnp.asarray(theta, dtype=jnp.float32), jnp.asarray(t))
        return d if single_form else (d,)
    ds = tuple(A.Dual(float(theta[k]), 1.0 if k == i else 0.0) for k in range(n))
    if n == 1 and single_form:
        return ds[0]
    return ds


def tol_for(exp, scale, rel=1e-3, ab=5e-4):
    return ab + rel * (abs(exp) + scale)


class Case:
    def __init__(self, ctx, prog, theta, arm, mode, diag=None):
        self.ctx, self.prog, self.theta, self.arm, self.mode = ctx, prog, theta, arm, mode
        self.diag = diag
        self._label = G.arm_name(arm).split(":", 1)[1].replace("+", "-")
        self.kinds = [s["kind"] for s in prog["sites"]]
        self.det_ok = all(k in R.ENUM_KINDS or k in R.REPARAM_DET_KINDS for k in self.kinds) and all(
            s["kind"] != "mv_normal_reparam" or all(x[0] == "c" for x in s["args"][1]) for s in prog["sites"]
        )
        self.struct_det = G.struct_class(prog, stat=False)
        self.struct_stat = G.struct_class(prog, stat=True)

    @property
    def label(self):
        """`on=` of value violations: the focus arm, unless a non-focus kind of a multi-site
        program fails on its own (lazy single-site diagnosis)."""
        if self.arm[2].get("as_normal_reparam"):
            return "normal_reparam-vector"
        if self.diag is not None:
            k = self.diag.culprit(self)
            if k is not None and k != self.arm[1]:
                return k
        return self._label

    def witness(self, **kw):
        w = {"program": R.prog_src(self.prog), "theta": self.theta, "arm": G.arm_name(self.arm), "mode": self.mode, "spec": self.prog}
        w.update(kw)
        return w

    def raised(self, op, e):
        cls = raising_prim(e) or "program"
        self.ctx.count(f"raises:{op}:{cls}")
        if self.struct_stat == "sample-or-cost-after-mvd" and "environment.py:read" in common.exc_mechanism(e):
            # same mechanism as the biased estimate: the pure continuation of flip_mvd skips the
            # later sample site, whose value is then unbound when a later equation reads it
            self.ctx.violation(
                f"C29|op={op}|on=program|field=raises|cond=sample-or-cost-after-mvd",
                **self.witness(detail=f"{type(e).__name__}: {str(e)[:300]}"),
            )
            return cls
        self.ctx.violation(
            f"C29|op={op}|on={cls}|field=raises|cond={common.exc_mechanism(e)}",
            **self.witness(detail=f"{type(e).__name__}: {str(e)[:300]}"),
        )
        return cls


def check_records(case, rows, primal, tangents, direction_idx, what="jvp_estimate"):
    """Deterministic oracle for one estimate.  rows: tap records of that evaluation;
    tangents: {i: observed tangent for unit direction i}.  Returns the PathModel choice used."""
    ctx = case.ctx
    try:
        pm = R.PathModel(case.prog, case.theta, rows)
        cands = list(pm.candidates())
    except R.Ambiguous as e:
        ctx.count("records_ambiguous")
        ctx.note(f"ambiguous records: {e}")
        return None
    if not rows and case.prog["sites"]:
        ctx.count("records_missing")
        return None
    best = None
    primal_ok = []  # every assignment of tap records to enumeration paths that explains the primal
    for ch in cands:
        try:
            exp_p, pscale = pm.primal_only(ch)
        except R.Ambiguous:
            continue
        ok = abs(float(primal) - exp_p) <= tol_for(exp_p, pscale)
        if best is None or (ok and not best[3]):
            best = (ch, exp_p, pscale, ok)
        if ok:
            primal_ok.append((ch, exp_p, pscale))
    if best is None:
        ctx.count("records_ambiguous")
        return None
    ch, exp_p, pscale, ok = best
    ctx.count("det_primal_checks")
    if not np.isfinite(exp_p):
        return None
    if not ok:
        field = "primal" if what == "jvp_estimate" else "value"
        on = case.label if what == "jvp_estimate" else "Expectation"
        ctx.violation(
            f"C29|op={what}|on={on}|field={field}|cond={case.struct_det}",
            **case.witness(detail=f"{what} primal {float(primal)!r} but the program's value for the observed samples is {exp_p!r}", records=rows[:8], observed=float(primal), expected=exp_p),
        )
        return None
    if tangents and case.det_ok:
        # a vmapped continuation (enum_parallel) runs both branches of a guarded site, so one
        # enumeration path can have several tap records; the primal alone may not tell them apart:
        # the tangents are judged against every record assignment that explains the primal
        first_bad = None
        for ch, exp_p, pscale in primal_ok:
            try:
                _, exp_t, _, tscales = pm.primal_and_tangents(ch)
            except R.Ambiguous:
                ctx.count("records_ambiguous")
                return ch
            bad = [(i, got, exp_t[i]) for i, got in tangents.items()
                   if np.isfinite(exp_t[i]) and not abs(float(got) - exp_t[i]) <= tol_for(exp_t[i], tscales[i] + pscale)]
            if not bad:
                ctx.count("det_tangent_checks", len(tangents))
                return (pm, ch)
            first_bad = first_bad or bad
        ctx.count("det_tangent_checks", len(tangents))
        for i, got, exp in first_bad or []:
            ctx.violation(
                f"C29|op=jvp_estimate|on={case.label}|field=tangent|cond={case.struct_det}",
                **case.witness(detail=f"tangent for d/dtheta{i} is {float(got)!r}; exact enumeration / pathwise derivative for the observed noise is {exp!r} (no assignment of the {len(primal_ok)} record candidates matches)", records=rows[:8], observed=float(got), expected=exp, direction=i),
            )
    return (pm, ch)


def noise_rows(case, pm_choice):
    """[(site, component, eps, guarded)] for normal-noise sites of the (single) sampled path."""
    if pm_choice is None:
        return None
    pm, ch = pm_choice
    nz = pm.noise_of(ch)
    out = {}
    for key, per in nz.items():
        row = []
        for j, v in per.items():
            guarded = case.prog["sites"][j].get("guard") is not None
            tail = case.prog["sites"][j]["kind"] in R.TAILCALL_KINDS
            if isinstance(v, tuple):
                row += [(j, 0, v[0], guarded, tail), (j, 1, v[1], guarded, tail)]
            else:
                row.append((j, 0, v, guarded, tail))
        out[key] = row
    return out


def check_noise(case, per_run):
    """per_run: list (one per key) of {path: [(site, comp, eps, guarded, tail)]}."""
    ctx = case.ctx
    runs = [r for r in per_run if r]
    if len(runs) < 3:
        return
    paths = set(runs[0])
    for r in runs[1:]:
        paths &= set(r)
    for path in paths:
        base = runs[0][path]
        for a in range(len(base)):
            for b in range(a + 1, len(base)):
                sa, sb = base[a], base[b]
                if sa[0] == sb[0]:
                    continue
                same = 0
                tot = 0
                for r in runs:
                    ea = [x for x in r[path] if x[:2] == sa[:2]]
                    eb = [x for x in r[path] if x[:2] == sb[:2]]
                    if not ea or not eb:
                        continue
                    tot += 1
                    if abs(ea[0][2] - eb[0][2]) <= 1e-4 * (1 + abs(ea[0][2])):
                        same += 1
                if tot < 3:
                    continue
                ctx.count("noise_pairs_checked")
                if same == tot:
                    first = sa if sa[0] < sb[0] else sb
                    on = "tailcall-site" if first[4] else "sampled-site"
                    cond = "identical-after-cond-site" if first[3] else "identical-at-later-site"
                    ctx.violation(
                        f"C29|op=jvp_estimate|on={on}|field=site-noise|cond={cond}",
                        **case.witness(detail=f"sites {sa[0]} and {sb[0]} drew the identical standardised noise in all {tot} runs (e.g. {ea[0][2]!r}): the sites are not independent", path=list(path)),
                    )
                    return


def ztest(x, exact, tol):
    x = np.asarray(x, dtype=np.float64)
    m = float(x.mean())
    se = float(x.std(ddof=1) / math.sqrt(len(x)))
    d = max(0.0, abs(m - exact) - tol)
    if d == 0.0:
        return 1.0, m, se
    if se <= 0.0:
        return 0.0, m, se
    from scipy.stats import norm

    return float(2 * norm.sf(d / se)), m, se


def stat_monitor(case, exp, A, rng, N):
    import jax

    ctx, prog, theta = case.ctx, case.prog, case.theta
    e0, grad, ok = R.grad_expect(prog, theta)
    if not ok:
        ctx.count("ref_unstable")
        return
    n = prog["n_theta"]
    single_form = bool(rng.random() < 0.5)
    f = jax.jit(lambda keys, duals: jax.vmap(lambda k: exp.jvp_estimate(k, duals))(keys))

    def draw(seed, reps):
        prim, tans = [], [[] for _ in range(n)]
        for r in range(reps):
            keys = jax.random.split(jax.random.key(int(seed) + 7919 * r), N)
            for i in range(n):
                d = f(keys, make_duals(A, prog, theta, i, single_form))
                if i == 0:
                    prim.append(np.asarray(d.primal, dtype=np.float64))
                tans[i].append(np.asarray(d.tangent, dtype=np.float64))
        return np.concatenate(prim), [np.concatenate(t) for t in tans]

    try:
        prim, tans = draw(rng.integers(1 << 30), 1)
    except Exception as e:  # noqa: BLE001
        case.raised("jvp_estimate", e)
        return
    ctx.count("mode_vmap")
    cells = [("primal-mean", None, prim, e0)] + [("tangent-mean", i, tans[i], grad[i]) for i in range(n)]
    shadow = case.struct_stat in ("site-after-tailcall", "site-after-cond-site", "sample-or-cost-after-mvd")

    class _On:  # `on=` resolved only when a violation is actually emitted (may run the lazy diagnosis)
        def __format__(self, spec):
            return "program" if shadow else case.label

    on = _On()
    stage2 = None
    for field, i, xs, exact in cells:
        ctx.count("stat_cells")
        ctx.count(f"stat_cells:{case.struct_stat}")
        if xs.shape != (N,):
            ctx.violation(f"C29|op=jvp_estimate|on={on}|field=shape|cond={case.struct_stat}", **case.witness(detail=f"{field}: shape {xs.shape} under vmap over {N} keys"))
            continue
        if not np.all(np.isfinite(xs)):
            ctx.violation(f"C29|op=jvp_estimate|on={on}|field=nonfinite|cond={case.struct_stat}", **case.witness(detail=f"{field}: {int(np.sum(~np.isfinite(xs)))} non-finite estimates of {N}"))
            continue
        tol = 2e-4 * (1 + abs(exact))
        p, m, se = ztest(xs, exact, tol)
        if p >= 1e-6:
            continue
        ctx.count("stat_flags_stage1")
        if stage2 is None:
            try:
                stage2 = draw(rng.integers(1 << 30) + (1 << 30), 8)
            except Exception as e:  # noqa: BLE001
                case.raised("jvp_estimate", e)
                return
        xs2 = stage2[0] if i is None else stage2[1][i]
        if not np.all(np.isfinite(xs2)):
            ctx.violation(f"C29|op=jvp_estimate|on={on}|field=nonfinite|cond={case.struct_stat}", **case.witness(detail=f"{field}: non-finite estimates"))
            continue
        p2, m2, se2 = ztest(xs2, exact, tol)
        if p2 < 1e-9:
            what = "E[f]" if i is None else f"dE[f]/dtheta{i}"
            ctx.violation(
                f"C29|op=jvp_estimate|on={on}|field={field}|cond={case.struct_stat}",
                **case.witness(detail=f"mean of {len(xs2)} estimates {m2:.5f} (SE {se2:.5f}) but exact {what} = {exact:.5f}; stage-1 mean {m:.5f} (SE {se:.5f}, N={N})", observed=m2, expected=exact, se=se2, p_stage1=p, p_stage2=p2),
            )
        elif p2 >= 1e-3:
            ctx.count("stat_stage2_cleared")
        else:
            ctx.count("grey")
            ctx.note(f"grey band: {G.arm_name(case.arm)} {field} p1={p:.2e} p2={p2:.2e}")


def run_program(ctx, A, prog, theta, arm, rng, eager=False, do_stat=False, N=4000, light=False, diag=None):
    """All monitors on one program.  Returns 'ok' | 'raised:<cls>' | 'bad'."""
    import jax

    mode = "jit+eager" if eager else "jit"
    case = Case(ctx, prog, theta, arm, mode, diag)
    tap = Tap()
    exp_tap = A.expectation(G.build_source(prog, tap))
    exp = A.expectation(G.build_source(prog))
    n = prog["n_theta"]
    single_form = bool(rng.random() < 0.5)
    nviol0 = ctx.counters.get("violations_raw", 0)

    def jv(key, duals):
        return exp_tap.jvp_estimate(key, duals)

    # the tap (a zero-output primitive) is only ever run under jit; `eager` = short probe which
    # additionally evaluates the untapped program op-by-op and compares with the jitted result
    fj = jax.jit(jv)
    seeds = [int(s) for s in rng.integers(1 << 30, size=N_RUNS)]
    n_runs = 2 if light else N_RUNS
    per_run_noise = []
    first = {}
    status = "ok"
    for r in range(n_runs):
        key = jax.random.key(seeds[r])
        dirs = range(n) if not light else [int(rng.integers(n))]
        rows, primal, tangents = [], None, {}
        try:
            for i in dirs:
                tap.rows.clear()
                d = fj(key, make_duals(A, prog, theta, i, single_form))
                jax.block_until_ready(d)
                jax.effects_barrier()
                p_i, t_i = float(np.asarray(d.primal)), float(np.asarray(d.tangent))
                if np.shape(d.primal) != () or np.shape(d.tangent) != ():
                    ctx.violation(f"C29|op=jvp_estimate|on={case.label}|field=shape|cond={case.struct_det}", **case.witness(detail=f"primal/tangent shapes {np.shape(d.primal)}/{np.shape(d.tangent)} for a scalar program"))
                if primal is not None and not common.close(p_i, primal):
                    ctx.violation(f"C29|op=jvp_estimate|on={case.label}|field=primal-depends-on-tangent|cond={case.struct_det}", **case.witness(detail=f"same key, different input tangents: primals {primal!r} vs {p_i!r}"))
                primal = p_i
                tangents[i] = t_i
                for row in tap.rows:
                    if row not in rows:
                        rows.append(row)
                if eager and r == 0 and i == 0:
                    d2 = exp.jvp_estimate(key, make_duals(A, prog, theta, i, single_form))
                    ctx.count("eager_vs_jit_checks")
                    if not (common.close(float(np.asarray(d2.primal)), p_i, rtol=1e-3, atol=5e-4) and common.close(float(np.asarray(d2.tangent)), t_i, rtol=1e-3, atol=5e-4)):
                        ctx.violation(f"C29|op=jvp_estimate|on={case.label}|field=eager-vs-jit|cond={case.struct_det}", **case.witness(detail=f"same key: op-by-op ({float(np.asarray(d2.primal))!r}, {float(np.asarray(d2.tangent))!r}) vs jit ({p_i!r}, {t_i!r})"))
        except Exception as e:  # noqa: BLE001
            cls = case.raised("jvp_estimate", e)
            return f"raised:{cls}"
        ctx.count("mode_jit")
        if eager and r == 0:
            ctx.count("mode_eager")
        if not all(np.isfinite(v) for v in [primal, *tangents.values()]):
            ctx.violation(f"C29|op=jvp_estimate|on={case.label}|field=nonfinite|cond={case.struct_det}", **case.witness(detail=f"primal {primal!r} tangents {tangents!r}", records=rows[:8]))
            status = "bad"
            continue
        pmc = check_records(case, rows, primal, tangents, None)
        try:
            per_run_noise.append(noise_rows(case, pmc))
        except R.Ambiguous:
            per_run_noise.append(None)
        if r == 0:
            first = {"key": seeds[0], "primal": primal, "tangents": dict(tangents), "rows": rows}
            ctx.sample({"program": R.prog_src(prog), "theta": theta, "arm": G.arm_name(arm), "mode": mode, "primal": primal, "tangents": tangents, "records": rows[:4]}, limit=3)
    check_noise(case, per_run_noise)
    ctx.evaluation(fingerprint=(G.arm_name(arm), case.struct_stat, len(prog["sites"]), prog.get("theta_form"), mode), nontrivial=len(prog["sites"]) >= 1)
    ctx.count(f"arm:{G.arm_name(arm)}")
    for k in set(case.kinds):
        ctx.count(f"kind_evaluated:{k}")

    # grad_estimate vs jvp_estimate under the same key
    targs = G.theta_args(prog, theta)
    try:
        g = jax.jit(exp.grad_estimate)(jax.random.key(seeds[0]), targs)
        gl = [float(x) for x in np.concatenate([np.ravel(np.asarray(x)) for x in jax.tree_util.tree_leaves(g)])]
        if len(gl) != n:
            ctx.violation(f"C29|op=grad_estimate|on=Expectation|field=structure|cond={case.struct_det}", **case.witness(detail=f"{len(gl)} gradient entries for {n} parameters"))
        else:
            for i, t_i in first.get("tangents", {}).items():
                ctx.count("grad_vs_jvp_checks")
                if not common.close(gl[i], t_i, rtol=1e-3, atol=5e-4):
                    ctx.violation(
                        f"C29|op=grad_estimate|on=Expectation|field=grad-vs-jvp|cond={case.struct_det}",
                        **case.witness(detail=f"grad_estimate[{i}] = {gl[i]!r} but jvp_estimate tangent for e_{i} under the same key = {t_i!r}"),
                    )
    except Exception as e:  # noqa: BLE001
        case.raised("grad_estimate", e)
    # Expectation.estimate
    if not light:
        ctx.count("estimate_calls")
        try:
            tap.rows.clear()
            fe = jax.jit(exp_tap.estimate)
            v = fe(jax.random.key(seeds[1]), targs)
            jax.block_until_ready(v)
            jax.effects_barrier()
            rows = []
            for row in tap.rows:
                if row not in rows:
                    rows.append(row)
            ctx.count("estimate_value_checks")
            if np.shape(v) != ():
                ctx.violation(f"C29|op=estimate|on=Expectation|field=shape|cond={case.struct_det}", **case.witness(detail=f"shape {np.shape(v)}"))
            else:
                check_records(case, rows, float(v), {}, None, what="estimate")
        except Exception as e:  # noqa: BLE001
            case.raised("estimate", e)
    if do_stat:
        stat_monitor(case, exp, A, rng, N)
    if ctx.counters.get("violations_raw", 0) > nviol0:
        status = "bad"
    return status


def single_arm(kind):
    det = kind in G.DET_POOL
    return ("det" if det else "stat", kind, {"const_cov": True} if kind == "mv_normal_reparam" else {})


def probe_kinds(ctx, A):
    """Trace-only probe (jax.eval_shape, nothing is compiled) of every primitive on a
    single-site program: the kinds that raise are not drawn as non-focus sites afterwards."""
    import jax

    bad = set()
    for ki, kind in enumerate(R.ALL_KINDS):
        rng = ctx.child_rng(7, ki)
        arm = single_arm(kind)
        prog = G.gen_program(rng, arm, single=True)
        theta = G.gen_theta(rng, prog)
        exp = A.expectation(G.build_source(prog))
        ctx.count("probe_programs")
        try:
            jax.eval_shape(lambda k, d: exp.jvp_estimate(k, d), jax.random.key(0), make_duals(A, prog, theta, 0, False))
        except Exception as e:  # noqa: BLE001
            Case(ctx, prog, theta, arm, "trace").raised("jvp_estimate", e)
            ctx.evaluation(fingerprint=("probe", kind, "raises"), nontrivial=True)
            bad.add(kind)
            ctx.count(f"kind_quarantined:{kind}")
    return bad


class Diagnoser:
    """Lazy attribution: when a multi-site program fails a deterministic check, each kind in it
    is run alone once (tapped, jitted); kinds that fail alone are blamed and quarantined."""

    def __init__(self, ctx, A, bad):
        self.ctx, self.A, self.bad = ctx, A, bad
        self.seen = {}

    def culprit(self, case):
        kinds = sorted(k for k in set(case.kinds) if k != case.arm[1])
        if not kinds:
            return None
        out = None
        for k in kinds:
            if k not in self.seen:
                st = "ok"
                for attempt in range(3):
                    rng = self.ctx.child_rng(9, R.ALL_KINDS.index(k), attempt)
                    arm = single_arm(k)
                    prog = G.gen_program(rng, arm, single=True)
                    theta = G.gen_theta(rng, prog)
                    self.ctx.count("diagnosis_programs")
                    st = run_program(self.ctx, self.A, prog, theta, arm, rng, light=True, diag=None)
                    if st != "ok":
                        break
                self.seen[k] = st
                if st != "ok":
                    self.bad.add(k)
                    self.ctx.count(f"kind_quarantined:{k}")
            if self.seen[k] != "ok" and out is None:
                out = k
        return out


def run(ctx):
    common.import_repo()
    from genjax import adev as A

    import time

    # budgets: CPU seconds of this worker (robust on a shared machine) and a wall cap
    cpu_budget = ctx.pick(50.0, 300.0)
    wall_budget = ctx.pick(420.0, 2400.0)
    cpu0 = time.process_time()
    N = ctx.pick(4000, 40000)
    reps = ctx.pick(6, 40)
    bad = probe_kinds(ctx, A)
    diag = Diagnoser(ctx, A, bad)
    total = len(G.ARMS) * reps
    done = 0
    eager_left = ctx.pick(1, 6)
    for ci in ctx.my_share(total):
        if ctx.elapsed() > wall_budget or time.process_time() - cpu0 > cpu_budget:
            ctx.count("cases_skipped_budget")
            continue
        arm = G.ARMS[ci % len(G.ARMS)]
        rep = ci // len(G.ARMS)
        rng = ctx.child_rng(1, ci)
        single = rep % 2 == 0
        prog = G.gen_program(rng, arm, single=single, avoid=bad)
        theta = G.gen_theta(rng, prog, hostile=True)
        eager = eager_left > 0 and len(prog["sites"]) <= 2 and not any(s["kind"] in bad for s in prog["sites"])
        st = run_program(ctx, A, prog, theta, arm, rng, eager=eager, do_stat=(arm[0] == "stat"), N=N, diag=diag)
        if eager and not st.startswith("raised"):
            eager_left -= 1
        done += 1
    ctx.count("programs", done)
    if ctx.counters.get("grey", 0):
        raise RuntimeError("grey-band statistical result: run is inconclusive")
