"""C33 — invalid_subset reports exactly the constraint addresses a model cannot trace.

Workload (vf/gen/c33_models.py): random template models (static @gen functions with string and
tuple addresses, nested calls, vmap / repeat / scan / iterate / iterate_final / accumulate /
reduce, switch, or_else, mask, map / contramap / dimap, bare distributions under combinators) whose
set P of traceable static addresses is known from the template; constraint maps generated as
finite maps {address -> unique float value} mixing valid addresses with unknown top-level names,
wrong last components, addresses below a leaf, values at interior nodes, sibling swaps, unknown
nested names — each optionally decorated with index components (int, 0-d array, index array,
full slice, int+array) at documented vector levels or anywhere else, and built in ten ways
(| fold, .at chain, ChoiceMap.d, entry/from_mapping, grouped sub-maps, inside jax.jit with traced
values, jax.vmap-built index levels, .mask(traced True), ChoiceMap.switch over groups of entries with an
array index, and "a trace's own choices | untraceable extras" — own choices are traceable by
definition whatever the model, so that arm needs no template knowledge).

Oracle (finite-map model; results are read back structurally over Static/Indexed/Or/Choice nodes,
through the public lookup interface for index-free maps, and by a representation-free data census):
  expected = None                         if every entry's static address is in P
           = {entries with static address not in P}   otherwise (index components ignored)
  checks: None-ness; every invalid entry is present in the result with its value; no valid entry is
  present; the float data held by the result is exactly the invalid entries' data (nothing else);
  applying invalid_subset to the result returns the same data again.
Self-checks (never violations): every entry must read back from the constraint map itself
(map_model_mismatch otherwise -> case dropped); on every model P is validated against the
library's own (abstract) simulate trace, and against a real simulate() trace for 1 model in 16.
"""

from __future__ import annotations

import os

import numpy as np

from vf import common
from vf.gen import c33_models as M

CM = "genjax._src.core.generative.choice_map"
CONFIG = {
    "level": "exploration",
    "shards": {"quick": 16, "thorough": 16},
    "timeout_s": {"quick": 600, "thorough": 3000},
    "rule": "template models (depth<=2 quick / 3 thorough) x 8 (12 thorough) constraint maps each; a case = (model, map); non-trivial when the map has >=2 entries or an index component, and the model has a combinator or a nested call; distinct by (model kinds, sorted entry classes with index forms, builder).",
    "reach_anchors": [f"{CM}:ChoiceMap.invalid_subset", f"{CM}:_shape_selection", f"{CM}:Static.filter", f"{CM}:Indexed.filter", f"{CM}:Or.filter", f"{CM}:Choice.filter", f"{CM}:Switch.filter"],
    "reach_required": [f"{CM}:ChoiceMap.invalid_subset", f"{CM}:_shape_selection", f"{CM}:Static.filter", f"{CM}:Indexed.filter", f"{CM}:Or.filter"],
    "counters_required": ["cases", "expect_none", "expect_submap", "expect_submap_mixed", "entries_indexed", "oracle_selfcheck_ok", "arm_jit", "arm_or_fold", "arm_vmap_built", "arm_masked", "arm_switch_map", "arm_own_choices"],
    "assumptions": ["traceable addresses of a template are those documented for its combinators (vector combinators, mask, dimap add index levels only; switch/or_else may trace any branch's addresses)", "length-0 vector combinators and concrete-False masks are not generated (whether their addresses count as traceable is not specified)", "mix is not generated (its internal addresses are not documented)", "jax.tree_util.tree_leaves is trusted for the float-data census of a result", "results are read back as finite maps by walking Static/Indexed/Or/Choice nodes (lookups with index components through mixed maps raise inside the library, see notes/C33_findings.md); an unknown node class degrades the check to the census"],
}


ARMS = M.BUILDERS + ["masked", "switch_map", "own_choices", "own_choices"]


def _sig(op, on, field, cond):
    return f"C33|op={op}|on={on}|field={field}|cond={cond}"


def _on(spec_kinds):
    for k in ("switch", "or_else", "mask", "scan", "iterate", "iterate_final", "accumulate", "reduce", "vmap", "repeat", "dimap", "map", "contramap", "static", "leaf"):
        if k in spec_kinds:
            return k
    return "model"


def _census_expected(entries):
    out = []
    for e in entries:
        out.extend(np.asarray(e.value, dtype=np.float32).ravel().tolist())
    return sorted(out)


def judge(ctx, model, args, spec, P, entries, builder, chm, res, on, check_again, static_read=False):
    """Compare one observed result with the finite-map expectation. Returns True when it held."""
    inv = [e for e in entries if not e.valid]
    desc = {"model": M.show(spec), "traceable": sorted("/".join(p) for p in P), "map": [e.show() for e in entries], "builder": builder}
    ok = True
    if not inv:
        ctx.count("expect_none")
        if res is not None:
            try:
                gm = M.enumerate_map(res, static=True)
                shell = gm == {} and M.enumerate_map.last_info["empty_switch_nodes"] > 0
            except M.UnknownNode:
                gm, shell = {}, False
            if shell:
                # known mechanism (notes/C33_findings.md #1): a Switch node whose branches are all empty is
                # not recognised as empty, so a map with only traceable addresses does not give None
                ctx.violation(_sig("invalid_subset", "switch-typed-map", "not-None", "all-traceable,result-is-an-empty-switch-shell"), detail="every address is traceable; the result is not None but holds no address at all (Switch nodes with empty branches)", result=common.short(res, 400), **desc)
                return False
            by_addr = {M.norm_addr(e.addr): e for e in entries}
            rep = [by_addr[k] for k in gm if k in by_addr]
            e0 = rep[0] if rep else (entries[0] if entries else None)
            ctx.violation(_sig("invalid_subset", on, "spurious", f"all-valid,{e0.cls},{e0.idxform}" if e0 else "all-valid,own-choices"), detail=f"every address is traceable but the result is not None; reported: {[e.show() for e in rep] or sorted(gm)[:4]}", result=common.short(res, 400), **desc)
            ok = False
        return ok
    ctx.count("expect_submap")
    if any(e.valid for e in entries):
        ctx.count("expect_submap_mixed")
    if res is None:
        e0 = inv[0]
        ctx.violation(_sig("invalid_subset", on, "missed", f"returns-None,{e0.cls},{e0.idxform}"), detail=f"untraceable addresses {[e.show() for e in inv]} but the result is None", **desc)
        return False
    if not hasattr(res, "get_submap"):
        ctx.violation(_sig("invalid_subset", on, "type", "not-a-choicemap"), detail=f"returned {type(res).__name__}", **desc)
        return False
    # (1) structural read-back of the result as a finite map {address: value}
    try:
        got_map = M.enumerate_map(res, static=static_read)
    except M.UnknownNode as ex:
        got_map = None
        ctx.count("readback_unknown_node")
        ctx.note(f"result not readable structurally ({ex}); census only")
    if got_map is not None:
        ctx.count("readback_structural")
        exp_map = M.expected_map(inv)
        if not M.same_finite_map(got_map, exp_map):
            by_addr = {M.norm_addr(e.addr): e for e in entries}
            spurious = [by_addr[k] for k in got_map if k in by_addr and by_addr[k].valid]
            missed = [e for e in inv if M.norm_addr(e.addr) not in got_map]
            if spurious:
                e = spurious[0]
                ctx.violation(_sig("invalid_subset", on, "spurious", f"{e.cls},{e.idxform}"), detail=f"traceable address {e.show()} is reported as invalid", result=common.short(res, 400), **desc)
            elif missed:
                e = missed[0]
                ctx.violation(_sig("invalid_subset", on, "missed", f"{e.cls},{e.idxform}"), detail=f"untraceable address {e.show()} is missing from the result", result=common.short(res, 400), **desc)
            else:
                moved = [k for k in got_map if k not in exp_map]
                if moved:
                    ctx.violation(_sig("invalid_subset", on, "address", "entry-at-an-address-not-in-the-constraint"), detail=f"result has {moved[:3]}", result=common.short(res, 400), **desc)
                else:
                    e = next(x for x in inv if not (got_map[M.norm_addr(x.addr)].shape == np.shape(x.value) and np.array_equal(got_map[M.norm_addr(x.addr)], np.asarray(x.value, dtype=np.float32))))
                    ctx.violation(_sig("invalid_subset", on, "value", f"{e.cls},{e.idxform}"), detail=f"value at {e.show()} differs from the constraint's", result=common.short(res, 400), **desc)
            ok = False
    # (2) index-free maps: the same through the public lookup interface
    if ok and not static_read and all(e.idxform == "none" for e in entries):
        ctx.count("readback_lookup")
        for e in entries:
            a = tuple(e.addr)
            try:
                present, val = M.lookup(res, a)
            except Exception as ex:  # noqa: BLE001
                ctx.violation(_sig("lookup-in-result", on, "raises", common.exc_mechanism(ex)), detail=f"{type(ex).__name__}: {ex}"[:300], entry=e.show(), result=common.short(res, 400), **desc)
                ok = False
                break
            if e.valid and present:
                ctx.violation(_sig("invalid_subset", on, "spurious", f"{e.cls},{e.idxform}"), detail=f"traceable address {e.show()} is reported as invalid (lookup)", result=common.short(res, 400), **desc)
                ok = False
                break
            if not e.valid and not (present and val.shape == np.shape(e.value) and np.array_equal(val.astype(np.float32), np.asarray(e.value, dtype=np.float32))):
                ctx.violation(_sig("invalid_subset", on, "missed" if not present else "value", f"{e.cls},{e.idxform}"), detail=f"untraceable address {e.show()} reads back as present={present} value={val}", result=common.short(res, 400), **desc)
                ok = False
                break
    if ok and not static_read:
        got_c, exp_c = M.float_census(res), _census_expected(inv)
        if got_c != exp_c:
            extra = sorted(set(got_c) - set(exp_c))
            missing = sorted(set(exp_c) - set(got_c))
            ctx.violation(_sig("invalid_subset", on, "extra-data" if extra else "lost-data", "census"), detail=f"result holds data {extra} beyond / lacks {missing} of the untraceable entries", result=common.short(res, 400), **desc)
            ok = False
    if ok and check_again:
        # everything left in the result is untraceable: asking again must return the same data
        ctx.count("second_application")
        try:
            again = res.invalid_subset(model, args)
            if static_read:
                same = again is not None and M.same_finite_map(M.enumerate_map(again, static=True), M.enumerate_map(res, static=True))
            else:
                same = again is not None and M.float_census(again) == M.float_census(res)
            if not same:
                ctx.violation(_sig("invalid_subset", on, "idempotence", "second-application"), detail="invalid_subset(result) differs from result", result=common.short(res, 300), again=common.short(again, 300), **desc)
                ok = False
        except Exception as ex:  # noqa: BLE001
            ctx.violation(_sig("invalid_subset", on, "raises", "second-application," + common.exc_mechanism(ex)), detail=f"{type(ex).__name__}: {ex}"[:300], **desc)
            ok = False
    return ok


def selfcheck_model(ctx, model, args, P, spec, real, holder=None):
    """Validate the template's address set against the library's own trace of the model (never a
    violation): abstractly via jax.eval_shape(simulate) for every model, by a real simulate() for a few."""
    import jax

    try:
        key = jax.random.key(int(ctx.rng.integers(1 << 30)))
        seen = []

        def probe(k, a):
            chm = model.simulate(k, a).get_choices()
            if real and holder is not None:
                holder["own"] = chm
            seen.append([((chm(p) if p else chm).has_value()) for p in Pl])
            return 0

        Pl = sorted(P)
        if real:
            probe(key, args)
        else:
            jax.eval_shape(probe, key, args)
        for p, has in zip(Pl, seen[0]):
            if not has:
                ctx.count("oracle_selfcheck_fail")
                ctx.note(f"oracle selfcheck: {p} not in a trace of {M.show(spec)}")
                return False
        ctx.count("oracle_selfcheck_real_ok" if real else "oracle_selfcheck_ok")
        return True
    except Exception as e:  # noqa: BLE001
        ctx.reject("simulate:" + common.exc_mechanism(e))
        ctx.note(f"simulate failed on {M.show(spec)}: {type(e).__name__}: {e}"[:300])
        return False


def run(ctx):
    common.import_repo()
    import jax
    import jax.numpy as jnp

    n_models = ctx.pick(80, 640)
    if os.environ.get("VF_C33_MODELS"):  # development knob (shorter mutation runs); never set by ./check
        n_models = int(os.environ["VF_C33_MODELS"])
    maps_per_model = ctx.pick(8, 12)
    max_depth = ctx.pick(2, 3)
    budget = ctx.pick(200.0, 800.0)
    counter = [0]
    for mi in ctx.my_share(n_models):
        if ctx.elapsed() > budget:
            ctx.count("models_skipped_budget")
            continue
        rng = ctx.child_rng(1, mi)
        spec = M.gen_model(rng, max_depth)
        P = M.paths(spec)
        vec = M.vector_levels(spec)
        kinds = M.kinds(spec)
        on = _on(kinds)
        args = (jnp.asarray(float(np.round(rng.uniform(-0.9, 0.9), 2)), dtype=jnp.float32),)
        try:
            model = M.build_model(spec)
        except Exception as e:  # noqa: BLE001
            # the model itself is refused by the library: teaches nothing about invalid_subset
            ctx.reject("model:" + common.exc_mechanism(e))
            ctx.note(f"model rejected {M.show(spec)}: {type(e).__name__}: {e}"[:300])
            continue
        ctx.count("models")
        for k in kinds:
            ctx.count("model_kind_" + k)
        if not selfcheck_model(ctx, model, args, P, spec, real=False):
            continue
        holder = {}
        if mi % 16 == 0 and not selfcheck_model(ctx, model, args, P, spec, real=True, holder=holder):
            continue
        for ci in range(maps_per_model):
            crng = ctx.child_rng(2, mi, ci)
            counter[0] = 0
            entries = M.gen_entries(crng, P, vec, counter)
            if not entries:
                continue
            builder = ARMS[int(crng.integers(len(ARMS)))]
            if builder == "vmap_built" and not any(e.idxform == "array" for e in entries):
                builder = "or_fold"
            if builder == "switch_map" and any(not e.addr for e in entries):
                builder = "or_fold"
            static_read = builder in ("switch_map", "own_choices")
            rng2 = np.random.default_rng(int(crng.integers(1 << 30)))
            try:
                if builder == "masked":
                    chm = M.build_map("or_fold", entries, rng2).mask(jnp.asarray(True))
                elif builder == "switch_map":
                    from genjax import ChoiceMap
                    from genjax import ChoiceMapBuilder as C

                    k = 2 + int(crng.integers(2))
                    groups = [[] for _ in range(k)]
                    for e in entries:
                        groups[int(crng.integers(k))].append(e)
                    branches = [M.build_map("or_fold", g, rng2) if g else C.n() for g in groups]
                    chm = ChoiceMap.switch(jnp.asarray(int(crng.integers(k)), dtype=jnp.int32), branches)
                elif builder == "own_choices":
                    # a trace's own choices (all traceable by definition, for any model) + untraceable extras
                    own = holder.get("own")
                    if own is None or ci % 2:
                        own = model.get_zero_trace(*args).get_choices()
                    else:
                        ctx.count("own_choices_from_real_trace")
                    entries = [e for e in entries if not e.valid and e.addr and not any(M._is_prefix(p, e.static) or M._is_prefix(e.static, p) for p in P)]
                    chm = (own | M.build_map("or_fold", entries, rng2)) if entries else own
                else:
                    chm = M.build_map(builder, entries, rng2)
            except Exception as e:  # noqa: BLE001
                ctx.reject("map:" + common.exc_mechanism(e))
                ctx.note(f"map build failed ({builder}) {[e_.show() for e_ in entries]}: {type(e).__name__}: {e}"[:300])
                continue
            # the constraint map must denote the finite map we think it does
            try:
                if builder == "own_choices":
                    good = True
                elif static_read:
                    good = M.same_finite_map(M.enumerate_map(chm, static=True), M.expected_map(entries))
                else:
                    good = M.same_finite_map(M.enumerate_map(chm), M.expected_map(entries)) and M.float_census(chm) == _census_expected(entries)
                    if good and all(e.idxform == "none" for e in entries):
                        good = all(M.lookup(chm, tuple(e.addr))[0] for e in entries)
            except Exception as e:  # noqa: BLE001
                good = False
                ctx.note(f"map readback raised: {type(e).__name__}: {e}"[:200])
            if not good:
                ctx.count("map_model_mismatch")
                ctx.note(f"map model mismatch ({builder}): {[e_.show() for e_ in entries]} -> {common.short(chm, 200)}")
                continue
            try:
                if builder == "jit":
                    seed = int(crng.integers(1 << 30))
                    vals = [jnp.asarray(e.value) for e in entries]
                    res = jax.jit(lambda vs: M.build_map("jit", entries, np.random.default_rng(seed), values=vs).invalid_subset(model, args))(vals)
                else:
                    res = chm.invalid_subset(model, args)
            except Exception as e:  # noqa: BLE001
                ctx.violation(_sig("invalid_subset", on, "raises", f"{builder},{common.exc_mechanism(e)}"), detail=f"{type(e).__name__}: {e}"[:400], model=M.show(spec), map=[x.show() for x in entries])
                continue
            ctx.count("cases")
            ctx.count("arm_" + builder)
            n_idx = sum(1 for e in entries if e.idxform != "none")
            ctx.count("entries", len(entries))
            ctx.count("entries_indexed", n_idx)
            for e in entries:
                ctx.count("entry_" + e.cls)
                if e.idxform != "none":
                    ctx.count("idx_" + e.idxform)
            held = judge(ctx, model, args, spec, P, entries, builder, chm, res, on, check_again=(ci % 4 == 0), static_read=static_read)
            if held:
                ctx.count("held")
            nontrivial = (len(entries) >= 2 or n_idx > 0 or static_read) and (len(kinds - {"leaf", "static"}) > 0 or any(len(p) >= 2 for p in P))
            fp = (tuple(sorted(kinds)), tuple(sorted((e.cls, e.idxform) for e in entries)), builder)
            ctx.evaluation(fingerprint=fp, nontrivial=nontrivial)
            ctx.sample({"model": M.show(spec), "traceable": sorted("/".join(p) for p in P), "map": [e.show() for e in entries], "builder": builder, "result": common.short(res, 200)}, limit=3)
