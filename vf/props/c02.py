"""C02 — scores are the exact joint log-density defined by the program.

Oracle: reference interpreter (sum of scipy float64 log-densities of the live choices) on the
assignment extracted from every trace, and on assignments drawn by the *reference* sampler and
fed to the real assess()."""

from vf.prog import gen
from vf.props import _drive

A = "genjax._src.generative_functions"
CONFIG = {
    "level": "exploration",
    "shards": {"quick": 16, "thorough": 16},
    "timeout_s": {"quick": 900, "thorough": 5400},
    "rule": 'case = generated program + simulate/importance trace + updates + assess() on reference-sampled in-support values; compared: trace score and assess score vs sum over live choices of scipy log-densities (masked-off choices contribute 0). non-trivial: >=3 choice sites through >=1 combinator; distinct by AST shape.',
    "reach_anchors": ['genjax._src.generative_functions.distributions.distribution:ExactDensity.estimate_logpdf', 'genjax._src.generative_functions.static:AssessHandler.handle_trace', 'genjax._src.generative_functions.combinators.vmap:Vmap.assess', 'genjax._src.generative_functions.combinators.scan:Scan.assess', 'genjax._src.generative_functions.combinators.switch:Switch.assess', 'genjax._src.generative_functions.combinators.mask:MaskCombinator.assess'],
    "reach_required": ['genjax._src.generative_functions.distributions.distribution:ExactDensity.estimate_logpdf', 'genjax._src.generative_functions.static:AssessHandler.handle_trace', 'genjax._src.generative_functions.combinators.vmap:Vmap.assess', 'genjax._src.generative_functions.combinators.scan:Scan.assess', 'genjax._src.generative_functions.combinators.switch:Switch.assess', 'genjax._src.generative_functions.combinators.mask:MaskCombinator.assess'],
    "counters_required": ['assess_ref_checks'],
    "assumptions": [
        "reference interpreter vf/prog/ast.py transcribes the documented combinator semantics; scipy float64 densities",
        "float32 tolerance 2e-4 (relative+absolute) scaled by sqrt(#terms)",
        "programs from the bounded grammar (depth<=2 quick, <=3 thorough; sizes<=3/5); values read through public choice-map lookups",
    ],
}

def cfg_fn(rng, ctx):
    depth = int(rng.choice([1, 2, 2])) if ctx.quick() else int(rng.choice([1, 2, 2, 3]))
    return gen.Cfg(depth=depth, allow_zero_len=True, sizes=(1, 2, 3) if ctx.quick() else (1, 2, 3, 5), hostile_idx=rng.random() < 0.35, weights={"Switch": 2.5})


def nontrivial(case, hist):
    n = sum(1 for s in case.node.sites() for _ in s.paths())
    return n >= 3 and any(k not in ("Dist", "Static") for k in case.kinds)


PLAN = _drive.Plan(
    "C02", cfg_fn,
    clauses={"model.score", "assess.model.score", "assess.score"},
    ops={"assess_ref": 3, "update": 1},
    n_cases=(400, 3000), n_ops=(2, 4), nontrivial=nontrivial,
    fingerprint=lambda case, hist: case.node.shape_sig(),
    exc_is_violation=False,
)



def run(ctx):
    _drive.run(ctx, PLAN)
