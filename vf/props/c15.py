"""C15 — dimap, map and contramap only transform arguments and return values.

Reference: inner program on pre(args), return post(args, pre(args), inner return); choices,
scores and weights are the inner function's; after argument-changing edits the new return value
equals recomputation and NoChange tags carry the old value."""

from vf.prog import gen
from vf.props import _drive

A = "genjax._src.generative_functions"
CONFIG = {
    "level": "exploration",
    "shards": {"quick": 16, "thorough": 16},
    "timeout_s": {"quick": 900, "thorough": 5400},
    "rule": 'case = program with a Dimap root (forms dimap / map / contramap; pre/post from the pure expression grammar incl. functions of both args and return value) + importance / update (argument changes) / regenerate ops, with retdiff tag checks after each edit. non-trivial: an edit changes the arguments; distinct by (AST shape, form, op sequence).',
    "reach_anchors": ['genjax._src.generative_functions.combinators.dimap:Dimap.simulate', 'genjax._src.generative_functions.combinators.dimap:Dimap.generate', 'genjax._src.generative_functions.combinators.dimap:Dimap.assess', 'genjax._src.generative_functions.combinators.dimap:Dimap.edit_change_target'],
    "reach_required": ['genjax._src.generative_functions.combinators.dimap:Dimap.simulate', 'genjax._src.generative_functions.combinators.dimap:Dimap.generate', 'genjax._src.generative_functions.combinators.dimap:Dimap.assess', 'genjax._src.generative_functions.combinators.dimap:Dimap.edit_change_target'],
    "counters_required": ['ops:update', 'retdiff_checks'],
    "assumptions": [
        "reference interpreter vf/prog/ast.py transcribes the documented combinator semantics; scipy float64 densities",
        "float32 tolerance 2e-4 (relative+absolute) scaled by sqrt(#terms)",
        "programs from the bounded grammar (depth<=2 quick, <=3 thorough; sizes<=3/5); values read through public choice-map lookups",
    ],
}

KINDS = ["Dist", "Static", "Dimap", "Vmap", "Scan", "Repeat"]


def cfg_fn(rng, ctx):
    depth = 2 if ctx.quick() else int(rng.choice([2, 2, 3]))
    return gen.Cfg(depth=depth, kinds=KINDS, root="Dimap", literal_ret=0.2)


def nontrivial(case, hist):
    return any(h.startswith("update") and "new_args=None" not in h for h in hist)


PLAN = _drive.Plan(
    "C15", cfg_fn,
    clauses={"model.*", "imp.*", "upd.*", "tags.*", "assess.*", "regen.*", "raises"},
    ops={"update": 3, "regenerate": 1},
    n_cases=(400, 3000), n_ops=(3, 6), nontrivial=nontrivial,
    always=("assess_self",),
    exc_is_violation=True,
)



def run(ctx):
    _drive.run(ctx, PLAN)
