"""C37 — DiscreteHMM posterior density and sampler are exact.

Oracle: vf/ref/hmm_ref.py — float64 brute-force enumeration of all N**T latent sequences of the
HMM whose logits are the public `config.transition_tensor()` / `config.observation_tensor()`
(rows = from-state, softmax of rows, start row N//2), cross-checked against an independent
forward algorithm in the reference itself.

Monitors per case (config, observation sequence):
* data          `DiscreteHMM.data_logpdf(config, obs)` == log sum over all latent sequences of the joint;
                for N**T <= 256 also for EVERY observation sequence (vmap over obs) and their
                probabilities sum to 1;
* density       `DiscreteHMM.estimate_logpdf(key, v, config, obs)` == exact log posterior for EVERY
                latent sequence v (vmap over v) and for a few eager single calls; the N**T returned
                values are normalised (logsumexp == 0, independent of the reference);
* sampler       `DiscreteHMM.random_weighted(key, config, obs)` over n keys (vmap) + eager single calls
                + through `DiscreteHMM.simulate`: returned sequence has the right shape / integer dtype /
                range, returned weight == exact log posterior of the returned sequence, and the
                sequences are distributed as the exact posterior (G-test over all N**T outcomes, cells
                pooled to expected >= 10, two-stage rule);
* ffbs (direct) the anchored mechanism `forward_filtering_backward_sampling` called directly: forward
                filters == exact p(x_t | y_1..t), samples distributed as the exact posterior. This arm
                still observes something when the public methods cannot run.
Exceptions of the public methods on these (valid) inputs are violations (field=raises).
jit is observed once per shard and only counted (the configuration's "static" fields must be jax
arrays, which makes every method un-jittable; that is reported as an observation, not as C37).
"""

from __future__ import annotations

import numpy as np

from vf import common
from vf.ref import hmm_ref

M = "genjax._src.generative_functions.distributions.custom.discrete_hmm"
CONFIG = {
    "level": "exploration",
    "shards": {"quick": 16, "thorough": 16},
    "timeout_s": {"quick": 600, "thorough": 3000},
    "rule": "case i: N=[2,3,4,5][i%4], T=1+(i//4)%4, transition truncation=[2,0,1][(i//16)%3] (so 48 consecutive cases cover the N x T x truncation grid; a shard keeps one (N,T) so that JAX's per-shape compilations are reused), observation truncation in {0,1,2}, variances in {0.3,1,3} and the observation sequence random; every latent sequence (and for N^T<=256 every observation sequence) enumerated. non-trivial: T>=2 (transitions matter); distinct by (N,T,trunc_trans,trunc_obs,var_trans,var_obs).",
    "reach_anchors": [
        f"{M}:forward_filtering_backward_sampling",
        f"{M}:latent_marginals",
        f"{M}:latent_sequence_posterior",
        f"{M}:log_data_marginal",
        f"{M}:_DiscreteHMMLatentSequencePosterior.random_weighted",
        f"{M}:_DiscreteHMMLatentSequencePosterior.estimate_logpdf",
        f"{M}:_DiscreteHMMLatentSequencePosterior.data_logpdf",
    ],
    "reach_required": [
        f"{M}:forward_filtering_backward_sampling",
        f"{M}:latent_marginals",
        f"{M}:_DiscreteHMMLatentSequencePosterior.random_weighted",
        f"{M}:_DiscreteHMMLatentSequencePosterior.estimate_logpdf",
        f"{M}:_DiscreteHMMLatentSequencePosterior.data_logpdf",
    ],
    # what must have been *compared* (not merely attempted) for the run to count as "held"
    "counters_required": [
        "data_logpdf_compared",
        "estimate_logpdf_sequences_compared",
        "sampler_weights_compared",
        "sampler_gtests",
    ],
    "assumptions": [
        "model = softmax of the rows of config.transition_tensor()/observation_tensor(), start row N//2 (the construction in discrete_hmm.py and its TFP HiddenMarkovModel formulation); the tensors themselves are taken from the public config methods",
        "float64 enumeration (cross-checked against a forward algorithm inside the reference) vs float32 library values at 2e-4 rel+abs scaled by sqrt(2T) terms",
        "G-test chi-square approximation with cells pooled to expected>=10; stage 1 p<1e-6, stage 2 (8x samples, independent keys) p<1e-9",
    ],
}

NS = [2, 3, 4, 5]
TRUNCS = [0, 1, 2]
VARS = [0.3, 1.0, 3.0]


def _mk_config(N, kt, ko, st, so):
    import jax.numpy as jnp
    from genjax import DiscreteHMMConfiguration

    return DiscreteHMMConfiguration(
        jnp.array(N, dtype=jnp.int32),
        jnp.array(kt, dtype=jnp.int32),
        jnp.array(ko, dtype=jnp.int32),
        jnp.array(st, dtype=jnp.float32),
        jnp.array(so, dtype=jnp.float32),
    )


def _keys(seed_int, n):
    import jax

    return jax.random.split(jax.random.key(int(seed_int) % (2**31 - 1)), n)


def _sym(h):
    return "symmetric-transition" if np.allclose(h.log_trans, h.log_trans.T, atol=1e-12) else "asymmetric-transition"


def _tcls(T):
    return "T=1" if T == 1 else "T>1"


class Case:
    def __init__(self, ctx, ci):
        rng = ctx.child_rng(37, ci)
        self.ci = ci
        self.rng = rng
        self.N = NS[ci % 4]
        self.T = 1 + (ci // 4) % 4
        self.kt = TRUNCS[(2 + ci // 16) % 3]
        self.ko = TRUNCS[int(rng.integers(3))]
        self.st = VARS[int(rng.integers(3))]
        self.so = VARS[int(rng.integers(3))]
        self.obs = [int(x) for x in rng.integers(0, self.N, size=self.T)]
        self.keyints = [int(x) for x in rng.integers(1, 2**30, size=16)]

    def desc(self):
        return {"N": self.N, "T": self.T, "trunc_trans": self.kt, "trunc_obs": self.ko,
                "var_trans": self.st, "var_obs": self.so, "obs": self.obs}

    def program(self):
        return (
            "import jax, jax.numpy as jnp\nfrom genjax import DiscreteHMM, DiscreteHMMConfiguration\n"
            f"cfg = DiscreteHMMConfiguration(jnp.array({self.N}), jnp.array({self.kt}), jnp.array({self.ko}), jnp.array({self.st}), jnp.array({self.so}))\n"
            f"obs = jnp.array({self.obs})\n"
        )


def _raises(ctx, case, op, on, mode, e):
    # one signature per (operation, exception mechanism); the calling mode goes to the counters/detail
    ctx.count(f"raises:{op}:{mode}")
    ctx.violation(
        f"C37|op={op}|on={on}|field=raises|cond={common.exc_mechanism(e)}",
        detail=f"[{mode}] {type(e).__name__}: {str(e)[:300]}", case=case.desc(), program=case.program(),
    )


class _LibRaise(Exception):
    """An exception that came out of a library call (as opposed to a bug in this check)."""

    def __init__(self, e):
        super().__init__(str(e))
        self.e = e


def _terms(T):
    return 2 * T + 1


# --------------------------------------------------------------------------------- monitors


def check_data(ctx, case, cfg, h, lm):
    import jax.numpy as jnp
    from genjax import DiscreteHMM

    obs = jnp.asarray(case.obs, dtype=jnp.int32)
    try:
        got = float(np.asarray(DiscreteHMM.data_logpdf(cfg, obs)))
    except Exception as e:
        _raises(ctx, case, "data_logpdf", "DiscreteHMM", "eager", e)
        return
    ctx.count("data_logpdf_compared")
    ctx.evaluation(fingerprint=("data", case.N, case.T, case.kt, case.ko, case.st, case.so), nontrivial=case.T >= 2)
    if not common.close(got, lm, terms=_terms(case.T)):
        ctx.violation(
            f"C37|op=data_logpdf|on=DiscreteHMM|field=value|cond=eager,{_sym(h)},{_tcls(case.T)}",
            detail=f"data_logpdf={got!r} exact log marginal={lm!r}", case=case.desc(), program=case.program(),
        )


def check_data_all_obs(ctx, case, cfg, h):
    """data_logpdf for every observation sequence (vmap over obs) + normalisation over them."""
    import jax
    import jax.numpy as jnp
    from genjax import DiscreteHMM

    if case.N ** case.T <= 256:
        allobs = h.sequences(case.T)
        try:
            gots = np.asarray(jax.vmap(lambda o: DiscreteHMM.data_logpdf(cfg, o))(jnp.asarray(allobs, dtype=jnp.int32)), dtype=np.float64)
        except Exception as e:
            _raises(ctx, case, "data_logpdf", "DiscreteHMM", "vmap-obs", e)
            return
        exact = np.asarray([h.forward(o)[1] for o in allobs])
        ctx.count("data_logpdf_all_obs_compared", len(allobs))
        ctx.evaluation(n=len(allobs))
        bad = [i for i in range(len(allobs)) if not common.close(gots[i], exact[i], terms=_terms(case.T))]
        if bad:
            i = bad[0]
            ctx.violation(
                f"C37|op=data_logpdf|on=DiscreteHMM|field=value|cond=vmap-obs,{_sym(h)},{_tcls(case.T)}",
                detail=f"{len(bad)}/{len(allobs)} observation sequences differ; obs={allobs[i].tolist()} got={gots[i]!r} exact={exact[i]!r}",
                case=case.desc(), program=case.program(),
            )
        from scipy.special import logsumexp

        tot = float(logsumexp(gots))
        ctx.count("data_normalisation_checks")
        if np.isfinite(tot) and abs(tot) > 2e-4 * np.sqrt(len(allobs)) + 1e-3:
            ctx.violation(
                f"C37|op=data_logpdf|on=DiscreteHMM|field=normalisation|cond=vmap-obs,{_sym(h)},{_tcls(case.T)}",
                detail=f"log sum over all observation sequences of exp(data_logpdf) = {tot!r}, expected 0",
                case=case.desc(), program=case.program(),
            )


def check_density(ctx, case, cfg, h, seqs, lp):
    import jax
    import jax.numpy as jnp
    from genjax import DiscreteHMM
    from scipy.special import logsumexp

    obs = jnp.asarray(case.obs, dtype=jnp.int32)
    key = jax.random.key(case.keyints[0])
    try:
        got = np.asarray(
            jax.vmap(lambda v: DiscreteHMM.estimate_logpdf(key, v, cfg, obs))(jnp.asarray(seqs, dtype=jnp.int32)),
            dtype=np.float64,
        )
    except Exception as e:
        _raises(ctx, case, "estimate_logpdf", "DiscreteHMM", "vmap-latents", e)
        got = None
    if got is not None:
        ctx.count("estimate_logpdf_sequences_compared", len(seqs))
        ctx.evaluation(fingerprint=("density", case.N, case.T, case.kt, case.ko, case.st, case.so), nontrivial=case.T >= 2, n=len(seqs))
        bad = [i for i in range(len(seqs)) if not common.close(got[i], lp[i], terms=_terms(case.T))]
        if bad:
            i = bad[0]
            ctx.violation(
                f"C37|op=estimate_logpdf|on=DiscreteHMM|field=value|cond=vmap-latents,{_sym(h)},{_tcls(case.T)}",
                detail=f"{len(bad)}/{len(seqs)} latent sequences differ; latents={seqs[i].tolist()} got={got[i]!r} exact log posterior={lp[i]!r}",
                case=case.desc(), program=case.program(),
            )
        tot = float(logsumexp(got)) if np.all(np.isfinite(got) | (got == -np.inf)) else float("nan")
        ctx.count("density_normalisation_checks")
        if np.isfinite(tot) and abs(tot) > 2e-4 * np.sqrt(len(seqs)) + 1e-3:
            ctx.violation(
                f"C37|op=estimate_logpdf|on=DiscreteHMM|field=normalisation|cond=vmap-latents,{_sym(h)},{_tcls(case.T)}",
                detail=f"log sum over all {len(seqs)} latent sequences of exp(estimate_logpdf) = {tot!r}, expected 0",
                case=case.desc(), program=case.program(),
            )


def check_density_eager(ctx, case, cfg, h, seqs, lp, picks):
    """plain (un-vmapped) single calls."""
    import jax
    import jax.numpy as jnp
    from genjax import DiscreteHMM

    obs = jnp.asarray(case.obs, dtype=jnp.int32)
    key = jax.random.key(case.keyints[1])
    for i in sorted(picks):
        try:
            g = float(np.asarray(DiscreteHMM.estimate_logpdf(key, jnp.asarray(seqs[i], dtype=jnp.int32), cfg, obs)))
        except Exception as e:
            _raises(ctx, case, "estimate_logpdf", "DiscreteHMM", "eager", e)
            break
        ctx.count("estimate_logpdf_eager_compared")
        ctx.evaluation()
        if not common.close(g, lp[i], terms=_terms(case.T)):
            ctx.violation(
                f"C37|op=estimate_logpdf|on=DiscreteHMM|field=value|cond=eager,{_sym(h)},{_tcls(case.T)}",
                detail=f"latents={seqs[i].tolist()} got={g!r} exact log posterior={lp[i]!r}",
                case=case.desc(), program=case.program(),
            )


def _support_problem(v, N, T, batch):
    v = np.asarray(v)
    want = (batch, T) if batch is not None else (T,)
    if v.shape != want:
        return f"shape {v.shape}, expected {want}"
    if v.dtype.kind not in "iu":
        return f"dtype {v.dtype}, expected an integer dtype"
    if v.size and (v.min() < 0 or v.max() >= N):
        return f"state outside [0,{N}): min {v.min()} max {v.max()}"
    return None


def _gtest_two_stage(ctx, case, h, lp, op, on, draw, n, mode):
    """draw(keyint, n) -> (n,T) int sequences or raises. Returns after recording."""
    probs = np.exp(lp)
    v = draw(case.keyints[3], n)
    prob = _support_problem(v, case.N, case.T, n)
    if prob:
        if op == "ffbs":  # internal function: an unexpected return convention is not a C37 violation
            ctx.count("ffbs_direct_convention_unknown")
            return
        ctx.violation(f"C37|op={op}|on={on}|field=support|cond={mode}", detail=prob, case=case.desc(), program=case.program())
        return
    counts = np.bincount(h.seq_index(v), minlength=len(lp))
    g1 = hmm_ref.gtest(counts, probs)
    ctx.count("sampler_gtests" if op == "random_weighted" else "ffbs_gtests")
    ctx.count(f"gtest_cells:{op}", g1["cells"])
    ctx.evaluation(fingerprint=("gtest", op, case.N, case.T, case.kt, case.ko, case.st, case.so), nontrivial=case.T >= 2)
    if g1["impossible"]:
        ctx.violation(f"C37|op={op}|on={on}|field=distribution|cond={mode},impossible-outcome", detail="a latent sequence of exact posterior probability 0 was returned", case=case.desc(), program=case.program())
        return
    if g1["p"] >= 1e-6:
        return
    ctx.count("gtest_stage1_flags")
    v2 = draw(case.keyints[4], 8 * n)
    counts2 = np.bincount(h.seq_index(v2), minlength=len(lp))
    g2 = hmm_ref.gtest(counts2, probs)
    if g2["p"] < 1e-9:
        top = np.argsort(-probs)[:4]
        ctx.violation(
            f"C37|op={op}|on={on}|field=distribution|cond={mode},{_sym(h)},{_tcls(case.T)}",
            detail=f"G-test stage1 p={g1['p']:.3g} (n={n}, {g1['cells']} cells) stage2 p={g2['p']:.3g} (n={8*n}, G={g2['G']:.1f}, dof={g2['dof']}); most probable sequences {[h.sequences(case.T)[i].tolist() for i in top]} exact probs {[round(float(probs[i]),4) for i in top]} observed freqs {[round(float(counts2[i])/(8*n),4) for i in top]}",
            case=case.desc(), program=case.program(),
        )
    elif g2["p"] < 1e-3:
        ctx.count("grey")
        ctx.note(f"grey-band G-test: op={op} case={case.desc()} p1={g1['p']:.3g} p2={g2['p']:.3g}")
    else:
        ctx.count("gtest_stage2_cleared")


def check_sampler(ctx, case, cfg, h, seqs, lp, n):
    import jax
    import jax.numpy as jnp
    from genjax import DiscreteHMM

    obs = jnp.asarray(case.obs, dtype=jnp.int32)

    def weights_ok(w, v, mode):
        _weights_ok(ctx, case, h, lp, w, v, mode)

    def draw(keyint, m):
        try:
            w, v = jax.vmap(lambda k: DiscreteHMM.random_weighted(k, cfg, obs))(_keys(keyint, m))
        except Exception as e:
            raise _LibRaise(e)
        v = np.asarray(v)
        if _support_problem(v, case.N, case.T, m) is None:
            weights_ok(w, v, "vmap-keys")
        return v

    try:
        _gtest_two_stage(ctx, case, h, lp, "random_weighted", "DiscreteHMM", draw, n, "vmap-keys")
    except _LibRaise as lr:
        _raises(ctx, case, "random_weighted", "DiscreteHMM", "vmap-keys", lr.e)


def _weights_ok(ctx, case, h, lp, w, v, mode):
    w = np.asarray(w, dtype=np.float64).reshape(-1)
    v = np.asarray(v).reshape(len(w), -1)
    exact = lp[h.seq_index(v)]
    ctx.count("sampler_weights_compared", len(w))
    ctx.count(f"sampler_weights_compared:{mode}", len(w))
    ctx.evaluation(n=len(w))
    bad = [i for i in range(len(w)) if not common.close(w[i], exact[i], terms=_terms(case.T))]
    if bad:
        i = bad[0]
        ctx.violation(
            f"C37|op=random_weighted|on=DiscreteHMM|field=weight|cond={mode},{_sym(h)},{_tcls(case.T)}",
            detail=f"{len(bad)}/{len(w)} returned weights differ from the exact log posterior of the returned sequence; latents={v[i].tolist()} weight={w[i]!r} exact={exact[i]!r}",
            case=case.desc(), program=case.program(),
        )


def check_sampler_eager(ctx, case, cfg, h, lp):
    """single-key eager call + through the generative-function interface (simulate)."""
    import jax
    import jax.numpy as jnp
    from genjax import DiscreteHMM

    obs = jnp.asarray(case.obs, dtype=jnp.int32)

    def weights_ok(w, v, mode):
        _weights_ok(ctx, case, h, lp, w, v, mode)

    try:
        w, v = DiscreteHMM.random_weighted(jax.random.key(case.keyints[5]), cfg, obs)
        prob = _support_problem(v, case.N, case.T, None)
        if prob:
            ctx.violation("C37|op=random_weighted|on=DiscreteHMM|field=support|cond=eager", detail=prob, case=case.desc(), program=case.program())
        else:
            ctx.count("sampler_eager_calls")
            weights_ok(w, v, "eager")
    except Exception as e:
        _raises(ctx, case, "random_weighted", "DiscreteHMM", "eager", e)
        return  # simulate is the same path
    try:
        tr = DiscreteHMM.simulate(jax.random.key(case.keyints[6]), (cfg, obs))
        v = np.asarray(tr.get_retval())
        prob = _support_problem(v, case.N, case.T, None)
        if prob:
            ctx.violation("C37|op=simulate|on=DiscreteHMM|field=support|cond=eager", detail=prob, case=case.desc(), program=case.program())
        else:
            ctx.count("simulate_calls")
            weights_ok(tr.get_score(), v, "simulate")
    except Exception as e:
        _raises(ctx, case, "simulate", "DiscreteHMM", "eager", e)


def check_ffbs_direct(ctx, case, cfg, h, lp, n):
    """The anchored mechanism called directly. It is internal: if it is gone or has another
    calling convention the arm is skipped (counted), it never turns that into a violation."""
    import jax
    import jax.numpy as jnp

    try:
        from genjax._src.generative_functions.distributions.custom.discrete_hmm import forward_filtering_backward_sampling as ffbs
    except Exception:
        ctx.count("ffbs_direct_unavailable")
        return
    obs = jnp.asarray(case.obs, dtype=jnp.int32)
    filt_ref, _ = h.forward(case.obs)
    state = {"filters_done": False}

    def draw(keyint, m):
        try:
            out = jax.vmap(lambda k: ffbs(k, cfg, obs))(_keys(keyint, m))
            _, (s, ff) = out
        except Exception as e:
            raise _LibRaise(e)
        if not state["filters_done"]:
            state["filters_done"] = True
            ff0 = np.asarray(ff, dtype=np.float64)[0]
            if ff0.shape == filt_ref.shape:
                ctx.count("ffbs_forward_filters_compared", case.T)
                ctx.evaluation(n=case.T)
                # compare as probabilities as well as logs: tiny probabilities have huge logs
                okl = common.close(ff0, filt_ref, terms=_terms(case.T))
                okp = bool(np.all(np.abs(np.exp(ff0) - np.exp(filt_ref)) <= 2e-4))
                if not (okl or okp):
                    t = int(np.argmax(np.max(np.abs(np.exp(ff0) - np.exp(filt_ref)), axis=1)))
                    ctx.violation(
                        f"C37|op=ffbs|on=forward_filtering_backward_sampling|field=forward_filter|cond={_sym(h)},{_tcls(case.T)}",
                        detail=f"forward filter at step {t}: got probs {np.round(np.exp(ff0[t]),4).tolist()} exact p(x_t|y_1..t) {np.round(np.exp(filt_ref[t]),4).tolist()}",
                        case=case.desc(), program=case.program(),
                    )
            else:
                ctx.count("ffbs_direct_filters_shape_unknown")
        return np.asarray(s)

    try:
        _gtest_two_stage(ctx, case, h, lp, "ffbs", "forward_filtering_backward_sampling", draw, n, "vmap-keys")
    except _LibRaise as lr:
        ctx.count("ffbs_direct_raises")
        ctx.note(f"direct ffbs arm raised {common.exc_mechanism(lr.e)}: {str(lr.e)[:200]}")


def observe_jit(ctx, case, cfg):
    """Observation only: can the methods be staged with jax.jit at all?"""
    import jax
    import jax.numpy as jnp
    from genjax import DiscreteHMM

    obs = jnp.asarray(case.obs, dtype=jnp.int32)
    try:
        jax.jit(lambda k: DiscreteHMM.random_weighted(k, cfg, obs))(jax.random.key(1))
        ctx.count("jit_random_weighted_ran")
    except Exception as e:
        ctx.reject(f"jit:random_weighted:{common.exc_mechanism(e)}")


# --------------------------------------------------------------------------------- driver


def run(ctx):
    common.import_repo()
    if not hmm_ref.self_check(ctx.child_rng(1), 10):
        raise RuntimeError("reference self-check failed (enumeration vs forward algorithm)")
    ctx.count("reference_self_checks")
    n_cases = ctx.pick(48, 480)
    n_samp = ctx.pick(5000, 50000)
    # a new case / an optional arm is started only while elapsed < soft: a slow machine loses
    # coverage (counted), never correctness.  The first case's core arms always run.
    soft = ctx.pick(50.0, 700.0)
    done = 0
    for ci in ctx.my_share(n_cases):
        if done >= 1 and ctx.elapsed() > soft:
            ctx.count("cases_skipped_budget")
            continue
        case = Case(ctx, ci)
        try:
            cfg = _mk_config(case.N, case.kt, case.ko, case.st, case.so)
            tt = np.asarray(cfg.transition_tensor(), dtype=np.float64)
            ot = np.asarray(cfg.observation_tensor(), dtype=np.float64)
        except Exception as e:
            _raises(ctx, case, "configure", "DiscreteHMMConfiguration", "eager", e)
            continue
        if tt.shape != (case.N, case.N) or ot.shape != (case.N, case.N):
            ctx.violation("C37|op=configure|on=DiscreteHMMConfiguration|field=tensor-shape|cond=any", detail=f"{tt.shape} {ot.shape} for N={case.N}", case=case.desc())
            continue
        h = hmm_ref.HMM(tt, ot)
        if not h.finite():
            ctx.count("cases_skipped_nonfinite_model")
            continue
        seqs, lp, lm = h.enumerate(case.obs)
        ctx.count("cases")
        ctx.count(f"cases:{_sym(h)},{_tcls(case.T)}")
        ctx.count(f"cases:N={case.N}")
        ctx.count(f"cases:trunc_trans={case.kt}")
        ctx.sample({"case": case.desc(), "sequences_enumerated": int(len(seqs)), "exact_log_marginal": lm, "transition": _sym(h)}, limit=2)
        # core arms
        check_density(ctx, case, cfg, h, seqs, lp)
        check_sampler(ctx, case, cfg, h, seqs, lp, n_samp)
        check_data(ctx, case, cfg, h, lm)
        check_ffbs_direct(ctx, case, cfg, h, lp, n_samp)
        # optional arms (other calling modes of the same methods)
        opt = [
            ("density_eager", lambda: check_density_eager(ctx, case, cfg, h, seqs, lp, {int(case.rng.integers(len(seqs)))})),
            ("sampler_eager", lambda: check_sampler_eager(ctx, case, cfg, h, lp)),
            ("data_all_obs", lambda: check_data_all_obs(ctx, case, cfg, h)),
        ]
        for name, f in opt:
            if ctx.elapsed() > soft:
                ctx.count(f"optional_arm_skipped_budget:{name}")
                continue
            f()
        if done == 0:
            observe_jit(ctx, case, cfg)
        done += 1
    if ctx.counters.get("grey", 0) > 0:
        # a statistical cell landed in the grey band: the run must not be reported as held
        raise RuntimeError("grey-band statistical result: run is inconclusive")
