"""C06 — backward requests undo edits exactly.

For every accepted edit (Update, Regenerate, IndexRequest, StaticRequest) the returned backward
request is applied to the new trace with the original argument values; it must succeed, restore
the original choices / score / return value and have weight = -forward weight."""

from vf.prog import gen
from vf.props import _drive

A = "genjax._src.generative_functions"
CONFIG = {
    "level": "exploration",
    "shards": {"quick": 16, "thorough": 16},
    "timeout_s": {"quick": 900, "thorough": 5400},
    "rule": 'case = generated program + trace + chain of edits (Update with all constraint shapes and argument changes, Regenerate with selections, IndexRequest(i, Update|Regenerate) at first/middle/last, StaticRequest with mixed sub-requests); after each edit the backward request is applied to the new trace. non-trivial: the request reaches a combinator-nested address; distinct by (AST shape, op sequence).',
    "reach_anchors": ['genjax._src.generative_functions.static:StaticGenerativeFunction.edit_update', 'genjax._src.generative_functions.static:StaticGenerativeFunction.edit_regenerate', 'genjax._src.generative_functions.static:StaticGenerativeFunction.edit_static_edit_request', 'genjax._src.generative_functions.combinators.switch:Switch.edit', 'genjax._src.generative_functions.combinators.scan:Scan.edit_update', 'genjax._src.generative_functions.combinators.scan:Scan.edit_index', 'genjax._src.generative_functions.combinators.mask:MaskCombinator.edit', 'genjax._src.generative_functions.combinators.vmap:Vmap.edit_index', 'genjax._src.generative_functions.combinators.vmap:Vmap.edit_choice_map'],
    "reach_required": ['genjax._src.generative_functions.static:StaticGenerativeFunction.edit_update', 'genjax._src.generative_functions.static:StaticGenerativeFunction.edit_regenerate', 'genjax._src.generative_functions.static:StaticGenerativeFunction.edit_static_edit_request', 'genjax._src.generative_functions.combinators.switch:Switch.edit', 'genjax._src.generative_functions.combinators.scan:Scan.edit_update', 'genjax._src.generative_functions.combinators.scan:Scan.edit_index', 'genjax._src.generative_functions.combinators.mask:MaskCombinator.edit', 'genjax._src.generative_functions.combinators.vmap:Vmap.edit_index', 'genjax._src.generative_functions.combinators.vmap:Vmap.edit_choice_map'],
    "counters_required": ['bwd_checks'],
    "assumptions": [
        "reference interpreter vf/prog/ast.py transcribes the documented combinator semantics; scipy float64 densities",
        "float32 tolerance 2e-4 (relative+absolute) scaled by sqrt(#terms)",
        "programs from the bounded grammar (depth<=2 quick, <=3 thorough; sizes<=3/5); values read through public choice-map lookups",
    ],
}

def cfg_fn(rng, ctx):
    depth = int(rng.choice([1, 2, 2])) if ctx.quick() else int(rng.choice([1, 2, 2, 3]))
    r = rng.random()
    root = None
    if r < 0.25:
        root = ["Vmap", "Repeat", "Scan", "Accumulate", "Iterate"]
    elif r < 0.45:
        root = "Static"
    return gen.Cfg(depth=depth, root=root)


def nontrivial(case, hist):
    return any("apply-backward" in h for h in hist) and any(k not in ("Dist", "Static") for k in case.kinds)


def cond_fn(case, hist, op, issue):
    conds = [issue.cond] if issue.cond else []
    for k in ("Scan", "Switch", "Mask"):
        fam = {"Scan": {"Scan", "Accumulate", "Reduce", "Iterate", "IterateFinal", "MaskedIterateFinal", "MaskedIterate"}, "Switch": {"Switch", "OrElse", "Mix"}, "Mask": {"Mask", "MaskedIterateFinal", "MaskedIterate"}}[k]
        if fam & case.kinds:
            conds.append("has-" + k.lower())
    return ",".join(conds)


PLAN = _drive.Plan(
    "C06", cfg_fn,
    clauses={"bwd.*"},
    ops={"update": 3, "regenerate": 2, "index_edit": 2, "static_request": 2},
    n_cases=(400, 3000), n_ops=(2, 5), nontrivial=nontrivial,
    always=("bwd",), cond_fn=cond_fn,
    exc_is_violation=False,
)



def sig_fn(case, hist, op, issue, sig):
    # one mechanism, one signature: Scan.edit_regenerate returns a VectorRequest that no
    # edit implementation accepts, whatever program the scan sits in
    if issue.clause == "bwd.apply" and "NotImplementedError@scan.py:edit" in issue.detail:
        return "C06|op=bwd:regenerate|on=Scan|field=bwd.apply|cond=VectorRequest-not-accepted-by-Scan.edit"
    return None


PLAN.sig_fn = sig_fn


def run(ctx):
    _drive.run(ctx, PLAN)
