"""C31 — the time-travel debugger records and replays executions faithfully.

Workload: random JAX functions (vf/gen/c31_prog.py) with 0-5 record points: `rec(callee, tag)`
and `tag(v, name)`, tagged / untagged, nested (record points inside recorded callees and in
the argument expressions of recorded calls), under arithmetic, feeding `lax.cond` / `where`
(record points outside the branches), pytree arguments / return values, python-constant
arguments, int and vector arguments, the same callee recorded at two call sites.

Oracle: vf/ref/c31_ref.py, a plain numpy evaluator of the same AST that logs every record
point (tag, args, local return value) in call order and supports "override the arguments of
call k and recompute from there".  Plus a differential run of the undecorated function.

Monitors
* time_machine(f)(*args): final_retval == f(*args) (real jax) == reference; one frame per
  recorded call, in order, with that call's args and local return value; frame 0 is the whole
  function (tag "_enter"), the last frame the final value (tag "exit"); ptr == 0; jump_points
  name the tagged frames.
* random walks (3..10 operations) over fwd / bwd / jump(tag) / remix(new args), after every
  operation: 0 <= ptr < len(sequence); fwd / bwd move by one and stay at the ends; jump lands on
  the frame carrying the tag; frame() / summary() report the frame at ptr; operations do not
  mutate the debugger they were called on.
* remix(new_args) at frame k: final_retval and every frame >= k equal the reference re-run of
  the function in which call k's arguments are replaced (overrides applied earlier in the walk
  at frames < k stay in force, the ones at frames > k are recomputed); frames < k keep their
  arguments (their local return value may be either unchanged or refreshed — the statement
  does not say); ptr and the number of frames are unchanged.

Arms: plain; partial (callee closes over locals through `Pytree.partial`, the documented
closure mechanism); pyclosure (callee is a python closure over a local value — see
notes/C31_findings.md, F1); hidden (a record point inside a lax.cond branch or a jitted
sub-function: only final_retval and "does not raise" are judged, and no walk is made).
"""

from __future__ import annotations

import os

import numpy as np

from vf import common
from vf.gen import c31_prog as G
from vf.ref import c31_ref as R

M = "genjax._src.core.compiler.interpreters.time_travel"
_ANCH = [
    f"{M}:time_machine",
    f"{M}:_record",
    f"{M}:TimeTravelCPSInterpreter.eval_jaxpr_time_travel",
    f"{M}:RecordPoint.handle",
    f"{M}:TimeTravelingDebugger.remix",
    f"{M}:TimeTravelingDebugger.fwd",
    f"{M}:TimeTravelingDebugger.bwd",
    f"{M}:TimeTravelingDebugger.jump",
    f"{M}:TimeTravelingDebugger.frame",
    f"{M}:TimeTravelingDebugger.summary",
]
CONFIG = {
    "level": "exploration",
    "shards": {"quick": 16, "thorough": 16},
    "timeout_s": {"quick": 600, "thorough": 3000},
    "rule": "random functions from the C31 grammar (0-5 record points: rec/tag, tagged/untagged, nested in callee bodies and in call arguments, under arithmetic, feeding lax.cond/where outside the branches, pytree args/returns, shared callees, int/vector args) x random walks of 3..10 debugger operations (fwd/bwd/jump/remix). Every debugger state is compared with the numpy reference evaluator (call log + argument override). A case is non-trivial when the function has >= 1 record point; distinct by (arm, operation, #record points, structural features, position class of the frame operated on).",
    "reach_anchors": _ANCH,
    "reach_required": _ANCH,
    "counters_required": [
        "tm_checked",
        "frames_checked",
        "op_fwd",
        "op_bwd",
        "op_jump",
        "op_remix",
        "remix_tail_frames_checked",
        "remix_at_nested_inner",
        "remix_at_outer_with_nested",
        "remix_after_remix",
        "fwd_at_end",
        "bwd_at_start",
        "cases_with_nested_record_points",
        "arm_plain_cases",
        "arm_partial_cases",
    ],
    "assumptions": [
        "jax eager evaluation of the undecorated function is the trusted base for final_retval (differential) and agrees with the numpy reference (cases where it does not are skipped and counted)",
        "float32 vs float64: vf.common.close with terms=16; runs with a branch predicate near its threshold or intermediates above 200 are skipped (counted as skipped_fragile)",
        "frames before the remixed frame: only their arguments are required to be unchanged",
    ],
}

ARMS = ["plain", "partial", "pyclosure", "hidden"]
ARM_SCHEDULE = ["plain", "partial", "plain", "hidden", "plain", "plain", "partial", "plain", "pyclosure", "plain",
                "plain", "partial", "plain", "hidden", "plain", "plain", "partial", "plain", "partial", "plain"]


def _sig(op, arm, field, cond):
    return f"C31|op={op}|on={arm}|field={field}|cond={cond}"


def _pos_class(log, k):
    n = len(log)
    if k == 0:
        return "enter"
    if k == n - 1:
        return "exit"
    if log[k]["size"] > 1:
        return "outer-with-nested"
    if log[k]["depth"] >= 2:
        return "nested-inner"
    return "leaf"


def _np_tree(v):
    if isinstance(v, (tuple, list)):
        return tuple(_np_tree(x) for x in v)
    if isinstance(v, dict):
        return {k: _np_tree(x) for k, x in v.items()}
    return np.asarray(v)


def _same_tree(a, b):
    """Exact equality of two actual value structures."""
    if isinstance(a, (tuple, list)):
        return isinstance(b, (tuple, list)) and len(a) == len(b) and all(_same_tree(x, y) for x, y in zip(a, b))
    if isinstance(a, dict):
        return isinstance(b, dict) and sorted(a) == sorted(b) and all(_same_tree(a[k], b[k]) for k in a)
    try:
        x, y = np.asarray(a), np.asarray(b)
        return x.shape == y.shape and bool(np.array_equal(x, y))
    except Exception:
        return False


def _vectorise_one_leaf(rng, v):
    """Replace one scalar float leaf of an argument structure by a length-3 vector. -> (new, changed)"""
    paths = []

    def walk(x, path):
        if isinstance(x, tuple):
            for i, y in enumerate(x):
                walk(y, path + (i,))
        elif isinstance(x, dict):
            for kk in x:
                walk(x[kk], path + (kk,))
        else:
            a = np.asarray(x)
            if a.shape == () and a.dtype.kind == "f":
                paths.append(path)

    walk(v, ())
    if not paths:
        return v, False
    tgt = paths[int(rng.integers(len(paths)))]

    def rebuild(x, path):
        if path == tgt:
            return G.rand_like(rng, "f", (3,))
        if isinstance(x, tuple):
            return tuple(rebuild(y, path + (i,)) for i, y in enumerate(x))
        if isinstance(x, dict):
            return {kk: rebuild(x[kk], path + (kk,)) for kk in x}
        return x

    return rebuild(v, ()), True


class Case:
    def __init__(self, ctx, ci, arm, prog, inputs):
        self.ctx, self.ci, self.arm, self.prog, self.inputs = ctx, ci, arm, prog, inputs
        self.src = G.to_source(prog)
        self.feat = tuple(prog["features"])
        self.history = []
        self.mute = False  # observation-only mode (remix with arguments of a different shape)
        self.muted = []

    def viol(self, op, field, cond, detail, **kw):
        if self.mute:
            self.muted.append(f"{op}/{field}/{cond}: {detail[:200]}")
            return
        self.ctx.violation(
            _sig(op, self.arm, field, cond),
            detail=detail,
            program=self.src,
            inputs=R.to_jsonable(R.norm(self.inputs)),
            history=list(self.history),
            case=self.ci,
            **kw,
        )

    def ev(self, op, pos):
        self.ctx.evaluation(fingerprint=(self.arm, op, self.prog["nrec"], self.feat, pos), nontrivial=self.prog["nrec"] >= 1)


def check_frames(case, op, cond, dbg, log, lo, hi):
    """Frames lo..hi-1 of the debugger against the reference log. -> ok"""
    ctx = case.ctx
    ok_all = True
    for j in range(lo, hi):
        fr = dbg.sequence[j]
        exp = log[j]
        ctx.count("frames_observed_unjudged" if case.mute else "frames_checked")
        if not isinstance(fr.args, tuple):
            case.viol(op, "frame.args", cond + ",not-a-tuple", f"frame {j}: args is {type(fr.args).__name__}")
            ok_all = False
            continue
        ok, why = R.leaves_close(fr.args, exp["args"], common.close)
        if not ok:
            case.viol(op, "frame.args", f"{cond},{why}", f"frame {j} (tag {exp['tag']!r}, depth {exp['depth']}): args {common.short(_np_tree(fr.args))} expected {common.short(exp['args'])}", frame=j)
            ok_all = False
        ok, why = R.leaves_close(fr.local_retval, exp["ret"], common.close)
        if not ok:
            case.viol(op, "frame.local_retval", f"{cond},{why}", f"frame {j} (tag {exp['tag']!r}, depth {exp['depth']}): local_retval {common.short(_np_tree(fr.local_retval))} expected {common.short(exp['ret'])}", frame=j)
            ok_all = False
    return ok_all


def check_cursor(case, op, cond, dbg, exp_ptr, log, duptags):
    """ptr / frame() / summary() of a debugger state."""
    ctx = case.ctx
    n = len(dbg.sequence)
    ok = True
    if not (isinstance(dbg.ptr, int) and 0 <= dbg.ptr < n):
        case.viol(op, "ptr", cond + ",out-of-range", f"ptr={dbg.ptr} with {n} frames")
        return False
    if exp_ptr is not None and dbg.ptr != exp_ptr:
        case.viol(op, "ptr", cond + ",wrong-frame", f"ptr={dbg.ptr}, expected {exp_ptr} ({n} frames)")
        ok = False
    try:
        t, fr = dbg.frame()
        fin, (t2, fr2) = dbg.summary()
    except Exception as e:
        case.viol(op, "raises", f"{cond},frame,{common.exc_mechanism(e)}", f"frame()/summary() raised {type(e).__name__}: {e}")
        return False
    ctx.count("frame_calls")
    if fr is not dbg.sequence[dbg.ptr] or fr2 is not dbg.sequence[dbg.ptr]:
        case.viol("frame", "frame", "not-frame-at-ptr", f"after {op} ({cond}): frame()/summary() do not return sequence[{dbg.ptr}]")
        ok = False
    if fin is not dbg.final_retval:
        case.viol("frame", "summary.final_retval", "not-final-retval", f"after {op} ({cond}): summary()[0] is not final_retval")
        ok = False
    exp_tag = log[dbg.ptr]["tag"] if dbg.ptr < len(log) else None
    if exp_tag not in duptags:
        ctx.count("frame_tag_checked")
        if t != exp_tag or t2 != exp_tag:
            case.viol("frame", "tag", "untagged-frame" if exp_tag is None else "tagged-frame", f"after {op} ({cond}): frame() at ptr {dbg.ptr} reports tag {t!r}/{t2!r}, the record point's tag is {exp_tag!r}")
            ok = False
    return ok


def check_jump_points(case, op, cond, dbg, log, duptags):
    exp = {}
    for j, ent in enumerate(log):
        if ent["tag"]:
            exp.setdefault(ent["tag"], []).append(j)
    jp = dict(dbg.jump_points)
    ok = True
    if sorted(jp) != sorted(exp):
        case.viol(op, "jump_points", cond + ",tag-set", f"jump_points {jp} vs tagged record points {exp}")
        return False
    for t, idxs in exp.items():
        if jp[t] not in idxs:
            case.viol(op, "jump_points", cond + ",wrong-frame", f"jump_points[{t!r}]={jp[t]} but that tag was recorded at frame(s) {idxs}")
            ok = False
    return ok


def run_case(ctx, ci, arm):
    import jax  # noqa: F401
    from genjax.time_travel import time_machine

    rng = ctx.child_rng(ARMS.index(arm) + 1, ci)
    duptag = arm == "plain" and rng.random() < 0.12
    # number of record points: 0..5, weighted towards 2-4
    nrec = int(rng.choice([0, 1, 2, 3, 4, 5], p=[0.06, 0.14, 0.24, 0.24, 0.18, 0.14]))
    if arm in ("partial", "pyclosure"):
        nrec = max(nrec, 1)
    prog = G.Gen(rng, arm=arm, nrec=nrec, duptag=duptag).program()
    if arm in ("partial", "pyclosure") and arm not in prog["features"]:
        arm = "plain"  # nothing was captured
        prog["arm"] = arm
    # inputs on which the reference run is robust
    ref = None
    for _ in range(6):
        inputs = G.gen_inputs(rng, prog)
        try:
            r = R.run_program(prog, inputs)
        except R.Fragile:
            continue
        if r.fragile is None:
            ref = r
            break
    if ref is None:
        ctx.count("skipped_fragile_case")
        return
    case = Case(ctx, ci, arm, prog, inputs)
    log = ref.log
    n = len(log)
    f = G.build_jax(prog)
    jargs = G.to_jax_args(inputs)
    ctx.count(f"arm_{arm}_cases")
    ctx.count(f"nrec_{prog['nrec']}_cases")
    for ft in prog["features"]:
        ctx.count("feature_" + ft)

    # ---- differential base: the undecorated function, run by jax itself
    try:
        direct = f(*jargs)
    except Exception as e:
        ctx.count("skipped_direct_call_raised")
        ctx.note(f"direct call raised {type(e).__name__}: {str(e)[:200]}\n{case.src}")
        return
    ok, why = R.leaves_close(direct, ref.final, common.close)
    if not ok:
        ctx.count("skipped_oracle_disagreement")
        ctx.note(f"reference evaluator != direct jax call ({why}); case skipped\n{case.src}\ninputs={R.to_jsonable(R.norm(inputs))}")
        return

    # ---- time_machine
    case.history.append("time_machine")
    try:
        dbg = time_machine(f)(*jargs)
    except Exception as e:
        on = "rec-python-closure" if arm == "pyclosure" else arm
        ctx.count("tm_raised")
        # F1 (notes/C31_findings.md): the leaked tracer surfaces wherever the captured value is
        # first used, so the location is not part of that mechanism's signature
        mech = "UnexpectedTracerError" if (arm == "pyclosure" and type(e).__name__ == "UnexpectedTracerError") else common.exc_mechanism(e)
        ctx.violation(
            f"C31|op=time_machine|on={on}|field=raises|cond={mech}",
            detail=f"time_machine(f)(*args) raised {type(e).__name__}: {str(e)[:300]} — f(*args) itself runs fine",
            program=case.src, inputs=R.to_jsonable(R.norm(inputs)), case=ci,
        )
        case.ev("time_machine", "raises")
        return
    ctx.count("tm_checked")
    case.ev("time_machine", "initial")
    ok, why = R.leaves_close(dbg.final_retval, ref.final, common.close)
    ok2, why2 = R.leaves_close(dbg.final_retval, _np_tree(direct), common.close)
    if not (ok and ok2):
        case.viol("time_machine", "final_retval", why or why2, f"final_retval {common.short(_np_tree(dbg.final_retval))}, f(*args) = {common.short(_np_tree(direct))}, reference {common.short(ref.final)}")
    if arm == "hidden":
        ctx.count("hidden_final_checked")
        if len(dbg.sequence) >= 1 and not (0 <= dbg.ptr < len(dbg.sequence)):
            case.viol("time_machine", "ptr", "initial,out-of-range", f"ptr={dbg.ptr}")
        return
    if len(dbg.sequence) != n:
        case.viol("time_machine", "frame-count", "more" if len(dbg.sequence) > n else "fewer", f"{len(dbg.sequence)} frames for {n} record points (incl. _enter/exit)")
        return
    duptags = {t for t in set(e["tag"] for e in log) if t and sum(1 for e in log if e["tag"] == t) > 1}
    check_frames(case, "time_machine", "initial", dbg, log, 0, n)
    check_cursor(case, "time_machine", "initial", dbg, 0, log, duptags)
    check_jump_points(case, "time_machine", "initial", dbg, log, duptags)
    if n > 2:
        ctx.count("rebind_observed")  # frames beyond _enter exist only through the continuation/rebind arm
    if any(e["depth"] >= 2 for e in log):
        ctx.count("cases_with_nested_record_points")
    ctx.sample({"arm": arm, "program": case.src, "inputs": R.to_jsonable(R.norm(inputs)), "frames": [{"tag": e["tag"], "depth": e["depth"], "args": R.to_jsonable(e["args"]), "ret": R.to_jsonable(e["ret"])} for e in log], "final": R.to_jsonable(ref.final)}, limit=2)

    # ---- random walk
    overrides = {}
    tags_all = [e["tag"] for e in log if e["tag"]]
    steps = int(rng.integers(3, 11))
    remixes = 0
    last_remix = None
    queue = []
    for _ in range(steps):
        u = rng.random()
        old_ptr, old_final, old_len = dbg.ptr, dbg.final_retval, len(dbg.sequence)
        if queue:
            op = queue.pop(0)
        elif u < 0.20:
            op = "fwd"
        elif u < 0.36:
            op = "bwd"
        elif u < 0.56 and tags_all:
            op = "jump"
        else:
            op = "remix" if remixes < 5 else "fwd"
            if op == "remix" and rng.random() < 0.6:
                # walk (at most 3 steps) towards a uniformly chosen frame first, so that remixes
                # are spread over the recording instead of piling up at frame 0
                d = int(rng.integers(0, n)) - dbg.ptr
                queue = (["fwd"] * min(d, 3) if d > 0 else ["bwd"] * min(-d, 3)) + ["remix"]
                op = queue.pop(0)
        if op in ("fwd", "bwd"):
            case.history.append(op)
            try:
                new = getattr(dbg, op)()
            except Exception as e:
                case.viol(op, "raises", common.exc_mechanism(e), f"{op}() at ptr {dbg.ptr} raised {type(e).__name__}: {e}")
                return
            at_edge = (op == "fwd" and old_ptr == n - 1) or (op == "bwd" and old_ptr == 0)
            exp_ptr = old_ptr if at_edge else old_ptr + (1 if op == "fwd" else -1)
            cond = ("at-last-frame" if op == "fwd" else "at-first-frame") if at_edge else "interior"
            ctx.count("op_" + op)
            if at_edge:
                ctx.count("fwd_at_end" if op == "fwd" else "bwd_at_start")
            case.ev(op, cond)
            if len(new.sequence) != old_len:
                case.viol(op, "frame-count", cond, f"{len(new.sequence)} frames after {op}, {old_len} before")
                return
            # at the ends the statement only requires staying inside the recording
            if not check_cursor(case, op, cond, new, None if at_edge else exp_ptr, log, duptags):
                return
            if at_edge and new.ptr != old_ptr:
                ctx.count("edge_moved")  # allowed by the statement, recorded in the evidence
            if new.final_retval is not old_final and not _same_tree(new.final_retval, old_final):
                case.viol(op, "final_retval", cond + ",changed", f"{op} changed final_retval")
        elif op == "jump":
            t = tags_all[int(rng.integers(len(tags_all)))]
            case.history.append(f"jump({t!r})")
            try:
                new = dbg.jump(t)
            except Exception as e:
                case.viol("jump", "raises", common.exc_mechanism(e), f"jump({t!r}) raised {type(e).__name__}: {e}")
                return
            ctx.count("op_jump")
            where = [j for j, e in enumerate(log) if e["tag"] == t]
            cond = "dup-tag" if len(where) > 1 else ("to-enter" if where[0] == 0 else ("to-exit" if where[0] == n - 1 else "to-inner"))
            case.ev("jump", cond)
            if len(new.sequence) != old_len:
                case.viol("jump", "frame-count", cond, f"{len(new.sequence)} frames after jump, {old_len} before")
                return
            if not (isinstance(new.ptr, int) and 0 <= new.ptr < old_len):
                case.viol("jump", "ptr", cond + ",out-of-range", f"jump({t!r}) -> ptr {new.ptr} with {old_len} frames")
                return
            if new.ptr not in where:
                case.viol("jump", "ptr", cond + ",wrong-frame", f"jump({t!r}) -> ptr {new.ptr}; the tag was recorded at frame(s) {where}")
                return
            check_cursor(case, "jump", cond, new, None, log, duptags)
        else:
            k = dbg.ptr
            pos = _pos_class(log, k)
            # the current (reference) arguments of call k
            cur = R.run_program(prog, inputs, overrides) if overrides else ref
            new_ref = None
            reshaped = False
            for _try in range(5):
                cand = G.rand_like_struct(rng, cur.log[k]["args"])
                resh = False
                if _try < 2 and rng.random() < 0.12:
                    # hostile variant: one scalar float argument becomes a vector
                    cand, resh = _vectorise_one_leaf(rng, cand)
                o2 = {j: a for j, a in overrides.items() if j < k}
                o2[k] = cand
                try:
                    r2 = R.run_program(prog, inputs, o2)
                except R.Fragile:
                    continue
                except Exception:
                    if resh:
                        continue  # numpy could not broadcast the reshaped argument
                    raise
                if r2.fragile is None and len(r2.log) == n:
                    new_ref, new_over, new_args, reshaped = r2, o2, cand, resh
                    break
            if new_ref is None:
                ctx.count("skipped_fragile_remix")
                continue
            seqrel = "first" if not overrides else ("after-remix-at-earlier-frame" if max(overrides) < k else ("after-remix-at-same-frame" if max(overrides) == k else "after-remix-at-later-frame"))
            cond = f"at-{pos}"  # the position class is the mechanism; seqrel goes into the witness
            # python scalars stay python scalars half of the time (weakly typed constants)
            act_args = dbg.sequence[k].args
            jnew = []
            for a_new, a_old in zip(new_args, act_args if isinstance(act_args, tuple) and len(act_args) == len(new_args) else [None] * len(new_args)):
                if isinstance(a_old, (int, float)) and not isinstance(a_old, bool) and np.ndim(a_new) == 0 and rng.random() < 0.5:
                    jnew.append(float(a_new) if isinstance(a_old, float) else int(a_new))
                    ctx.count("remix_python_scalar_arg")
                else:
                    jnew.append(G.to_jax_args(a_new))
            case.history.append(f"remix@{k}[{pos},{seqrel}]({R.to_jsonable(new_args)})")
            old_frames = list(dbg.sequence)
            old_jp = dict(dbg.jump_points)
            try:
                new = dbg.remix(*jnew) if rng.random() < 0.8 else dbg(*jnew)
            except Exception as e:
                if reshaped:
                    # new arguments of a different shape: a refusal is not judged, only counted
                    ctx.count("skipped_reshaped_remix_raised")
                    ctx.note(f"remix with a vector in place of a scalar argument raised {type(e).__name__} ({common.exc_mechanism(e)}): {str(e)[:160]}")
                    case.history.pop()
                    continue
                case.viol("remix", "raises", f"at-{pos},{common.exc_mechanism(e)}", f"remix at frame {k} raised {type(e).__name__}: {str(e)[:300]}")
                return
            remixes += 1
            if reshaped:
                ctx.count("remix_with_reshaped_arg")
                case.mute, case.muted = True, []
            ctx.count("op_remix")
            ctx.count("remix_at_" + pos.replace("-", "_"))
            if overrides:
                ctx.count("remix_after_remix")
            case.ev("remix", cond + "," + seqrel)
            fatal = False
            if len(new.sequence) != n:
                case.viol("remix", "frame-count", cond, f"{len(new.sequence)} frames after remix at {k}, {n} before")
                fatal = True
            elif new.ptr != k:
                inrange = isinstance(new.ptr, int) and 0 <= new.ptr < n
                case.viol("remix", "ptr", cond + (",moved" if inrange else ",out-of-range"), f"ptr {new.ptr} after remix at frame {k}")
                fatal = not inrange
            if not fatal:
                ok, why = R.leaves_close(new.final_retval, new_ref.final, common.close)
                if not ok:
                    case.viol("remix", "final_retval", f"{cond},{why}", f"final_retval {common.short(_np_tree(new.final_retval))} after remix at frame {k} (tag {log[k]['tag']!r}); re-running f with that call's arguments replaced gives {common.short(new_ref.final)} (before the remix: {common.short(cur.final)})")
                before = ctx.counters.get("frames_checked", 0)
                check_frames(case, "remix", cond, new, new_ref.log, k, n)
                if not case.mute:
                    ctx.count("remix_tail_frames_checked", ctx.counters.get("frames_checked", 0) - before)
                for j in range(k):
                    ctx.count("remix_history_frames_checked")
                    if not _same_tree(new.sequence[j].args, old_frames[j].args):
                        case.viol("remix", "history.args", cond, f"frame {j} (< remixed frame {k}) changed its args")
                    if not _same_tree(new.sequence[j].local_retval, old_frames[j].local_retval):
                        okr, _ = R.leaves_close(new.sequence[j].local_retval, new_ref.log[j]["ret"], common.close)
                        if not okr:
                            case.viol("remix", "history.local_retval", cond, f"frame {j} (< remixed frame {k}) has a local_retval that is neither the old one nor the re-run's")
                        else:
                            ctx.count("remix_history_refreshed")
                if dict(new.jump_points) != old_jp:
                    case.viol("remix", "jump_points", cond, f"jump_points changed {old_jp} -> {dict(new.jump_points)}")
                check_cursor(case, "remix", cond, new, None, log, duptags)
            # the debugger the operation was called on must not have changed
            if dbg.ptr != old_ptr or len(dbg.sequence) != old_len or dbg.final_retval is not old_final or any(a is not b for a, b in zip(dbg.sequence, old_frames)):
                case.viol("remix", "receiver", cond + ",mutated", "remix changed the debugger it was called on")
            if case.mute:
                # Observation only (see notes/C31_findings.md, O2): the statement is read as "new
                # arguments of the recorded shapes"; outcomes are counted, never judged.
                case.mute = False
                if case.muted:
                    ctx.count("reshaped_remix_differs")
                    ctx.note("remix with a vector in place of a scalar argument differs from re-running f: " + case.muted[0] + "\n" + case.src)
                    return
                ctx.count("reshaped_remix_agrees")
            if fatal:
                return
            overrides = new_over
            last_remix = k
        if dbg.ptr != old_ptr or len(dbg.sequence) != old_len:
            case.viol(op, "receiver", "mutated", f"{op} changed the debugger it was called on")
        dbg = new
    _ = last_remix
    ctx.count("walks_completed")


def run(ctx):
    common.import_repo()
    total = ctx.pick(480, 6400)
    if os.environ.get("VERIF_C31_CASES"):  # development aid: fewer cases (e.g. while trying deliberate breaks)
        total = int(os.environ["VERIF_C31_CASES"])
    budget = ctx.pick(75.0, 800.0)
    # arm schedule by case index: 60% plain, 25% partial, 10% hidden, 5% pyclosure
    for ci in ctx.my_share(total):
        if ctx.elapsed() > budget:
            ctx.count("budget_stops")
            break
        arm = ARM_SCHEDULE[(ci // ctx.nshards + ci % ctx.nshards) % len(ARM_SCHEDULE)]
        try:
            run_case(ctx, ci, arm)
        except R.Fragile:
            ctx.count("skipped_fragile_case")
        ctx.count("cases_attempted")
