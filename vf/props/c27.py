"""C27 — Rejuvenate returns the Metropolis-Hastings log acceptance ratio.

For a trace with choices x, `Rejuvenate(q, argmap).edit` must return a trace holding the proposed
choices x' and the weight
    log p(x') + log q(x | argmap(x')) - log p(x) - log q(x' | argmap(x)),
i.e. the backward proposal density is evaluated with arguments computed from the NEW trace.

Monitors (oracle = closed-form float64 densities of hand-templated models and proposals,
vf/gen/c27_cases.py; x and x' are read from the old / new trace, so no statistics are needed):
  weight        returned weight == reference MH log ratio
  new-score     new_trace.get_score() == reference log p(x')
  unproposed    addresses the proposal does not write keep their values exactly
  moved         every written address changed (a continuous proposal never redraws the old value)
  tap           (gen-function proposals, eager) the values in the new trace are values the proposal
                body actually produced
  raises        the edit must return for every templated (valid) case
Execution modes: eager, jax.jit, jax.vmap over keys.  Request styles: distribution proposal at a
leaf routed by (nested) StaticRequest; gen-function proposal applied to the whole trace
(joint two-address, conditional on an unwritten address, mixed); gen-function proposal applied
to a sub-call's trace.
"""

from __future__ import annotations

import numpy as np

from vf import common

R = "genjax._src.inference.requests.rejuvenate"
CONFIG = {
    "level": "exploration",
    "shards": {"quick": 16, "thorough": 16},
    "timeout_s": {"quick": 600, "thorough": 3000},
    "rule": "case = model template (chain / positive-scale / hierarchical sub-call / vector leaf; random parameters and a full random start assignment) x request style (leaf distribution proposal via StaticRequest, whole-trace gen-function proposal: joint / conditional-on-unwritten / mixed, sub-trace gen-function proposal) x proposal kind (asymmetric, symmetric, drifting random walks; laplace/cauchy/gamma/lognormal/exponential walks; independent) x mode (eager/jit/vmap over keys); every key is one evaluation. non-trivial: the proposal arguments depend on the current choices (or read an address the proposal does not write) and the proposed value differs from the old one; distinct by (model, style, proposal kind, mode).",
    "reach_anchors": [f"{R}:Rejuvenate.edit"],
    "reach_required": [f"{R}:Rejuvenate.edit"],
    "counters_required": ["weight_checked", "weight_checked_state_dependent", "new_score_checked", "unproposed_checked"],
    "assumptions": [
        "reference densities: scipy/numpy float64 transcriptions of the templated models and proposals (vf/ref/dens.py, vf/gen/c27_cases.py)",
        "float32 tolerance 2e-4 (relative+absolute) scaled by sqrt(#density terms)",
        "x and x' are read from the traces through public choice-map lookups; importance with a full constraint installs the start assignment",
    ],
}


def _read(ch, addr):
    v = ch[addr if len(addr) > 1 else addr[0]]
    return getattr(v, "value", v) if type(v).__name__ == "Mask" else v


def _classify(w, terms):
    """Name the mechanism of a wrong weight by comparing with the textbook wrong variants."""
    cands = [
        ("bwd-args-from-old-state", terms["dp"] + terms["q_old_given_old"] - terms["q_new_given_old"]),
        ("missing-proposal-correction", terms["dp"]),
        ("swapped-proposal-direction", terms["dp"] - terms["q_old_given_new"] + terms["q_new_given_old"]),
        ("missing-bwd-term", terms["dp"] - terms["q_new_given_old"]),
        ("missing-fwd-term", terms["dp"] + terms["q_old_given_new"]),
        ("missing-model-ratio", terms["q_old_given_new"] - terms["q_new_given_old"]),
        ("negated", -(terms["dp"] + terms["q_old_given_new"] - terms["q_new_given_old"])),
    ]
    for name, val in cands:
        if np.isfinite(val) and common.close(w, val, terms=8):
            return name
    return "other"


def _exc_chain(e):
    """The exception and what it was raised from / during (jax re-raises through frozen
    dataclass exceptions, which hides the original under a FrozenInstanceError)."""
    out, seen = [], set()
    while e is not None and id(e) not in seen:
        seen.add(id(e))
        out.append(e)
        e = e.__cause__ or e.__context__
    return out


def run_case(ctx, ci, genjax, jax, jnp):
    from genjax import Diff

    from vf.gen import c27_cases

    rng = ctx.child_rng(27, ci)
    mode = ["eager", "jit", "vmap"][int(rng.integers(3))]
    case = c27_cases.build_case(rng, genjax, jnp, want_tap=(mode == "eager"))
    nkeys = 2 if mode == "eager" else ctx.pick(6, 8)
    model, args, start, addrs = case["model"], case["args"], case["start"], list(case["start"].keys())
    fp = (case["mname"], case["style"], case["pname"], mode)
    label = f"{case['mname']}/{case['style']}/{case['pname']}/{mode}"

    tr, _ = model.importance(jax.random.key(1000 + ci), case["constraint"], args)
    old_ch = tr.get_choices()
    old = {a: np.asarray(_read(old_ch, a)) for a in addrs}
    for a in addrs:
        if not np.array_equal(old[a].astype(np.float32), np.asarray(start[a], np.float32)):
            ctx.note(f"start assignment not installed at {a} in {label}; case skipped")
            ctx.count("skipped_start_not_installed")
            return
    argdiffs = Diff.no_change(args)
    request = case["request"]

    def f(key):
        new_tr, w, _rd, _bwd = request.edit(key, tr, argdiffs)
        ch = new_tr.get_choices()
        return [_read(ch, a) for a in addrs], w, new_tr.get_score()

    keys = [jax.random.key(int(k)) for k in rng.integers(1, 2**31 - 1, size=nkeys)]
    outs = []
    try:
        if mode == "eager":
            for k in keys:
                if case["tap"] is not None:
                    del case["tap"][:]
                vals, w, sc = f(k)
                jax.effects_barrier()
                outs.append(([np.asarray(v) for v in vals], float(w), float(sc), list(case["tap"]) if case["tap"] is not None else None))
        elif mode == "jit":
            jf = jax.jit(f)
            for k in keys:
                vals, w, sc = jf(k)
                outs.append(([np.asarray(v) for v in vals], float(w), float(sc), None))
        else:
            kk = jnp.stack([jax.random.key_data(k) for k in keys])
            vals, w, sc = jax.vmap(lambda kd: f(jax.random.wrap_key_data(kd)))(kk)
            for i in range(nkeys):
                outs.append(([np.asarray(v)[i] for v in vals], float(w[i]), float(sc[i]), None))
    except Exception as e:  # the property says the edit returns
        ctx.count("raised")
        chain = _exc_chain(e)
        root = next((x for x in chain if type(x).__name__ == "ChoiceMapNoValueAtAddress"), chain[-1])
        mech = common.exc_mechanism(root)
        e = root
        if case["reads_unproposed"] and type(root).__name__ == "ChoiceMapNoValueAtAddress":
            sig = "C27|op=edit|on=Rejuvenate|field=raises|cond=bwd-mapping-applied-to-discard"
        else:
            sig = f"C27|op=edit|on=Rejuvenate|field=raises|cond={case['style']},{mech}"
        ctx.evaluation(fingerprint=fp + ("raises",), nontrivial=True)
        ctx.violation(sig, detail=f"{label}: {type(e).__name__}: {str(e)[:200]}", case=label, start={str(k): v for k, v in start.items()}, mechanism=mech)
        return

    lp_old = case["logp"]({a: old[a].astype(np.float64) for a in addrs})
    qa_old = case["qargs"]({a: old[a].astype(np.float64) for a in addrs})
    proposed = case["proposed"]
    for vals, w, sc, tap in outs:
        new = {a: np.asarray(v) for a, v in zip(addrs, vals)}
        new64 = {a: new[a].astype(np.float64) for a in addrs}
        old64 = {a: old[a].astype(np.float64) for a in addrs}
        # --- unproposed addresses keep their values; proposed ones moved
        moved = True
        for a in addrs:
            if a in proposed:
                if np.array_equal(new[a], old[a]):
                    moved = False
            else:
                ctx.count("unproposed_checked")
                if not np.array_equal(new[a].astype(np.float32), old[a].astype(np.float32)):
                    ctx.violation(f"C27|op=edit|on=Rejuvenate|field=unproposed-choice|cond={case['style']}", detail=f"{label}: address {a} not written by the proposal changed {old[a].tolist()} -> {new[a].tolist()}", case=label)
        ctx.count("moved_checked")
        if not moved:
            ctx.violation(f"C27|op=edit|on=Rejuvenate|field=proposed-choice|cond={case['style']},not-moved", detail=f"{label}: a written address still holds its old value: old={ {str(a): old[a].tolist() for a in proposed} } new={ {str(a): new[a].tolist() for a in proposed} }", case=label)
        # --- reference MH ratio
        with np.errstate(all="ignore"):
            lp_new = case["logp"](new64)
            qa_new = case["qargs"](new64)
            pv_new = {a: new64[a] for a in proposed}
            pv_old = {a: old64[a] for a in proposed}
            terms = {
                "dp": lp_new - lp_old,
                "q_new_given_old": case["logq"](pv_new, qa_old),
                "q_old_given_new": case["logq"](pv_old, qa_new),
                "q_old_given_old": case["logq"](pv_old, qa_old),
            }
        expected = terms["dp"] + terms["q_old_given_new"] - terms["q_new_given_old"]
        nontrivial = bool(moved and (case["state_dep"] or case["reads_unproposed"]))
        ctx.evaluation(fingerprint=fp, nontrivial=nontrivial)
        ctx.count(f"mode:{mode}")
        ctx.count(f"style:{case['style']}")
        ctx.count(f"proposal:{case['pname']}")
        if not (np.isfinite(expected) and np.isfinite(lp_new)):
            ctx.count("skipped_nonfinite_reference")
        else:
            ctx.count("weight_checked")
            if case["state_dep"]:
                ctx.count("weight_checked_state_dependent")
            if not common.close(w, expected, terms=8):
                mech = _classify(w, terms)
                ctx.violation(
                    f"C27|op=edit|on=Rejuvenate|field=weight|cond={mech}",
                    detail=f"{label}: weight {w!r} expected {expected!r} (log p ratio {terms['dp']!r}, log q(old|new) {terms['q_old_given_new']!r}, log q(new|old) {terms['q_new_given_old']!r}; with backward arguments from the old state the value would be {terms['dp'] + terms['q_old_given_old'] - terms['q_new_given_old']!r})",
                    case=label,
                    old={str(a): old[a].tolist() for a in addrs},
                    new={str(a): new[a].tolist() for a in addrs},
                    observed=w,
                    expected=expected,
                )
            ctx.count("new_score_checked")
            if not common.close(sc, lp_new, terms=4):
                ctx.violation(f"C27|op=edit|on=Rejuvenate|field=new-score|cond={case['style']}", detail=f"{label}: new trace score {sc!r}, reference log p(x') {lp_new!r}", case=label)
        # --- the new trace holds values that the proposal body produced
        if tap is not None:
            seen = [v for _, v in tap]
            ctx.count("tap_checked")
            if not seen:
                ctx.violation("C27|op=edit|on=Rejuvenate|field=proposal-run|cond=proposal-body-never-ran", detail=f"{label}: the proposal body was not executed", case=label)
            for a in proposed:
                if not any(float(np.float32(s)) == float(new[a]) for s in seen):
                    ctx.violation(f"C27|op=edit|on=Rejuvenate|field=proposed-choice|cond={case['style']},not-from-proposal", detail=f"{label}: value {new[a].tolist()} at {a} in the new trace was never produced by the proposal (it saw {seen})", case=label)
        ctx.sample({"case": label, "old": {str(a): old[a].tolist() for a in addrs}, "new": {str(a): new[a].tolist() for a in addrs}, "weight": w, "expected": expected}, limit=2)


def run(ctx):
    genjax = common.import_repo()
    import jax
    import jax.numpy as jnp

    n_cases = ctx.pick(16 * 14, 16 * 160)
    budget = ctx.pick(62.0, 420.0)
    for ci in ctx.my_share(n_cases):
        if ctx.elapsed() > budget:
            ctx.count("cases_dropped_by_time_budget")
            continue
        run_case(ctx, ci, genjax, jax, jnp)
        ctx.count("cases")
