"""C09 — the incremental interpreter computes the same values with sound change tags.

For every generated JAX function f (vf/gen/jaxfns.py) and every tagging of its input leaves
(all 2^k, k <= 4) the REAL `incremental(f)(None, primals, tangents)` is run and judged:

* value monitor: the primal of every output leaf equals ordinary evaluation f(*primals)
  (structure, shape, dtype, value); outputs that come back un-tagged (Python literal outvars)
  are compared for value only;
* tag monitor (soundness by PERTURBATION): for the tagging with changed set U the plain jitted
  f is re-evaluated on 4 perturbations of the U-leaves (sign flip, +delta, x2, resample) with all
  other leaves fixed; an output leaf tagged NoChange whose value moves in any of the rows truly
  depends on a changed input -> violation.  Perturbation under-approximates dependence, so it
  cannot flag a sound tag.

Modes: `trace` (jax.eval_shape of the interpreter: tags are static; all 2^k taggings),
`eager` (concrete op-by-op interpretation; 1-3 taggings per function incl. values) and `jit`
(interpreter staged under jax.jit, 1-2 taggings in one executable, evaluated on two input sets).
A fraction of the functions is interpreted through `initial_style_bind` / `jax.jit` wrappers.
"""

from __future__ import annotations

import itertools

import numpy as np

from vf import common
from vf.gen import jaxfns as G
from vf.ref import jaxfn_oracle as O

I = "genjax._src.core.compiler.interpreters.incremental"
E = "genjax._src.core.compiler.interpreters.environment"
CONFIG = {
    "level": "exploration",
    "shards": {"quick": 16, "thorough": 16},
    "timeout_s": {"quick": 600, "thorough": 3000},
    "rule": "case = (generated pure JAX function, tagging of its input leaves, mode in {trace, eager, jit}); functions from the grammar in vf/gen/jaxfns.py (arithmetic, comparison, select, static/dynamic indexing, cond, switch, scan, fori, while, multi-output primitives, custom_jvp/vjp, checkpoint, nested jit, closed-over jax/numpy constants, literals, pass-through / duplicated / literal / constant outputs, 0-4 inputs incl. pytrees), every one of the 2^k taggings in trace mode. non-trivial: function has >=1 control-flow or multi-output primitive and the tagging is mixed (>=1 NoChange and >=1 UnknownChange leaf); distinct by (control/multi-output feature set, #leaves, #changed leaves, mode, wrapper).",
    "reach_anchors": [
        f"{I}:IncrementalInterpreter.eval_jaxpr_incremental",
        f"{I}:default_propagation_rule",
        f"{I}:IncrementalInterpreter.run_interpreter",
        f"{E}:Environment.read",
        f"{E}:Environment.write",
    ],
    "reach_required": [
        f"{I}:IncrementalInterpreter.eval_jaxpr_incremental",
        f"{I}:default_propagation_rule",
        f"{E}:Environment.read",
        f"{E}:Environment.write",
    ],
    "counters_required": [
        "c09_functions",
        "c09_primal_leaves_compared",
        "c09_nochange_leaves_perturbed",
        "c09_unknown_leaves_that_moved",
        "mode:trace",
        "mode:eager",
        "mode:jit",
    ],
    "assumptions": [
        "ordinary evaluation f(*primals) (eager and jax.jit) is the trusted base; it is cross-checked against an independent numpy float64 evaluation of the same AST and a function on which they disagree is skipped (counter oracle_selfcheck_skipped)",
        "generated programs are well-conditioned on their input sets (every discrete decision has margin >= 0.02, |values| <= 40), float comparison 2e-4 rel+abs scaled by sqrt(#statements)",
        "dependence is under-approximated by 4 perturbations per tagging evaluated with one jitted executable and compared bit-for-bit: a NoChange output that moves is a true violation; a dependence that none of the 4 perturbations excites is missed",
        "tagging granularity = flat input leaves; tangents are passed as a tree of ChangeTangents matching the primal tree",
    ],
}


def _prim():
    from genjax._src.core.compiler.initial_style_primitive import InitialStylePrimitive

    global _PRIM
    try:
        return _PRIM
    except NameError:
        _PRIM = InitialStylePrimitive("vf_c09_probe")
        return _PRIM


def _tag_name(t, NoChangeT, UnknownT):
    if isinstance(t, NoChangeT):
        return "N"
    if isinstance(t, UnknownT):
        return "U"
    return "?"


def _flatten_out(out, Diff):
    import jax.tree_util as jtu

    return jtu.tree_flatten(out, is_leaf=Diff.is_diff)


def check_function(ctx, spec, rng, ci):
    import jax
    import jax.tree_util as jtu
    from genjax._src.core.compiler.initial_style_primitive import initial_style_bind
    from genjax._src.core.compiler.interpreters.incremental import Diff, NoChange, UnknownChange, incremental

    import time

    NoT, UnT = type(NoChange), type(UnknownChange)
    _t = [time.time()]

    def lap(name):
        now = time.time()
        ctx.count("ms:" + name, int(1000 * (now - _t[0])))
        _t[0] = now

    ref = O.Reference(spec)
    # the op-by-op ordinary evaluation is as expensive as the interpretation itself: always in the
    # thorough tier, every third function in the quick tier (the jitted evaluation is always there)
    with_eager_ref = ctx.tier == "thorough" or ci % 3 == 0
    ok_ref = ref.compute(eager_sets=(0,) if with_eager_ref else ())
    if with_eager_ref:
        ctx.count("c09_functions_with_eager_reference")
    lap("reference")
    if not ok_ref:
        ctx.count("oracle_selfcheck_skipped")
        ctx.note(f"case {ci}: skipped, {ref.why}")
        return
    ctx.count("c09_functions")
    for ft in spec.features:
        ctx.count("feat:" + ft)
    ctx.count(f"inputs:{len(spec.leaves)}")
    ctx.count("wrapper:" + spec.wrapper)
    f0 = ref.f
    if spec.wrapper == "initial_style":
        f = initial_style_bind(_prim())(f0)
    elif spec.wrapper == "jit":
        f = jax.jit(f0)
    else:
        f = f0
    wr = spec.wrapper
    leaves = [nm for nm in G.arg_leaf_names(spec)]
    ltype = {nm: ty for nm, ty, _ in spec.leaves}
    L = len(leaves)
    base = spec.input_sets[0]
    primals = ref.args[0]
    nout = len(ref.items)
    classes = ref.classes
    out_struct = ref.struct(ref.eager_tree[0])
    fclass = O.feature_class(spec)
    odeps = spec.out_deps()
    witness = dict(program=ref.src, inputs={k: np.asarray(v).tolist() for k, v in base.items()}, case=ci)

    # ---- perturbation rows (ordinary evaluation only): which output leaves move when U changes
    base_row = ref.jit[0]
    prng = np.random.default_rng([ctx.seed, 909, ci])
    pert = {nm: [G.perturb(prng, ltype[nm], base[nm], k, spec.n) for k in range(4)] for nm in leaves}
    moved = {}

    def moved_for(U):
        if U in moved:
            return moved[U]
        mv = set()
        for k in range(4):
            vals = dict(base)
            for nm in U:
                vals[nm] = pert[nm][k]
            try:
                row = ref.jit_leaves(vals)
            except Exception:
                continue
            ctx.count("c09_perturbation_rows")
            for j in range(nout):
                if not O.identical(base_row[j], row[j]):
                    mv.add(j)
        moved[U] = mv
        return mv

    def judge_tags(tags, U, mode, tag_desc):
        """Soundness of the observed tags (list per output leaf: 'N','U','-' untagged, '?')."""
        mv = moved_for(U) if U else set()
        for j, t in enumerate(tags):
            if t == "?":
                ctx.violation(f"C09|op=incremental|on={classes[j]}|field=tag-type|cond={mode},{wr}", detail=f"output leaf {j} carries a tangent that is neither NoChange nor UnknownChange", tagging=tag_desc, **witness)
            elif t == "-":
                ctx.count("c09_untagged_outputs")
                if not ref.is_lit[j]:
                    ctx.count("c09_untagged_nonliteral_outputs")
                if j in mv:
                    # an untagged output is read as NoChange by Diff.tree_tangent: it must not move
                    ctx.violation(f"C09|op=incremental|on={classes[j]}|field=untagged-output|cond=moves-under-perturbation,{mode},{wr}", detail=f"un-tagged output leaf {j} depends on a changed input", tagging=tag_desc, **witness)
            elif t == "N":
                if U:
                    ctx.count("c09_nochange_leaves_perturbed")
                if j in mv:
                    ctx.violation(
                        f"C09|op=incremental|on={classes[j]}|field=nochange-tag|cond=moves-under-perturbation,{mode},{wr}",
                        detail=f"output leaf {j} ({classes[j]}) is tagged NoChange but its value changes when the UnknownChange-tagged inputs {sorted(U)} are perturbed (NoChange inputs fixed)",
                        tagging=tag_desc, syntactic_deps=sorted(odeps[j]), **witness,
                    )
                if odeps[j] & U:
                    ctx.count("c09_nochange_despite_syntactic_dep")
            else:
                if j in mv:
                    ctx.count("c09_unknown_leaves_that_moved")
                if not (odeps[j] & U):
                    ctx.count("c09_unknown_but_syntactically_independent")

    def run_guarded(thunk, mode, tag_desc):
        """Run genjax code; exceptions are violations (the property says it returns)."""
        try:
            return True, thunk()
        except Exception as e:  # noqa
            if jax.config.jax_enable_checks:
                jax.config.update("jax_enable_checks", False)
                try:
                    r = thunk()
                    ctx.count("enable_checks_only_exceptions")
                    ctx.note(f"jax_enable_checks-only exception in {mode}: {type(e).__name__}: {str(e)[:200]}")
                    return True, r
                except Exception:
                    pass
                finally:
                    jax.config.update("jax_enable_checks", True)
            ctx.violation(
                f"C09|op=incremental|on=interpreter|field=raises|cond={mode},{wr},{common.exc_mechanism(e)}",
                detail=f"{type(e).__name__}: {str(e)[:400]}", tagging=tag_desc, **witness,
            )
            return False, None

    def check_structure(out, mode, tag_desc):
        flat, td = _flatten_out(out, Diff)
        st = jtu.tree_structure(jtu.tree_unflatten(td, [0] * len(flat)))
        if st != out_struct or len(flat) != nout:
            ctx.violation(f"C09|op=incremental|on=output-tree|field=structure|cond={mode},{wr}", detail=f"output tree {st} differs from ordinary evaluation {out_struct}", tagging=tag_desc, **witness)
            return None
        return flat

    def tags_of(flat):
        return ["-" if not isinstance(x, Diff) else _tag_name(x.tangent, NoT, UnT) for x in flat]

    def primal_of(x):
        return x.primal if isinstance(x, Diff) else x

    def fp(mode, U):
        mixed = 0 < len(U) < L
        ctx.evaluation(fingerprint=(fclass, L, len(U), mode, wr), nontrivial=bool(fclass) and mixed)
        ctx.count("mode:" + mode)
        if mixed:
            ctx.count("mixed_taggings:" + mode)

    taggings = [frozenset(nm for nm, bit in zip(leaves, bits) if bit) for bits in itertools.product([0, 1], repeat=L)]

    # tag representation: the exported singletons, or equal-but-distinct instances (what any pytree
    # round trip of a Diff / argdiff tree produces: tree_map, jit / vmap / scan boundaries)
    rebuilt_tags = ci % 3 == 1

    def tangents_for(U):
        if rebuilt_tags:
            ctx.count("taggings_with_rebuilt_tag_instances")
            return jtu.tree_map(lambda t: type(t)(), G.tag_tree(spec, {nm: (nm in U) for nm in leaves}, NoChange, UnknownChange), is_leaf=lambda t: isinstance(t, (NoT, UnT)))
        return G.tag_tree(spec, {nm: (nm in U) for nm in leaves}, NoChange, UnknownChange)

    def desc(U):
        return {nm: ("UnknownChange" if nm in U else "NoChange") for nm in leaves}

    # ---- mode trace: every tagging, tags + avals
    shape_ref = jtu.tree_leaves(jax.eval_shape(f0, *primals))
    trace_tags = {}
    for U in taggings:
        tg = tangents_for(U)
        ok, out = run_guarded(lambda: jax.eval_shape(lambda *p: incremental(f)(None, p, tg), *primals), "trace", desc(U))
        if not ok:
            continue
        flat = check_structure(out, "trace", desc(U))
        if flat is None:
            continue
        fp("trace", U)
        tags = tags_of(flat)
        trace_tags[U] = tags
        for j, x in enumerate(flat):
            p = primal_of(x)
            if ref.is_lit[j]:
                continue
            if not (hasattr(p, "shape") and tuple(p.shape) == tuple(shape_ref[j].shape) and p.dtype == shape_ref[j].dtype):
                ctx.violation(f"C09|op=incremental|on={classes[j]}|field=aval|cond=trace,{wr}", detail=f"output leaf {j}: abstract value {p} differs from ordinary evaluation {shape_ref[j]}", tagging=desc(U), **witness)
        judge_tags(tags, U, "trace", desc(U))

    lap("trace")
    # ---- mode eager: a few taggings with concrete values
    mixed = [U for U in taggings if 0 < len(U) < L]
    chosen = []
    if mixed and (rng.random() < 0.75 or ctx.tier == "thorough"):
        chosen.append(mixed[int(rng.integers(len(mixed)))])
    if not chosen or ctx.tier == "thorough":
        chosen.append(taggings[-1] if rng.random() < 0.7 else taggings[0])
    if mixed and len(mixed) > 1 and ctx.tier == "thorough" and rng.random() < 0.5:
        chosen.append(mixed[int(rng.integers(len(mixed)))])
    chosen = list(dict.fromkeys(chosen))
    if ctx.tier != "thorough" and ci % 2 == 1:
        # op-by-op interpretation compiles every control-flow primitive anew: every second function
        # in the quick tier (tags of all taggings are judged in trace mode, values in jit mode)
        chosen = []
    for U in chosen:
        tg = tangents_for(U)
        ok, out = run_guarded(lambda: incremental(f)(None, primals, tg), "eager", desc(U))
        if not ok:
            continue
        flat = check_structure(out, "eager", desc(U))
        if flat is None:
            continue
        fp("eager", U)
        _compare_values(ctx, ref, flat, ref.eager[0], primal_of, "eager", wr, desc(U), witness, check_dtype=shape_ref)
        # genjax's own accessor must agree with the leaves
        try:
            tp = jtu.tree_leaves(Diff.tree_primal(out))
            if len(tp) != nout or any(not O.identical(a, primal_of(b)) for a, b in zip(tp, flat)):
                ctx.violation(f"C09|op=Diff.tree_primal|on=output-tree|field=primal|cond=eager,{wr}", detail="Diff.tree_primal(out) differs from the primal fields of the output leaves", tagging=desc(U), **witness)
        except Exception as e:
            ctx.violation(f"C09|op=Diff.tree_primal|on=output-tree|field=raises|cond={common.exc_mechanism(e)}", detail=str(e)[:300], **witness)
        tags = tags_of(flat)
        if U in trace_tags and trace_tags[U] != tags:
            ctx.count("c09_tags_differ_between_trace_and_eager")
        judge_tags(tags, U, "eager", desc(U))

    lap("eager")
    # ---- mode jit: one or two taggings in one executable, two input sets
    jchosen = [mixed[int(rng.integers(len(mixed)))]] if mixed else []
    if not jchosen or ctx.tier == "thorough":
        jchosen.append(taggings[-1])
    jchosen = list(dict.fromkeys(jchosen))
    tgs = [tangents_for(U) for U in jchosen]
    jitted = jax.jit(lambda *p: [incremental(f)(None, p, tg) for tg in tgs])
    for si in range(len(spec.input_sets)):
        ok, outs = run_guarded(lambda: jitted(*ref.args[si]), "jit", [desc(U) for U in jchosen])
        if not ok:
            break
        for U, out in zip(jchosen, outs):
            flat = check_structure(out, "jit", desc(U))
            if flat is None:
                continue
            fp("jit", U)
            w2 = dict(witness)
            w2["inputs"] = {k: np.asarray(v).tolist() for k, v in spec.input_sets[si].items()}
            _compare_values(ctx, ref, flat, ref.jit[si], primal_of, "jit", wr, desc(U), w2, check_dtype=shape_ref)
            if si == 0:
                judge_tags(tags_of(flat), U, "jit", desc(U))
    lap("jit")
    ctx.sample({"program": ref.src, "inputs": witness["inputs"], "describe": G.describe(spec), "taggings": len(taggings), "trace_tags_all_unknown": trace_tags.get(taggings[-1])}, limit=2)


def _compare_values(ctx, ref, flat, expected, primal_of, mode, wr, tag_desc, witness, check_dtype):
    import jax

    for j, x in enumerate(flat):
        p = primal_of(x)
        e = expected[j]
        cls = ref.classes[j]
        ctx.count("c09_primal_leaves_compared")
        try:
            pa = np.asarray(p)
        except Exception:
            ctx.violation(f"C09|op=incremental|on={cls}|field=primal|cond=not-an-array,{mode},{wr}", detail=f"output leaf {j} primal is {type(p).__name__}", tagging=tag_desc, **witness)
            continue
        if pa.dtype == object:
            ctx.violation(f"C09|op=incremental|on={cls}|field=primal|cond=not-an-array,{mode},{wr}", detail=f"output leaf {j} primal is {type(p).__name__}", tagging=tag_desc, **witness)
            continue
        if not O.same_value(e, pa, terms=ref.terms):
            ctx.violation(
                f"C09|op=incremental|on={cls}|field=primal|cond={mode},{wr}",
                detail=f"output leaf {j} ({cls}): interpreter primal {common.short(pa.tolist())} != ordinary evaluation {common.short(np.asarray(e).tolist())}",
                tagging=tag_desc, **witness,
            )
        elif check_dtype is not None and not ref.is_lit[j]:
            # dtype: only for leaves that are jax arrays (a closed-over numpy constant that never meets a
            # jax operation is handed back as the numpy object it was, exactly as f itself does)
            if isinstance(p, jax.Array):
                ctx.count("c09_dtype_checks")
                if p.dtype != check_dtype[j].dtype:
                    ctx.violation(f"C09|op=incremental|on={cls}|field=dtype|cond={mode},{wr}", detail=f"output leaf {j}: dtype {p.dtype} vs ordinary evaluation {check_dtype[j].dtype}", tagging=tag_desc, **witness)
            else:
                ctx.count("c09_dtype_checks_skipped_non_jax_leaf")


def check_corpus(ctx, name, f, args):
    """Fixed hand-written functions (PRNG keys, transforms inside, None/empty/bare outputs, dtype
    zoo): every tagging, eager interpretation (values + tags) and one jitted interpretation."""
    import jax
    import jax.tree_util as jtu
    from genjax._src.core.compiler.interpreters.incremental import Diff, NoChange, UnknownChange, incremental

    NoT, UnT = type(NoChange), type(UnknownChange)
    leaves, treedef = jtu.tree_flatten(args)
    L = len(leaves)
    ref_out = f(*args)
    ref_leaves = jtu.tree_leaves(ref_out)
    jf = jax.jit(f)
    base_row = jtu.tree_leaves(jf(*args))
    struct = O.struct_of(ref_out)
    on = "corpus-" + name
    witness = dict(program=f"vf.gen.jaxfns.corpus() entry {name!r}")
    ctx.count("c09_corpus_functions")

    def tangents_for(U):
        return jtu.tree_unflatten(treedef, [UnknownChange if i in U else NoChange for i in range(L)])

    def moved_for(U):
        mv = set()
        for k in range(4):
            vals = [G.perturb_any(x, k) if i in U else x for i, x in enumerate(leaves)]
            row = jtu.tree_leaves(jf(*jtu.tree_unflatten(treedef, vals)))
            ctx.count("c09_perturbation_rows")
            for j in range(len(base_row)):
                if not O.identical_any(base_row[j], row[j]):
                    mv.add(j)
        return mv

    def judge(out, expected, U, mode):
        desc = ["UnknownChange" if i in U else "NoChange" for i in range(L)]
        flat = jtu.tree_leaves(out, is_leaf=Diff.is_diff)
        if O.struct_of(out, is_leaf=Diff.is_diff) != struct or len(flat) != len(expected):
            ctx.violation(f"C09|op=incremental|on={on}|field=structure|cond={mode}", detail=f"output tree {O.struct_of(out, is_leaf=Diff.is_diff)} vs ordinary evaluation {struct}", tagging=desc, **witness)
            return
        ctx.evaluation(fingerprint=(on, len(U), mode), nontrivial=0 < len(U) < L)
        ctx.count("mode:corpus-" + mode)
        mv = moved_for(U) if U else set()
        for j, x in enumerate(flat):
            p = x.primal if isinstance(x, Diff) else x
            ctx.count("c09_primal_leaves_compared")
            if not O.same_value_any(expected[j], p):
                ctx.violation(f"C09|op=incremental|on={on}|field=primal|cond={mode}", detail=f"output leaf {j}: {common.short(p)} vs ordinary evaluation {common.short(expected[j])}", tagging=desc, **witness)
            if isinstance(x, Diff):
                t = _tag_name(x.tangent, NoT, UnT)
                if t == "?":
                    ctx.violation(f"C09|op=incremental|on={on}|field=tag-type|cond={mode}", detail=f"output leaf {j}", tagging=desc, **witness)
                elif t == "N":
                    if U:
                        ctx.count("c09_nochange_leaves_perturbed")
                    if j in mv:
                        ctx.violation(f"C09|op=incremental|on={on}|field=nochange-tag|cond=moves-under-perturbation,{mode}", detail=f"output leaf {j} is tagged NoChange but moves when the UnknownChange inputs are perturbed", tagging=desc, **witness)
                elif j in mv:
                    ctx.count("c09_unknown_leaves_that_moved")
            else:
                ctx.count("c09_untagged_outputs")
                if j in mv:
                    ctx.violation(f"C09|op=incremental|on={on}|field=untagged-output|cond=moves-under-perturbation,{mode}", detail=f"un-tagged output leaf {j} depends on a changed input", tagging=desc, **witness)

    subsets = [frozenset(i for i, b in enumerate(bits) if b) for bits in itertools.product([0, 1], repeat=L)]
    for U in subsets:
        tg = tangents_for(U)
        try:
            out = incremental(f)(None, args, tg)
        except Exception as e:
            ctx.violation(f"C09|op=incremental|on={on}|field=raises|cond=eager,{common.exc_mechanism(e)}", detail=f"{type(e).__name__}: {str(e)[:300]}", **witness)
            continue
        judge(out, ref_leaves, U, "eager")
    U = subsets[len(subsets) // 2]
    tg = tangents_for(U)
    try:
        out = jax.jit(lambda *p: incremental(f)(None, p, tg))(*args)
    except Exception as e:
        ctx.violation(f"C09|op=incremental|on={on}|field=raises|cond=jit,{common.exc_mechanism(e)}", detail=f"{type(e).__name__}: {str(e)[:300]}", **witness)
        return
    judge(out, base_row, U, "jit")


def run(ctx):
    common.import_repo()
    import jax

    if ctx.shard % 4 == 1:
        jax.config.update("jax_enable_checks", True)
        ctx.count("shards_with_jax_enable_checks")
    for k, (name, f, args) in enumerate(G.corpus()):
        if k % ctx.nshards == ctx.shard:
            check_corpus(ctx, name, f, args)
    n = ctx.pick(150, 2500)
    budget = ctx.pick(70.0, 780.0)
    for ci in ctx.my_share(n):
        if ctx.elapsed() > budget:
            ctx.count("cases_skipped_time_budget")
            continue
        rng = ctx.child_rng(ci)
        depth = 2 if ctx.quick() else int(rng.choice([2, 2, 3]))
        spec = G.generate(rng, G.Cfg(depth=depth))
        check_function(ctx, spec, rng, ci)
