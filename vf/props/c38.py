"""C38 — derived GFI methods and request combinators agree with the primitives.

propose == simulate, importance == generate, Trace.update/edit/project == the generative
function's methods (same key); EmptyRequest = identity with weight 0 under NoChange and
Update(empty) otherwise; StaticRequest applies each addressed sub-request and EmptyRequest
elsewhere; DiffAnnotate with identity maps equals its inner request."""

from vf.prog import gen
from vf.props import _drive

A = "genjax._src.generative_functions"
CONFIG = {
    "level": "exploration",
    "shards": {"quick": 16, "thorough": 16},
    "timeout_s": {"quick": 900, "thorough": 5400},
    "rule": 'case = generated program + trace + differential pairs under one key (propose/simulate, importance/generate, Trace.update / gen_fn.update / edit(Update), Trace.project/gen_fn.project) + EmptyRequest (both tag cases) + StaticRequest (mixed Update/Regenerate/Empty sub-requests against the reference model) + DiffAnnotate(identity). non-trivial: program has a combinator or >=2 addressed calls and the history has a request combinator; distinct by (AST shape, op sequence).',
    "reach_anchors": ['genjax._src.core.generative.requests:EmptyRequest.edit', 'genjax._src.core.generative.requests:DiffAnnotate.edit', 'genjax._src.generative_functions.static:StaticGenerativeFunction.edit_static_edit_request', 'genjax._src.core.generative.generative_function:GenerativeFunction.propose', 'genjax._src.core.generative.generative_function:GenerativeFunction.importance', 'genjax._src.core.generative.generative_function:GenerativeFunction.update'],
    "reach_required": ['genjax._src.core.generative.requests:EmptyRequest.edit', 'genjax._src.core.generative.requests:DiffAnnotate.edit', 'genjax._src.generative_functions.static:StaticGenerativeFunction.edit_static_edit_request', 'genjax._src.core.generative.generative_function:GenerativeFunction.propose', 'genjax._src.core.generative.generative_function:GenerativeFunction.importance', 'genjax._src.core.generative.generative_function:GenerativeFunction.update'],
    "counters_required": ['derived_checks', 'ops:static_request'],
    "assumptions": [
        "reference interpreter vf/prog/ast.py transcribes the documented combinator semantics; scipy float64 densities",
        "float32 tolerance 2e-4 (relative+absolute) scaled by sqrt(#terms)",
        "programs from the bounded grammar (depth<=2 quick, <=3 thorough; sizes<=3/5); values read through public choice-map lookups",
    ],
}

def cfg_fn(rng, ctx):
    depth = int(rng.choice([1, 2, 2])) if ctx.quick() else int(rng.choice([1, 2, 2, 3]))
    return gen.Cfg(depth=depth, root="Static" if rng.random() < 0.5 else None, tuple_param=0.4)


def nontrivial(case, hist):
    return any(h.startswith(("static_request", "empty_request", "diff_annotate")) for h in hist)


PLAN = _drive.Plan(
    "C38", cfg_fn,
    clauses={"derived.*", "req.*"},
    ops={"derived": 3, "empty_request": 2, "static_request": 2, "diff_annotate": 2},
    n_cases=(400, 3000), n_ops=(3, 6), nontrivial=nontrivial,
    always=(),
    exc_is_violation=False,
)



def run(ctx):
    _drive.run(ctx, PLAN)
