"""setup.sh sanity checks: toolchain importable, reference densities agree with closed forms."""

import sys


def main():
    from vf import common

    g = common.import_repo()
    import jax  # noqa
    import numpy as np
    import scipy  # noqa

    from vf.ref import dens

    dens.selftest()
    assert common.close(1.0, 1.0 + 1e-6)
    assert not common.close(1.0, 1.1)
    assert not common.close(np.nan, np.nan)
    print("genjax from", g.__file__)
    return 0


if __name__ == "__main__":
    sys.exit(main())
