"""Shared helpers: locating the repository under test, numeric comparison, conversions."""

from __future__ import annotations

import os
import sys
import warnings

import numpy as np

_IMPORTED = False


def repo_root() -> str:
    return os.environ.get("VERIF_REPO", "/repo")


def import_repo():
    """Make `import genjax` resolve to $VERIF_REPO/src and verify that it did."""
    global _IMPORTED
    if _IMPORTED:
        import genjax

        return genjax
    src = os.path.join(repo_root(), "src")
    if src in sys.path:
        sys.path.remove(src)
    sys.path.insert(0, src)
    warnings.filterwarnings("ignore")
    import jax

    jax.config.update("jax_platforms", "cpu")
    import genjax

    origin = os.path.realpath(genjax.__file__)
    if not origin.startswith(os.path.realpath(src) + os.sep):
        raise RuntimeError(f"genjax imported from {origin}, expected under {src}")
    _IMPORTED = True
    return genjax


# ---------------------------------------------------------------- numeric comparison

RTOL = 2e-4
ATOL = 2e-4


def tol(a, b, terms=1, rtol=RTOL, atol=ATOL):
    a = np.asarray(a, dtype=np.float64)
    b = np.asarray(b, dtype=np.float64)
    return atol * np.sqrt(max(terms, 1)) + rtol * (np.abs(a) + np.abs(b)) * np.sqrt(max(terms, 1))


def close(a, b, terms=1, rtol=RTOL, atol=ATOL) -> bool:
    """Float comparison for float32 computations against float64 references.
    inf == inf of equal sign; NaN never equals anything."""
    try:
        a = np.asarray(a, dtype=np.float64)
        b = np.asarray(b, dtype=np.float64)
    except Exception:
        return False
    if a.shape != b.shape:
        try:
            a, b = np.broadcast_arrays(a, b)
        except ValueError:
            return False
    if np.any(np.isnan(a)) or np.any(np.isnan(b)):
        return False
    inf = np.isinf(a) | np.isinf(b)
    if np.any(inf):
        if not np.array_equal(a[inf], b[inf]):
            return False
        a = a[~inf]
        b = b[~inf]
    return bool(np.all(np.abs(a - b) <= tol(a, b, terms, rtol, atol)))


def npf(x):
    """To a float64 numpy array (bools/ints become floats)."""
    return np.asarray(x, dtype=np.float64)


def tonp(x):
    """jax/python value -> numpy (preserving dtype kind)."""
    return np.asarray(x)


def short(x, n=160):
    s = repr(x)
    return s if len(s) <= n else s[:n] + "…"


def exc_mechanism(e: BaseException) -> str:
    """Mechanism string for an exception: type + innermost repository function that raised."""
    import traceback

    tb = traceback.extract_tb(e.__traceback__)
    where = "?"
    root = os.path.realpath(os.path.join(repo_root(), "src"))
    for fr in reversed(tb):
        fn = os.path.realpath(fr.filename)
        if fn.startswith(root):
            where = f"{os.path.basename(fn)}:{fr.name}"
            break
    return f"{type(e).__name__}@{where}"
