"""GFI workload engine: runs real GFI operations on generated programs and judges every
result against the reference interpreter (vf.prog.ast) and against differential identities.

An operation returns an `Outcome` holding the new trace record (if any) and a list of `Issue`s.
Property modules decide which issues are theirs and turn them into violations.
"""

from __future__ import annotations

import numpy as np

from vf import common
from vf.common import close
from vf.prog import ast, build, obs, tree
from vf.prog.build import PyVal


class Discard(Exception):
    """The case cannot be judged (numerically fragile reference, or rejected by the library in
    a documented way); it is counted, never reported as held or violated."""

    def __init__(self, why):
        super().__init__(why)
        self.why = why


class Issue:
    def __init__(self, clause, detail, cond=""):
        self.clause = clause
        self.detail = detail
        self.cond = cond

    def __repr__(self):
        return f"Issue({self.clause}, {self.cond}, {self.detail})"


class Case:
    def __init__(self, node, cid=""):
        self.node = node
        self.cid = cid
        node.is_root = True
        self.gf, self.src = build.build(node)
        self.kinds = node.kinds()

    def describe(self):
        return self.src


class Rec:
    """A real trace together with its reference view."""

    def __init__(self, case, tr, args):
        self.case = case
        self.tr = tr
        self.args = args  # reference-side args (may contain PyVal)
        self.rargs = build.strip_py(args)
        self.ex = None
        self.assign = None
        self.env = None
        self.ret_ref = None
        self.score = None
        self.ret = None

    def live(self):
        return set(self.env.terms)


def _install_observed(node, real_ret):
    for n in node.walk():
        if isinstance(n, ast.MaskedIterate):
            n.observed_seen = real_ret if n is node else None


def observe(case: Case, tr, args, issues, fill=None, what="trace"):
    """Build the reference view of a real trace and run the universal model checks."""
    rec = Rec(case, tr, args)
    node = case.node
    try:
        chm = tr.get_choices()
    except Exception as e:
        issues.append(Issue("model.structure", f"{what}: trace.get_choices() raised {common.exc_mechanism(e)}: {str(e)[:120]}", "get_choices-raises"))
        return None
    try:
        rec.ex = obs.extract(node, chm)
    except obs.StructuralMismatch as e:
        issues.append(Issue("model.structure", str(e)))
        return None
    rec.assign = obs.valid_assignment(rec.ex)
    if case.kinds & {"Switch", "OrElse", "Mix", "Mask"}:
        # view stability: masking the trace's choice map with a true (run-time) flag rebuilds the
        # switch / mask nodes and must not change which choices are valid, nor their values
        try:
            import jax.numpy as jnp

            ex2 = obs.valid_assignment(obs.extract(node, chm.mask(jnp.asarray(True))))
            if set(ex2) != set(rec.assign):
                issues.append(Issue("model.structure", f"{what}: get_choices().mask(True) holds different valid addresses: {sorted(set(ex2) ^ set(rec.assign), key=repr)[:4]}", "rebuilt-view"))
            else:
                for p in ex2:
                    if not _same_value(ex2[p], rec.assign[p]):
                        issues.append(Issue("model.structure", f"{what}: get_choices().mask(True) changes the value at {p}", "rebuilt-view"))
                        break
        except obs.StructuralMismatch as e:
            issues.append(Issue("model.structure", f"{what}: get_choices().mask(True): {e}", "rebuilt-view"))
        except Exception:
            # rebuilding a *stacked* choice map outside the vector combinator that produced it is
            # not something any property promises (nested vector flags of different ranks meet in
            # Mask.build): the view is simply not available for this trace
            pass
    rec.score = float(np.asarray(tr.get_score()))
    rec.ret = build.from_real(tr.get_retval())
    _install_observed(node, rec.ret)
    env = ast.RefEnv(rec.assign, fill=fill)
    try:
        rec.ret_ref = node.ref(env, (), rec.rargs)
    except ast.Fragile as e:
        raise Discard(f"fragile:{e}")
    except ast.MissingChoice as e:
        issues.append(Issue("model.addrs", f"{what}: the program visits {e.path} but the trace has no valid choice there"))
        return None
    rec.env = env
    nterms = max(1, len(env.terms))
    sref = env.score()
    if np.isfinite(sref):
        if not close(rec.score, sref, terms=nterms):
            issues.append(Issue("model.score", f"{what}: score {rec.score} vs reference {sref}"))
    else:
        rec.nonfinite = True
    d = _cmp_ret(node, rec.ret, rec.ret_ref)
    if d:
        issues.append(Issue("model.retval", f"{what}: {d}"))
    live = set(env.terms)
    valid = set(rec.assign)
    if live != valid:
        extra = sorted(valid - live, key=repr)[:4]
        issues.append(Issue("model.addrs", f"{what}: valid-but-not-visited {extra}"))
    return rec


def _cmp_ret(node, real, ref):
    if isinstance(node, ast.MaskedIterate) and isinstance(ref, tree.RefMask):
        # list of seen values: judged where the reference says the entry is defined
        try:
            a = np.asarray(real, dtype=np.float64)
            b = np.asarray(ref.value, dtype=np.float64)
            f = np.asarray(ref.flag)
            if a.shape != b.shape:
                return f"ret: shape {a.shape} vs {b.shape}"
            if not close(a[f], b[f]):
                return f"ret: {a.tolist()} vs {b.tolist()} (defined entries {f.tolist()})"
            return None
        except Exception as e:
            return f"ret: not comparable ({e})"
    return tree.tcompare(real, ref, close)


# ------------------------------------------------------------------ real-call helpers


class Rejected(Exception):
    def __init__(self, mech, exc):
        super().__init__(mech)
        self.mech = mech
        self.exc = exc


def call(f, *a, **k):
    """Call into the library; exceptions come back as Rejected(mechanism)."""
    try:
        return f(*a, **k)
    except Exception as e:  # noqa
        raise Rejected(common.exc_mechanism(e), e)


def key(i):
    import jax

    return jax.random.key(int(i) % (2**31 - 1))


def real_args(args):
    return build.to_real(args)


def argdiffs(args, tags=None):
    """Diff-tagged real arguments.  tags: None -> all UnknownChange; 'nochange' -> all NoChange;
    or a list of booleans per top-level argument (True = NoChange)."""
    from genjax import Diff

    ra = real_args(args)
    if tags is None:
        return Diff.unknown_change(ra)
    if tags == "nochange":
        return Diff.no_change(ra)
    out = []
    for a, t in zip(ra, tags):
        out.append(Diff.no_change(a) if t else Diff.unknown_change(a))
    return tuple(out)


def args_equal(a, b):
    ta, tb = build.strip_py(a), build.strip_py(b)
    return tree.tcompare(ta, tb, lambda x, y: bool(np.array_equal(np.asarray(x), np.asarray(y)))) is None


# ------------------------------------------------------------------ switch volatility
# The library treats an UnknownChange tag on a switch index as a request to run the selected
# branch afresh (Switch.edit: "generate a fresh trace for the new branch"), which properties
# C05/C08 name as the documented exception.  Choices inside such a branch are then *new random
# choices*: clauses about "previous values elsewhere" and "weight = score change when no new
# choice is introduced" do not speak about them.


def volatile_paths(case, tags, constrained):
    """Set of choice paths that an edit with these argument tags may legitimately redraw."""
    node = case.node
    vol = set()
    root_trigger = False
    if isinstance(node, ast.Switch) or isinstance(node, ast.OrElse):
        t0 = None if tags is None else (True if tags == "nochange" else bool(tags[0]))
        root_trigger = not t0  # idx / flag argument tagged UnknownChange
    elif isinstance(node, ast.Mix):
        # the component index is the return value of categorical @ "mixture_component": its tag
        # is UnknownChange exactly when that address is constrained
        root_trigger = any(p == ("mixture_component",) for p in constrained)
    for s in node.sites():
        if s.switchy == "nested" or (s.switchy == "root" and root_trigger):
            for p, _ in s.paths():
                vol.add(p)
    return vol


# ------------------------------------------------------------------ operations


def op_simulate(case, k, args, jit=False):
    issues = []
    if jit:
        # a trace that went through a JAX transformation (pytree round trip: dict-keyed
        # subtraces come back in sorted order, Python scalars as arrays)
        import jax

        ra = real_args(args)
        tr = call(lambda kk: jax.jit(lambda q: case.gf.simulate(q, ra))(kk), key(k))
    else:
        tr = call(case.gf.simulate, key(k), real_args(args))
    rec = observe(case, tr, args, issues, what="simulate")
    return rec, issues


def check_assess_self(rec, issues, what=""):
    """C01 verbatim: assess(trace.get_choices(), trace.get_args()) == (score, retval)."""
    tr = rec.tr
    try:
        s, r = tr.get_gen_fn().assess(tr.get_choices(), tr.get_args())
    except Exception as e:
        issues.append(Issue("assess.raises", f"{what}: assess on the trace's own choices raised {common.exc_mechanism(e)}: {str(e)[:120]}"))
        return
    s = float(np.asarray(s))
    if np.isfinite(rec.score) and not close(s, rec.score, terms=max(1, len(rec.assign))):
        issues.append(Issue("assess.score", f"{what}: assess score {s} vs trace score {rec.score}"))
    d = tree.tcompare(build.from_real(r), rec.ret, close)
    if d and not _unspecified_ret(rec.case.node):
        issues.append(Issue("assess.retval", f"{what}: assess retval differs from trace retval: {d}"))


def _unspecified_ret(node):
    return any(isinstance(n, ast.MaskedIterate) for n in node.walk())


def op_importance(case, k, constraint_vals, args, form="scalar", masks=None):
    """constraint_vals: {path: value}.  masks: {path: flag} -> Mask-wrapped constraint values."""
    issues = []
    chm = obs.build_constraint(constraint_vals, form=form, masks=masks)
    tr, w = call(case.gf.importance, key(k), chm, real_args(args))
    rec = observe(case, tr, args, issues, what="importance")
    if rec is None:
        return None, None, issues
    w = float(np.asarray(w))
    eff = effective_constraint(constraint_vals, masks)
    live = rec.live()
    exp_w = 0.0
    n = 0
    for p, v in eff.items():
        if p in live:
            got = rec.assign[p]
            if not _same_value(got, v):
                issues.append(Issue("imp.value", f"constrained {p}={_d(v)} but trace holds {_d(got)}"))
            exp_w += rec.env.terms[p]
            n += 1
    if np.isfinite(exp_w):
        if not close(w, exp_w, terms=max(1, n)):
            cond = "empty" if not eff else ("full" if set(eff) >= live else "partial")
            issues.append(Issue("imp.weight", f"weight {w} vs sum of constrained log-densities {exp_w} ({n} constrained live choices)", cond))
    rec.weight = w
    return rec, w, issues


def effective_constraint(vals, masks):
    if not masks:
        return dict(vals)
    out = {}
    for p, v in vals.items():
        if p in masks:
            if bool(np.asarray(masks[p].v if isinstance(masks[p], PyVal) else masks[p])):
                out[p] = v
        else:
            out[p] = v
    return out


def _same_value(a, b):
    a = np.asarray(a)
    b = np.asarray(b)
    if a.shape != b.shape:
        return False
    return bool(np.allclose(a.astype(np.float64), b.astype(np.float64), rtol=1e-6, atol=1e-6))


def _d(v):
    return np.round(np.asarray(v, dtype=np.float64), 5).tolist()


def op_update(case, rec, k, constraint_vals, new_args=None, tags=None, form="scalar", masks=None):
    """edit(key, Update(constraint), argdiffs).  Returns (new_rec, weight, retdiff, bwd_request, issues)."""
    issues = []
    args = rec.args if new_args is None else new_args
    chm = obs.build_constraint(constraint_vals, form=form, masks=masks)
    ad = argdiffs(args, tags)
    from genjax import Update

    tr2, w, rd, bwd_req = call(rec.tr.edit, key(k), Update(chm), ad)
    w = float(np.asarray(w))
    discard = getattr(bwd_req, "constraint", None)
    # new values at addresses that did not exist before are "new random choices": read from the trace
    new = observe(case, tr2, args, issues, what="update")
    if new is None:
        return None, w, rd, bwd_req, issues
    # args
    try:
        if not args_equal(build.from_real(tr2.get_args()), build.strip_py(args)) and not _args_close(tr2.get_args(), args):
            issues.append(Issue("upd.args", "trace arguments are not the new arguments"))
    except Exception:
        pass
    eff = effective_constraint(constraint_vals, masks)
    vol = volatile_paths(case, tags, eff)
    old_live, new_live = rec.live(), new.live()
    for p, v in eff.items():
        if p in new_live and not _same_value(new.assign[p], v):
            issues.append(Issue("upd.value", f"constrained {p}={_d(v)} but new trace holds {_d(new.assign[p])}"))
    for p in old_live & new_live:
        if p not in eff and p not in vol and not _same_value(new.assign[p], rec.assign[p]):
            issues.append(Issue("upd.unchanged", f"unconstrained {p} changed {_d(rec.assign[p])} -> {_d(new.assign[p])}"))
    # new random choices: live now, not fixed by the constraint, and either absent before or
    # inside a branch the library re-ran
    introduces = any((p not in old_live or p in vol) and p not in eff for p in new_live)
    new.volatile = vol
    exp_w = new.env.score() - rec.env.score()
    if not introduces and np.isfinite(exp_w):
        if not close(w, exp_w, terms=max(1, len(new_live) + len(old_live))):
            issues.append(Issue("upd.weight", f"weight {w} vs new score - old score {exp_w}", _upd_cond(case, rec, new, eff)))
    # discard
    dex = None
    if discard is None:
        issues.append(Issue("upd.discard", f"backward request of an Update is {type(bwd_req).__name__}, not an Update with a constraint", "not-update"))
    else:
        try:
            dex = obs.extract(case.node, discard)
        except obs.StructuralMismatch as e:
            issues.append(Issue("upd.discard", f"backward constraint unreadable: {e}", "unreadable"))
    if dex is not None:
        dvalid = obs.valid_assignment(dex)
        for p in eff:
            if p in vol:
                continue
            if p in old_live and p in new_live:
                if p not in dvalid:
                    issues.append(Issue("upd.discard", f"overwritten {p} missing from the backward constraint", "missing"))
                elif not _same_value(dvalid[p], rec.assign[p]):
                    issues.append(Issue("upd.discard", f"backward constraint at {p} is {_d(dvalid[p])}, previous value {_d(rec.assign[p])}", "wrong-value"))
        for p, v in dvalid.items():
            if p in vol:
                continue
            if p not in old_live:
                issues.append(Issue("upd.discard", f"backward constraint holds {p} which the old trace did not", "spurious"))
            elif not (p in eff or p not in new_live):
                issues.append(Issue("upd.discard", f"backward constraint holds untouched address {p}", "spurious"))
            elif not _same_value(v, rec.assign[p]):
                issues.append(Issue("upd.discard", f"backward constraint at {p} is {_d(v)}, previous value {_d(rec.assign[p])}", "wrong-value"))
    new.introduces = introduces
    return new, w, rd, bwd_req, issues


def _args_close(real_args_, args):
    d = tree.tcompare(build.from_real(real_args_), build.strip_py(args), close)
    return d is None


def _upd_cond(case, rec, new, eff):
    conds = []
    if not args_equal(rec.args, new.args):
        conds.append("args-changed")
    if eff:
        conds.append("constrained")
    return "+".join(conds) or "plain"


def check_retdiff(rec_old, rec_new, retdiff, issues, what="edit"):
    """C08 hook: NoChange leaves carry the old return value; primal(retdiff) is the new one."""
    from genjax import Diff
    import jax.tree_util as jtu
    from genjax._src.core.compiler.interpreters.incremental import NoChange

    try:
        primal = build.from_real(Diff.tree_primal(retdiff))
    except Exception as e:
        issues.append(Issue("tags.primal", f"{what}: retdiff unreadable {type(e).__name__}"))
        return
    d = tree.tcompare(primal, rec_new.ret, close)
    if d and not _unspecified_ret(rec_new.case.node):
        issues.append(Issue("tags.primal", f"{what}: primal of the retdiff differs from the new trace's return value: {d}"))
    # leaves tagged NoChange must equal the old return value's leaves
    leaves = jtu.tree_leaves(retdiff, is_leaf=lambda x: isinstance(x, Diff))
    old_leaves = jtu.tree_leaves(rec_old.tr.get_retval())
    flat = []
    for lf in leaves:
        if isinstance(lf, Diff):
            sub = jtu.tree_leaves(lf.primal)
            flat.extend((x, lf.tangent == NoChange) for x in sub)
        else:
            flat.append((lf, None))
    if len(flat) != len(old_leaves):
        return  # structure changed (e.g. mask unwrapping): not comparable leafwise
    for i, ((x, nochange), o) in enumerate(zip(flat, old_leaves)):
        if nochange:
            try:
                a = np.asarray(x, dtype=np.float64)
                b = np.asarray(o, dtype=np.float64)
            except Exception:
                continue
            if a.shape != b.shape or not close(a, b):
                issues.append(Issue("tags.nochange", f"{what}: return leaf {i} tagged NoChange but value changed {_d(b)} -> {_d(a)}"))


def op_project(case, rec, k, term):
    """project(key, selection) against the sum of selected live log-densities."""
    issues = []
    sel = obs.build_selection(term)
    w = call(rec.tr.project, key(k), sel)
    w = float(np.asarray(w))
    exp = 0.0
    n = 0
    for p, lp in rec.env.terms.items():
        if obs.sel_contains(term, obs.static_of(p)):
            exp += lp
            n += 1
    if np.isfinite(exp) and not close(w, exp, terms=max(1, n)):
        cond = "all" if term == ("all",) else ("none" if term == ("none",) else "partial")
        issues.append(Issue("proj.value", f"project {w} vs sum of selected log-densities {exp} ({n} selected of {len(rec.env.terms)})", cond))
    return w, exp, issues


def op_regenerate(case, rec, k, term, new_args=None, tags="nochange"):
    issues = []
    from genjax import Regenerate

    args = rec.args if new_args is None else new_args
    sel = obs.build_selection(term)
    ad = argdiffs(args, tags)
    tr2, w, rd, bwd = call(rec.tr.edit, key(k), Regenerate(sel), ad)
    w = float(np.asarray(w))
    new = observe(case, tr2, args, issues, what="regenerate")
    if new is None:
        return None, w, rd, bwd, issues
    old_live, new_live = rec.live(), new.live()
    vol = volatile_paths(case, tags, {}) if tags != "nochange" else set()
    changed = 0
    for p in old_live & new_live:
        same = _same_value(new.assign[p], rec.assign[p])
        if not same:
            changed += 1
            if not obs.sel_contains(term, obs.static_of(p)) and p not in vol:
                issues.append(Issue("regen.unselected", f"unselected {p} changed {_d(rec.assign[p])} -> {_d(new.assign[p])}", "args-changed" if new_args is not None else ""))
    exp_w = new.env.score() - rec.env.score()
    introduces = any(p not in old_live or p in vol for p in new_live)
    if np.isfinite(exp_w) and not (introduces and new_args is not None) and not close(w, exp_w, terms=max(1, len(new_live) + len(old_live))):
        issues.append(Issue("regen.weight", f"weight {w} vs new score - old score {exp_w}"))
    new.changed = changed
    return new, w, rd, bwd, issues


def same_trace(a: Rec, b: Rec):
    """Observable equality of two trace records (choices, score, retval)."""
    if set(a.assign) != set(b.assign):
        return f"address sets differ: {sorted(set(a.assign) ^ set(b.assign), key=repr)[:4]}"
    for p in a.assign:
        if not _same_value(a.assign[p], b.assign[p]):
            return f"{p}: {_d(a.assign[p])} vs {_d(b.assign[p])}"
    if np.isfinite(a.score) and np.isfinite(b.score) and not close(a.score, b.score, terms=max(1, len(a.assign))):
        return f"score {a.score} vs {b.score}"
    if not _unspecified_ret(a.case.node):
        d = tree.tcompare(a.ret, b.ret, close)
        if d:
            return "retval " + d
    return None


def op_edit(case, rec, k, request, new_args=None, tags="nochange", what="edit"):
    """Generic edit with an already-built request; returns (new_rec, w, retdiff, bwd, issues)."""
    issues = []
    args = rec.args if new_args is None else new_args
    ad = argdiffs(args, tags)
    tr2, w, rd, bwd = call(rec.tr.edit, key(k), request, ad)
    w = float(np.asarray(w))
    new = observe(case, tr2, args, issues, what=what)
    return new, w, rd, bwd, issues


def op_apply_bwd(case, rec_old, rec_new, k, bwd, fwd_w):
    """C06: apply the backward request to the new trace with the original argument values."""
    issues = []
    same_args = args_equal(rec_old.args, rec_new.args)
    ad = argdiffs(rec_old.args, "nochange" if same_args else None)
    try:
        tr3, w3, rd3, _ = rec_new.tr.edit(key(k), bwd, ad)
    except Exception as e:
        issues.append(Issue("bwd.apply", f"applying the backward request raised {common.exc_mechanism(e)}: {str(e)[:100]}", type(bwd).__name__))
        return None, issues
    back = observe(case, tr3, rec_old.args, issues, what="backward")
    if back is None:
        return None, issues
    d = same_trace(back, rec_old)
    if d:
        issues.append(Issue("bwd.restore", f"backward edit did not restore the original trace: {d}", type(bwd).__name__))
    w3 = float(np.asarray(w3))
    if np.isfinite(fwd_w) and not close(w3, -fwd_w, terms=max(1, len(rec_old.assign) + len(rec_new.assign))):
        issues.append(Issue("bwd.weight", f"backward weight {w3} vs negated forward weight {-fwd_w}", type(bwd).__name__))
    return back, issues


# ------------------------------------------------------------------ constraint generation


def gen_constraint(rng, case, rec_or_none, args, frac=None, only_live=True, paths=None):
    """{path: value} over addresses of the program, values inside the support and unique.
    Parameters for the sampler come from the current reference view when available."""
    node = case.node
    sites = []
    for s in node.sites():
        for p, _ in s.paths():
            sites.append((p, s.dist))
    if rec_or_none is not None and only_live:
        live = rec_or_none.live()
        sites = [(p, d) for p, d in sites if p in live]
    if paths is not None:
        sites = [(p, d) for p, d in sites if p in paths]
    if not sites:
        return {}
    # de-duplicate paths shared by branches
    uniq = {}
    for p, d in sites:
        uniq.setdefault(p, d)
    items = sorted(uniq.items(), key=lambda t: repr(t[0]))
    if frac is None:
        indexed = sorted({tuple(c for c in p if isinstance(c, str)) for p, _ in items if any(not isinstance(c, str) for c in p)})
        if indexed and rng.random() < 0.25:
            # one site under a vector combinator, constrained at every index and nothing else
            # (with form 'array' this is a single C[..., idx_array, ...] entry covering the axis)
            pat = indexed[int(rng.integers(len(indexed)))]
            return {p: sample_site_value(rng, d) for p, d in items if tuple(c for c in p if isinstance(c, str)) == pat}
        frac = float(rng.choice([0.0, 0.3, 0.5, 1.0], p=[0.1, 0.35, 0.35, 0.2]))
    out = {}
    for p, d in items:
        if rng.random() < frac or (frac > 0 and not out and p == items[-1][0]):
            # a constraint cannot hold both a value at p and entries beneath p (different
            # switch branches can own such overlapping addresses): keep the first chosen
            if any(q[: len(p)] == p or p[: len(q)] == q for q in out):
                continue
            out[p] = sample_site_value(rng, d)
    return out


def sample_site_value(rng, dnode):
    d = dnode.d
    name = d.name
    vshape = dnode.vshape
    if name in ("normal", "laplace", "normal_v", "mv_normal_diag"):
        return np.round(rng.normal(0.0, 1.0, size=vshape), 4).astype(np.float64) if vshape else np.float64(np.round(rng.normal(0, 1), 4))
    if name == "uniform":
        return np.float64(np.round(rng.uniform(-0.95, 0.95), 4))
    if name in ("exponential", "gamma"):
        return np.float64(np.round(0.05 + rng.exponential(1.0), 4))
    if name == "beta":
        return np.float64(np.round(rng.uniform(0.05, 0.95), 4))
    if name == "flip":
        return np.bool_(rng.random() < 0.5)
    if name == "bernoulli":
        return np.int32(rng.random() < 0.5)
    if name == "categorical":
        return np.int32(rng.integers(dnode.veclen))
    if name == "poisson":
        return np.float64(rng.integers(0, 4))
    raise ValueError(name)


# ------------------------------------------------------------------ generic edit requests


def op_request(case, rec, k, request, constrained, may_change, new_args=None, tags="nochange", what="edit"):
    """Apply any edit request whose *effect* is described independently of the library:
    `constrained` {path: value} must be installed, every other choice present before and after
    stays unchanged unless `may_change(path)`; weight == new score - old score when no new
    choice is introduced (the library's convention for Update and Regenerate alike)."""
    issues = []
    args = rec.args if new_args is None else new_args
    ad = argdiffs(args, tags)
    tr2, w, rd, bwd = call(rec.tr.edit, key(k), request, ad)
    w = float(np.asarray(w))
    new = observe(case, tr2, args, issues, what=what)
    if new is None:
        return None, w, rd, bwd, issues
    old_live, new_live = rec.live(), new.live()
    vol = volatile_paths(case, tags, constrained)
    new.volatile = vol
    for p, v in constrained.items():
        if p in new_live and not _same_value(new.assign[p], v):
            issues.append(Issue("req.value", f"{what}: constrained {p}={_d(v)} but new trace holds {_d(new.assign[p])}"))
    nchanged = 0
    for p in old_live & new_live:
        if p in constrained:
            continue
        if not _same_value(new.assign[p], rec.assign[p]):
            nchanged += 1
            if not may_change(p) and p not in vol:
                issues.append(Issue("req.unchanged", f"{what}: {p} changed {_d(rec.assign[p])} -> {_d(new.assign[p])} although the request does not address it"))
    exp_w = new.env.score() - rec.env.score()
    introduces = any((p not in old_live or p in vol) and p not in constrained for p in new_live)
    if not introduces and np.isfinite(exp_w):
        if not close(w, exp_w, terms=max(1, len(new_live) + len(old_live))):
            issues.append(Issue("req.weight", f"{what}: weight {w} vs new score - old score {exp_w}"))
    new.changed = nchanged
    return new, w, rd, bwd, issues


def op_assess(case, k, values, args):
    """assess(choice map of `values`, args) against the reference interpreter."""
    issues = []
    chm = obs.build_constraint(values, form="scalar")
    s, r = call(case.gf.assess, chm, real_args(args))
    env = ast.RefEnv(dict(values))
    try:
        ret = case.node.ref(env, (), build.strip_py(args))
    except ast.Fragile as e:
        raise Discard(f"fragile:{e}")
    s = float(np.asarray(s))
    sref = env.score()
    if np.isfinite(sref):
        if not close(s, sref, terms=max(1, len(env.terms))):
            issues.append(Issue("assess.model.score", f"assess score {s} vs reference {sref} over {len(env.terms)} choices"))
    elif np.isfinite(s):
        issues.append(Issue("assess.model.score", f"assess score {s} but reference is {sref}"))
    if not _unspecified_ret(case.node):
        d = tree.tcompare(build.from_real(r), ret, close)
        if d:
            issues.append(Issue("assess.model.retval", f"assess retval: {d}"))
    return env, issues


def ref_forward_sample(rng, case, args, all_sites=True):
    """A complete in-support assignment drawn by the *reference* sampler given the parents
    (plus arbitrary in-support values at non-live sites, which Switch.assess requires)."""
    def fill(path, dist, params):
        return dist.sample_constraint(rng, params)

    env = ast.RefEnv({}, fill=fill)
    case.node.ref(env, (), build.strip_py(args))
    vals = dict(env.values)
    if all_sites:
        for s in case.node.sites():
            for p, _ in s.paths():
                if p not in vals and not any(q[: len(p)] == p or p[: len(q)] == q for q in vals):
                    vals[p] = sample_site_value(rng, s.dist)
    return vals, env


def overlapping_sites(node):
    """True if some site path is a strict prefix of another (a leaf and a sub-tree at one address)."""
    paths = {s.static_path for s in node.sites()}
    for a in paths:
        for b in paths:
            if a != b and b[: len(a)] == a:
                return True
    return False
