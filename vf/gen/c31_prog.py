"""C31 workload: random small JAX functions with record points (`rec` / `tag`), as an AST that
is (a) turned into a real Python/JAX function that calls genjax.time_travel.rec / tag and
(b) evaluated independently by vf/ref/c31_ref.py.

AST (plain tuples / dicts, see c31_ref for the semantics):

  expr  := ("var", n) | ("const", c) | ("un", op, e) | ("bin", op, a, b)
         | ("cond", pred, thr, br_t, br_f, operand)      lax.cond, branches are pure
         | ("where", pred, a, b)
         | ("tag", e, tagname|None)                         genjax tag(v, name)
         | ("rec", callee, tagname|None, [argspec], mode)   genjax rec(callee, tag)(*args)
         | ("hidden", "cond"|"jit", pred, callee, arg)      a record point inside a cond branch / jit
  argspec := expr | ("tuple", [e, e]) | ("dict", {"a": e, "b": e})
  stmt  := ("let", n, expr) | ("unpack", names, keys|None, rec-expr)
  ret   := ("arr", e) | ("tuple", [e, e]) | ("dict", {k: e})
  callee := {"name", "params": [("arr", n) | ("tuple", [n, n]) | ("dict", {key: n})],
             "captures": [outer names], "body": [stmt], "ret": ret}
  mode  := "plain" (no captured values) | "partial" (captured values passed with Pytree.partial)
         | "pyclosure" (captured values referenced through the Python closure of the callable)
  prog  := {"params": [(n, (kind, shape))], "body": [stmt], "ret": ret, "arm": str, ...}
"""

from __future__ import annotations

import numpy as np

UN_OPS = ["sin", "tanh", "neg", "abs", "cumsum", "sumall", "half"]
BIN_OPS = ["add", "sub", "mul", "max"]
BRANCHES = [("scale", 0.5), ("scale", -1.5), ("addc", 1.25), ("addc", -0.75), ("sin",), ("negf",)]


class Gen:
    def __init__(self, rng, arm="plain", nrec=None, duptag=False):
        self.rng = rng
        self.arm = arm
        self.nrec = int(rng.integers(0, 6)) if nrec is None else nrec
        self.duptag = duptag
        self.ntag = 0
        self.nvar = 0
        self.ncallee = 0
        self.tags = []
        self.callees = []  # reusable (no captures, arr params only)
        self.features = set()

    # -- helpers
    def r(self):
        return float(self.rng.random())

    def ri(self, a, b):
        return int(self.rng.integers(a, b))

    def pick(self, xs):
        return xs[self.ri(0, len(xs))]

    def fresh(self, p="v"):
        self.nvar += 1
        return f"{p}{self.nvar}"

    def tagname(self):
        if self.r() < 0.4:
            self.features.add("untagged")
            return None
        if self.duptag and self.tags and self.r() < 0.6:
            self.features.add("duptag")
            return self.pick(self.tags)
        self.ntag += 1
        t = f"t{self.ntag}"
        self.tags.append(t)
        return t

    def const(self):
        if self.r() < 0.2:
            return ("const", int(self.ri(-3, 4)))
        return ("const", float(np.round(self.rng.uniform(-2, 2), 2)))

    # -- pure expressions (no record points)
    def pure(self, names, depth):
        if depth <= 0 or self.r() < 0.25:
            if names and self.r() < 0.85:
                return ("var", self.pick(names))
            return self.const()
        k = self.r()
        if k < 0.35:
            return ("un", self.pick(UN_OPS), self.pure(names, depth - 1))
        if k < 0.8:
            op = self.pick(BIN_OPS)
            a = self.pure(names, depth - 1)
            b = self.pure(names, depth - 1)
            if op == "mul":  # keep magnitudes bounded: one factor in [-1, 1] or a small constant
                b = self.const() if self.r() < 0.5 else ("un", "tanh", b)
            return ("bin", op, a, b)
        if k < 0.9 and names:
            self.features.add("cond")
            return ("cond", self.pure(names, depth - 1), float(np.round(self.rng.uniform(-1, 1), 2)),
                    self.pick(BRANCHES), self.pick(BRANCHES), self.pure(names, depth - 1))
        if names:
            self.features.add("where")
            return ("where", self.pure(names, depth - 1), self.pure(names, depth - 1), self.pure(names, depth - 1))
        return self.const()

    # -- expressions containing exactly `n` record points (counting nested ones)
    def expr(self, names, depth, n):
        if n == 0:
            return self.pure(names, depth)
        k = self.r()
        if k < 0.2:
            self.features.add("tag")
            return ("tag", self.expr(names, depth - 1, n - 1), self.tagname())
        if k < 0.65 or depth <= 0:
            return self.rec(names, depth, n)
        if k < 0.9:
            self.features.add("under-arith")
            n1 = self.ri(0, n + 1)
            op = self.pick(BIN_OPS)
            a = self.expr(names, depth - 1, n1)
            b = self.expr(names, depth - 1, n - n1)
            if op == "mul":
                b = ("un", "tanh", b)
            return ("bin", op, a, b)
        if self.r() < 0.5 and names:
            # record point result feeding a cond predicate / operand (record point *outside* the branches)
            self.features.add("cond-after-rec")
            return ("cond", self.expr(names, depth - 1, n), float(np.round(self.rng.uniform(-1, 1), 2)),
                    self.pick(BRANCHES), self.pick(BRANCHES), self.pure(names, 1))
        return ("un", self.pick(UN_OPS), self.expr(names, depth - 1, n))

    def rec(self, names, depth, n, ret_kind="arr"):
        """A rec node using exactly n record points: 1 (itself) + inner (callee body) + in args."""
        rest = n - 1
        n_inner = 0
        if rest > 0 and self.r() < 0.6:
            n_inner = self.ri(1, rest + 1)
            self.features.add("nested-body")
        n_args = rest - n_inner
        if n_args:
            self.features.add("rec-in-args")
        # reuse an existing callee (same function recorded at two call sites)
        if n_inner == 0 and ret_kind == "arr" and self.callees and self.r() < 0.2:
            callee = self.pick(self.callees)
            self.features.add("shared-callee")
            argspecs = []
            left = n_args
            for i, _ in enumerate(callee["params"]):
                k = left if i == len(callee["params"]) - 1 else self.ri(0, left + 1)
                left -= k
                argspecs.append(self.expr(names, min(depth - 1, 1), k))
            return ("rec", callee, self.tagname(), argspecs, "plain")
        nparams = self.ri(1, 4)
        params, argspecs = [], []
        left = n_args
        for i in range(nparams):
            k = left if i == nparams - 1 else self.ri(0, left + 1)
            left -= k
            s = self.r()
            if s < 0.15:
                self.features.add("tuple-arg")
                a, b = self.fresh("p"), self.fresh("p")
                params.append(("tuple", [a, b]))
                argspecs.append(("tuple", [self.expr(names, min(depth - 1, 1), k), self.pure(names, 1)]))
            elif s < 0.3:
                self.features.add("dict-arg")
                a, b = self.fresh("p"), self.fresh("p")
                params.append(("dict", {"a": a, "b": b}))
                argspecs.append(("dict", {"a": self.pure(names, 1), "b": self.expr(names, min(depth - 1, 1), k)}))
            else:
                params.append(("arr", self.fresh("p")))
                argspecs.append(self.expr(names, min(depth - 1, 1), k))
        mode = "plain"
        captures = []
        if self.arm in ("partial", "pyclosure") and names and self.r() < 0.8:
            mode = self.arm
            # prefer locals (computed intermediates) over the function's own parameters
            locs = [x for x in names if x.startswith("v")] or names
            captures = sorted(set(self.pick(locs) for _ in range(self.ri(1, 3))))
            self.features.add(mode)
        inner_names = [x for p in params for x in ([p[1]] if p[0] == "arr" else (p[1] if p[0] == "tuple" else list(p[1].values())))]
        inner_names = inner_names + captures
        body = []
        nst = max(self.ri(0, 3), 1 if n_inner else 0)
        left = n_inner
        for i in range(nst):
            k = left if i == nst - 1 else self.ri(0, left + 1)
            left -= k
            v = self.fresh("w")
            body.append(("let", v, self.expr(inner_names, 1, k)))
            inner_names = inner_names + [v]
        if ret_kind == "arr":
            ret = ("arr", self.pure(inner_names, 2) if nst == 0 or self.r() < 0.7 else ("var", inner_names[-1]))
            # make sure the callee depends on something
            if ret[1][0] == "const":
                ret = ("arr", ("bin", "add", ("var", inner_names[0]), ret[1]))
        elif ret_kind == "tuple":
            ret = ("tuple", [self.pure(inner_names, 1), self.pure(inner_names, 1)])
        else:
            ret = ("dict", {"u": self.pure(inner_names, 1), "w": self.pure(inner_names, 1)})
        # captured values must matter for the result
        def usecaps(e):
            for c in captures:
                e = ("bin", "add", e, ("un", "tanh", ("var", c)))
            return e

        if ret[0] == "arr":
            ret = ("arr", usecaps(ret[1]))
        elif ret[0] == "tuple":
            ret = ("tuple", [usecaps(ret[1][0]), ret[1][1]])
        else:
            ret = ("dict", {"u": ret[1]["u"], "w": usecaps(ret[1]["w"])})
        self.ncallee += 1
        callee = {"name": f"g{self.ncallee}", "params": params, "captures": captures, "body": body, "ret": ret}
        if not captures and ret_kind == "arr" and all(p[0] == "arr" for p in params) and n_inner == 0:
            self.callees.append(callee)
        return ("rec", callee, self.tagname(), argspecs, mode)

    def hidden(self, names):
        v = self.fresh("p")
        w = self.fresh("w")
        callee = {"name": f"h{self.ncallee}", "params": [("arr", v)], "captures": [],
                  "body": [("let", w, ("tag", ("un", "tanh", ("var", v)), None))],
                  "ret": ("arr", ("bin", "add", ("un", "tofloat", ("var", w)), ("const", float(np.round(self.rng.uniform(-2, 2), 2)))))}
        self.ncallee += 1
        how = "cond" if self.r() < 0.5 else "jit"
        self.features.add("hidden-" + how)
        return ("hidden", how, ("var", self.pick(names)), callee, ("un", "tofloat", ("var", self.pick(names))))

    def program(self):
        nparams = self.ri(1, 4)
        params = []
        for i in range(nparams):
            s = self.r()
            ty = ("f", ()) if s < 0.55 else (("f", (3,)) if s < 0.85 else ("i", ()))
            params.append((f"x{i}", ty))
        if not any(t[0] == "f" for _, t in params):
            params[0] = (params[0][0], ("f", ()))
        names = [n for n, _ in params]
        n = self.nrec
        nst = max(self.ri(1, 5), 1)
        # distribute the record points over the statements
        alloc = [0] * nst
        for _ in range(n):
            alloc[self.ri(0, nst)] += 1
        body = []
        if self.arm in ("partial", "pyclosure"):
            # a computed local first, so that callees have something non-trivial to capture
            v = self.fresh("v")
            body.append(("let", v, self.pure(names, 2)))
            names = names + [v]
        for i in range(nst):
            k = alloc[i]
            if k and self.r() < 0.25:
                kind = "tuple" if self.r() < 0.5 else "dict"
                self.features.add("pytree-ret")
                e = self.rec(names, 2, k, ret_kind=kind)
                a, b = self.fresh("v"), self.fresh("v")
                body.append(("unpack", [a, b], None if kind == "tuple" else ["u", "w"], e))
                names = names + [a, b]
            else:
                v = self.fresh("v")
                body.append(("let", v, self.expr(names, 2, k)))
                names = names + [v]
        if self.arm == "hidden":
            v = self.fresh("v")
            body.insert(self.ri(1, len(body) + 1), ("let", v, self.hidden([n for n, _ in params])))
            names = names + [v]
        s = self.r()
        last = ("var", names[-1])
        if s < 0.6:
            ret = ("arr", last if self.r() < 0.5 else ("bin", "add", last, self.pure(names, 1)))
        elif s < 0.8:
            ret = ("tuple", [last, self.pure(names, 1)])
        else:
            ret = ("dict", {"r": last, "s": self.pure(names, 1)})
        if ret[0] != "arr":
            self.features.add("pytree-final")
        return {"params": params, "body": body, "ret": ret, "arm": self.arm, "nrec": n,
                "features": sorted(self.features), "tags": list(self.tags)}


def gen_inputs(rng, prog):
    out = []
    for _, (kind, shape) in prog["params"]:
        out.append(rand_like(rng, kind, shape))
    return tuple(out)


def rand_like(rng, kind, shape):
    if kind == "i":
        return np.asarray(rng.integers(-4, 5, size=shape), dtype=np.int32)
    return np.asarray(np.round(rng.uniform(-3, 3, size=shape), 2), dtype=np.float32)


def rand_like_struct(rng, v):
    """Fresh random values with the structure / shapes / kinds of a reference value."""
    if isinstance(v, tuple):
        return tuple(rand_like_struct(rng, x) for x in v)
    if isinstance(v, dict):
        return {k: rand_like_struct(rng, x) for k, x in v.items()}
    a = np.asarray(v)
    return rand_like(rng, "i" if a.dtype.kind in "iu" else "f", a.shape)


# ------------------------------------------------------------------ pretty printer


def src_expr(e):
    k = e[0]
    if k == "var":
        return e[1]
    if k == "const":
        return repr(e[1])
    if k == "un":
        return f"{e[1]}({src_expr(e[2])})"
    if k == "bin":
        o = {"add": "+", "sub": "-", "mul": "*"}.get(e[1])
        return f"({src_expr(e[2])} {o} {src_expr(e[3])})" if o else f"maximum({src_expr(e[2])}, {src_expr(e[3])})"
    if k == "cond":
        return f"cond(sum({src_expr(e[1])}) > {e[2]}, {e[3]}, {e[4]}, {src_expr(e[5])})"
    if k == "where":
        return f"where({src_expr(e[1])} > 0, {src_expr(e[2])}, {src_expr(e[3])})"
    if k == "tag":
        return f"tag({src_expr(e[1])}, {e[2]!r})"
    if k == "hidden":
        return f"{e[1]}[rec({e[3]['name']})]({src_expr(e[2])}; {src_expr(e[4])})"
    if k == "rec":
        args = ", ".join(src_arg(a) for a in e[3])
        cap = "" if e[4] == "plain" else f"<{e[4]}:{','.join(e[1]['captures'])}>"
        return f"rec({e[1]['name']}{cap}, {e[2]!r})({args})"
    return repr(e)


def src_arg(a):
    if a[0] == "tuple":
        return "(" + ", ".join(src_expr(x) for x in a[1]) + ")"
    if a[0] == "dict":
        return "{" + ", ".join(f"{k!r}: {src_expr(x)}" for k, x in a[1].items()) + "}"
    return src_expr(a)


def src_ret(r):
    if r[0] == "arr":
        return src_expr(r[1])
    return src_arg(r)


def _callees(node, acc):
    if isinstance(node, dict) and "params" in node and "body" in node and "name" in node:
        if node["name"] not in acc:
            acc[node["name"]] = node
            for st in node["body"]:
                _callees(st, acc)
            _callees(node["ret"], acc)
        return
    if isinstance(node, dict):
        for v in node.values():
            _callees(v, acc)
    elif isinstance(node, (tuple, list)):
        for v in node:
            _callees(v, acc)


def to_source(prog):
    acc = {}
    for st in prog["body"]:
        _callees(st, acc)
    lines = []
    for c in acc.values():
        ps = ", ".join(p[1] if p[0] == "arr" else (str(tuple(p[1])) if p[0] == "tuple" else str(p[1])) for p in c["params"])
        lines.append(f"def {c['name']}({ps}):" + (f"  # captures {c['captures']}" if c["captures"] else ""))
        for st in c["body"]:
            lines.append("    " + src_stmt(st))
        lines.append("    return " + src_ret(c["ret"]))
    lines.append("def f(" + ", ".join(f"{n}:{t[0]}{list(t[1])}" for n, t in prog["params"]) + "):")
    for st in prog["body"]:
        lines.append("    " + src_stmt(st))
    lines.append("    return " + src_ret(prog["ret"]))
    return "\n".join(lines)


def src_stmt(st):
    if st[0] == "let":
        return f"{st[1]} = {src_expr(st[2])}"
    return f"{', '.join(st[1])} = {src_expr(st[3])}" + (f"  # keys {st[2]}" if st[2] else "")


# ------------------------------------------------------------------ the real JAX function


def build_jax(prog):
    """-> python function f(*args) written with jax.numpy / lax and genjax.time_travel.rec / tag."""
    import jax
    import jax.numpy as jnp
    from genjax import Pytree
    from genjax.time_travel import rec, tag

    f32 = jnp.float32

    def tofloat(x):
        return jnp.asarray(x, dtype=f32)

    def un(op, a):
        if op == "sin":
            return jnp.sin(tofloat(a))
        if op == "tanh":
            return jnp.tanh(tofloat(a))
        if op == "neg":
            return -a
        if op == "abs":
            return jnp.abs(a)
        if op == "cumsum":
            return jnp.cumsum(a, axis=0) if jnp.ndim(a) else a
        if op == "sumall":
            return jnp.sum(a)
        if op == "tofloat":
            return tofloat(a)
        if op == "half":
            return tofloat(a) * 0.5
        raise KeyError(op)

    def branch(br):
        k = br[0]
        if k == "scale":
            return lambda x: tofloat(x) * br[1]
        if k == "addc":
            return lambda x: tofloat(x) + br[1]
        if k == "sin":
            return lambda x: jnp.sin(tofloat(x))
        if k == "negf":
            return lambda x: -tofloat(x)
        raise KeyError(k)

    def ev(e, env):
        k = e[0]
        if k == "var":
            return env[e[1]]
        if k == "const":
            return e[1]
        if k == "un":
            return un(e[1], ev(e[2], env))
        if k == "bin":
            a = ev(e[2], env)
            b = ev(e[3], env)
            if e[1] == "add":
                return a + b
            if e[1] == "sub":
                return a - b
            if e[1] == "mul":
                return a * b
            return jnp.maximum(a, b)
        if k == "cond":
            _, pe, thr, bt, bf, oe = e
            p = ev(pe, env)
            x = ev(oe, env)
            return jax.lax.cond(jnp.sum(p) > thr, branch(bt), branch(bf), jnp.asarray(x))
        if k == "where":
            p = ev(e[1], env)
            a = ev(e[2], env)
            b = ev(e[3], env)
            return jnp.where(jnp.asarray(p) > 0, a, b)
        if k == "tag":
            v = ev(e[1], env)
            return tag(v, e[2])
        if k == "hidden":
            _, how, pe, callee, ae = e
            x = ev(ae, env)
            fn = lambda v: call(callee, (v,), ())  # noqa: E731
            if how == "cond":
                p = ev(pe, env)
                return jax.lax.cond(jnp.sum(p) > 0, lambda v: rec(fn, "hid")(v), lambda v: tofloat(v) - 1.0, x)
            return jax.jit(lambda v: rec(fn, "hid")(v))(x)
        if k == "rec":
            _, callee, tagname, argspecs, mode = e
            args = tuple(evarg(a, env) for a in argspecs)
            capvals = tuple(env[c] for c in callee["captures"])
            if mode == "partial" and capvals:
                nc = len(capvals)
                fn = Pytree.partial(*capvals)(lambda *a: call(callee, a[nc:], a[:nc]))
            elif mode == "pyclosure" and capvals:
                fn = lambda *a: call(callee, a, capvals)  # noqa: E731
            else:
                fn = lambda *a: call(callee, a, ())  # noqa: E731
            return rec(fn, tagname)(*args)
        raise KeyError(k)

    def evarg(a, env):
        if a[0] == "tuple":
            return tuple(ev(x, env) for x in a[1])
        if a[0] == "dict":
            return {k: ev(x, env) for k, x in a[1].items()}
        return ev(a, env)

    def bind(params, args, env):
        assert len(params) == len(args)
        for p, a in zip(params, args):
            if p[0] == "arr":
                env[p[1]] = a
            elif p[0] == "tuple":
                for n, x in zip(p[1], a):
                    env[n] = x
            else:
                for key, n in p[1].items():
                    env[n] = a[key]

    def body(stmts, env):
        for st in stmts:
            if st[0] == "let":
                env[st[1]] = ev(st[2], env)
            else:
                _, names, keys, e = st
                v = ev(e, env)
                if keys is None:
                    for n, x in zip(names, v):
                        env[n] = x
                else:
                    for n, key in zip(names, keys):
                        env[n] = v[key]

    def ret(r, env):
        if r[0] == "arr":
            return ev(r[1], env)
        if r[0] == "tuple":
            return tuple(ev(x, env) for x in r[1])
        return {k: ev(x, env) for k, x in r[1].items()}

    def call(callee, args, caps):
        env = dict(zip(callee["captures"], caps))
        bind(callee["params"], args, env)
        body(callee["body"], env)
        return ret(callee["ret"], env)

    def f(*args):
        env = {}
        bind([("arr", n) for n, _ in prog["params"]], args, env)
        body(prog["body"], env)
        return ret(prog["ret"], env)

    return f


def to_jax_args(v, pyconst_like=None):
    """numpy structure -> jnp arrays (float32 / int32)."""
    import jax.numpy as jnp

    if isinstance(v, tuple):
        return tuple(to_jax_args(x) for x in v)
    if isinstance(v, dict):
        return {k: to_jax_args(x) for k, x in v.items()}
    a = np.asarray(v)
    return jnp.asarray(a, dtype=jnp.int32 if a.dtype.kind in "iu" else jnp.float32)
