"""Workload for C30: model/guide pairs (real genjax generative functions) matching the numpy
families of vf/ref/c30_ref.py, and the four VI objectives built on them."""

from __future__ import annotations

import numpy as np

from vf.ref import c30_ref as R

# (objective, family, guide kind, theta names)          guide kind "plain_*" = ordinary genjax distribution
PROBLEMS = [
    ("ELBO", "normal-normal", "normal_reparam", ("qa", "qb")),
    ("ELBO", "normal-normal", "normal_reinforce", ("qa", "qb")),
    ("ELBO", "normal-normal", "plain_normal", ("qa", "qb")),
    ("ELBO", "normal-normal", "normal_reparam", ("qa", "qb", "m0")),
    ("ELBO", "normal-normal", "normal_reparam", ("qb", "s1")),
    ("ELBO", "chain2", "normal_reparam+normal_reparam", ("a1", "b1", "a2", "b2")),
    ("ELBO", "chain2", "normal_reinforce+normal_reparam", ("a1", "b1", "b2")),
    ("ELBO", "chain2", "normal_reparam+normal_reinforce", ("b1", "a2", "b2")),
    ("ELBO", "flip-normal", "flip_enum", ("qp",)),
    ("ELBO", "flip-normal", "flip_enum", ("qp", "pm")),
    ("ELBO", "flip-normal", "flip_mvd", ("qp",)),
    ("ELBO", "cat-normal", "categorical_enum", ("t0", "t1")),
    # a model parameter downstream of the enumerated site: the continuation carries tangents
    ("ELBO", "cat-normal", "categorical_enum", ("t0", "mu")),
    ("ELBO", "cat-normal", "categorical_enum", ("mu",)),
    ("ELBO", "flip-then-normal", "flip_enum+normal_reparam", ("qp", "a1", "bq")),
    ("ELBO", "mvdiag", "mv_normal_diag_reparam", ("a", "b")),
    ("IWELBO1", "normal-normal", "plain_normal", ("qa", "qb")),
    ("IWELBO2", "normal-normal", "plain_normal", ("qa", "qb")),
    ("IWELBO2", "normal-normal", "normal_reparam", ("qa", "qb")),
    ("IWELBO2", "flip-normal", "flip_enum", ("qp",)),
    ("IWELBO3", "flip-normal", "flip_enum", ("qp",)),
    ("PWake", "normal-normal", "plain_normal", ("m0", "s0")),
    ("PWake", "normal-normal", "normal_reparam", ("m0", "s1")),
    ("PWake", "flip-normal", "plain_flip", ("pm", "m1")),
    ("PWake", "flip-normal", "flip_enum", ("pm",)),
    ("QWake", "normal-normal", "normal_reparam", ("qa", "qb")),
    ("QWake", "normal-normal", "plain_normal", ("qa", "qb")),
    ("QWake", "flip-normal", "flip_enum", ("qp",)),
]


def problem_name(pb):
    return f"{pb[0]}:{pb[1]}:{pb[2]}:{'.'.join(pb[3])}"


def _u(rng, a, b):
    return float(np.round(rng.uniform(a, b), 3))


def make_family(rng, fam):
    if fam == "normal-normal":
        c = {"m0": _u(rng, -1, 1), "s0": _u(rng, 0.8, 2.5), "k": _u(rng, 0.5, 1.5), "c": _u(rng, -0.5, 0.5), "s1": _u(rng, 0.5, 1.5),
             "y": _u(rng, -2, 2), "qa": _u(rng, -1, 1), "qb": _u(rng, 0.4, 1.2), "ra": _u(rng, -1, 1), "rb": _u(rng, 0.4, 1.2)}
        return R.NormalNormal(c)
    if fam == "chain2":
        c = {"m0": _u(rng, -1, 1), "s0": _u(rng, 0.8, 2.0), "s2": _u(rng, 0.5, 1.5), "s1": _u(rng, 0.5, 1.5), "y": _u(rng, -2, 2), "cq": _u(rng, 0.3, 1.0),
             "a1": _u(rng, -1, 1), "b1": _u(rng, 0.4, 1.2), "a2": _u(rng, -1, 1), "b2": _u(rng, 0.4, 1.2)}
        return R.Chain2(c)
    if fam == "flip-normal":
        c = {"pm": _u(rng, 0.2, 0.8), "m1": _u(rng, 0.3, 1.5), "m2": _u(rng, -1.5, -0.3), "s": _u(rng, 0.6, 1.5), "y": _u(rng, -1.5, 1.5), "qp": _u(rng, 0.2, 0.8), "rp": _u(rng, 0.2, 0.8)}
        return R.FlipNormal(c)
    if fam == "cat-normal":
        pr = rng.dirichlet([3, 3, 3])
        c = {"prior": [float(x) for x in np.round(pr / pr.sum(), 4)], "mv": [_u(rng, -1.5, -0.5), _u(rng, -0.3, 0.3), _u(rng, 0.5, 1.5)], "s": _u(rng, 0.6, 1.5),
             "y": _u(rng, -1.5, 1.5), "w0": _u(rng, 0.3, 0.5), "w1": _u(rng, 0.3, 0.5), "mu": _u(rng, -0.5, 0.5),
             "t0": _u(rng, 0.2, 0.9), "t1": _u(rng, 0.2, 0.9)}
        s = sum(c["prior"])
        c["prior"] = [p / s for p in c["prior"]]
        return R.CatNormal(c)
    if fam == "flip-then-normal":
        c = {"pm": _u(rng, 0.3, 0.7), "d": _u(rng, 0.5, 1.5), "s0": _u(rng, 0.6, 1.5), "s1": _u(rng, 0.6, 1.5), "y": _u(rng, -1.5, 1.5), "a2": _u(rng, -1.5, 0.0)}
        return R.FlipThenNormal(c)
    if fam == "mvdiag":
        c = {"s0": _u(rng, 0.8, 2.0), "s1": _u(rng, 0.5, 1.5), "y": _u(rng, -2, 2), "k": _u(rng, -1, 1), "c0": _u(rng, -0.5, 0.5), "c1": _u(rng, 0.3, 0.8)}
        return R.MvDiag(c)
    raise ValueError(fam)


_RANGES = {
    "qa": (-1.0, 1.0), "qb": (0.4, 1.2), "m0": (-1.0, 1.0), "s0": (0.8, 2.0), "s1": (0.5, 1.5),
    "a1": (-1.0, 1.0), "b1": (0.4, 1.2), "a2": (-1.0, 1.0), "b2": (0.4, 1.2),
    "qp": (0.15, 0.85), "pm": (0.2, 0.8), "m1": (0.3, 1.5), "t0": (0.2, 0.9), "t1": (0.2, 0.9),
    "bq": (0.4, 1.2), "a": (-1.0, 1.0), "b": (0.4, 1.2), "mu": (-0.8, 0.8),
}


def make_theta(rng, names):
    return {k: _u(rng, *_RANGES[k]) for k in names}


def full_theta(fam, th):
    """theta dict completed with the family's constants for the parameters that are not optimised."""
    out = dict(fam.c)
    out.update(th)
    return out


# ------------------------------------------------------------------------------------------


def build(pb, fam, names):
    """Real genjax objects.  Returns grad_fn(key, theta_tuple) -> tuple of gradient estimates."""
    import jax.numpy as jnp

    import genjax
    from genjax import ChoiceMapBuilder as C
    from genjax import vi

    obj, famname, gkind, _ = pb
    c = fam.c
    idx = {k: i for i, k in enumerate(names)}

    def P(args, k):
        """parameter k: optimised (from the argument tuple) or the family's constant."""
        return args[idx[k]] if k in idx else c[k]

    def gdist(kind):
        return {
            "normal_reparam": vi.normal_reparam, "normal_reinforce": vi.normal_reinforce, "plain_normal": genjax.normal,
            "flip_enum": vi.flip_enum, "flip_mvd": vi.flip_mvd, "plain_flip": genjax.flip,
            "categorical_enum": vi.categorical_enum, "mv_normal_diag_reparam": vi.mv_normal_diag_reparam,
        }[kind]

    if famname == "normal-normal":
        @genjax.gen
        def model(*args):
            x = genjax.normal(P(args, "m0"), P(args, "s0")) @ "x"
            _ = genjax.normal(c["k"] * x + c["c"], P(args, "s1")) @ "y"

        obs = C["y"].set(c["y"])
        d = gdist(gkind)

        @genjax.marginal()
        @genjax.gen
        def guide(target):
            _ = d(P(target.args, "qa"), P(target.args, "qb")) @ "x"

        @genjax.marginal()
        @genjax.gen
        def fixed(target):
            _ = d(c["ra"], c["rb"]) @ "x"

    elif famname == "chain2":
        @genjax.gen
        def model(*args):
            x1 = genjax.normal(c["m0"], c["s0"]) @ "x1"
            x2 = genjax.normal(x1, c["s2"]) @ "x2"
            _ = genjax.normal(x2, c["s1"]) @ "y"

        obs = C["y"].set(c["y"])
        k1, k2 = gkind.split("+")
        d1, d2 = gdist(k1), gdist(k2)

        @genjax.marginal()
        @genjax.gen
        def guide(target):
            a = target.args
            x1 = d1(P(a, "a1"), P(a, "b1")) @ "x1"
            _ = d2(P(a, "a2") + c["cq"] * x1, P(a, "b2")) @ "x2"

        fixed = None

    elif famname == "flip-normal":
        @genjax.gen
        def model(*args):
            b = genjax.flip(P(args, "pm")) @ "b"
            _ = genjax.normal(jnp.where(b, P(args, "m1"), c["m2"]), c["s"]) @ "y"

        obs = C["y"].set(c["y"])
        d = gdist(gkind)

        @genjax.marginal()
        @genjax.gen
        def guide(target):
            _ = d(P(target.args, "qp")) @ "b"

        @genjax.marginal()
        @genjax.gen
        def fixed(target):
            _ = d(c["rp"]) @ "b"

    elif famname == "cat-normal":
        @genjax.gen
        def model(*args):
            i = genjax.categorical(jnp.log(jnp.asarray(c["prior"], dtype=jnp.float32))) @ "i"
            _ = genjax.normal(jnp.asarray(c["mv"], dtype=jnp.float32)[i] + P(args, "mu"), c["s"]) @ "y"

        obs = C["y"].set(c["y"])
        d = gdist(gkind)

        @genjax.marginal()
        @genjax.gen
        def guide(target):
            a = target.args
            p0 = c["w0"] * P(a, "t0")
            p1 = c["w1"] * P(a, "t1")
            _ = d(jnp.stack([jnp.asarray(p0, dtype=jnp.float32), jnp.asarray(p1, dtype=jnp.float32), jnp.asarray(1.0 - p0 - p1, dtype=jnp.float32)])) @ "i"

        fixed = None

    elif famname == "flip-then-normal":
        @genjax.gen
        def model(*args):
            b = genjax.flip(c["pm"]) @ "b"
            x = genjax.normal(jnp.where(b, c["d"], -c["d"]), c["s0"]) @ "x"
            _ = genjax.normal(x, c["s1"]) @ "y"

        obs = C["y"].set(c["y"])
        k1, k2 = gkind.split("+")
        d1, d2 = gdist(k1), gdist(k2)

        @genjax.marginal()
        @genjax.gen
        def guide(target):
            a = target.args
            b = d1(P(a, "qp")) @ "b"
            _ = d2(jnp.where(b, P(a, "a1"), c["a2"]), P(a, "bq")) @ "x"

        fixed = None

    elif famname == "mvdiag":
        @genjax.gen
        def model(*args):
            x = genjax.mv_normal_diag(jnp.zeros(2), c["s0"] * jnp.ones(2)) @ "x"
            _ = genjax.normal(x[0] + x[1], c["s1"]) @ "y"

        obs = C["y"].set(c["y"])
        d = gdist(gkind)

        @genjax.marginal()
        @genjax.gen
        def guide(target):
            a = target.args
            loc = jnp.stack([jnp.asarray(P(a, "a"), dtype=jnp.float32), jnp.asarray(c["k"] * P(a, "a") + c["c0"], dtype=jnp.float32)])
            sc = jnp.stack([jnp.asarray(P(a, "b"), dtype=jnp.float32), jnp.asarray(c["c1"] + P(a, "b"), dtype=jnp.float32)])
            _ = d(loc, sc) @ "x"

        fixed = None
    else:
        raise ValueError(famname)

    def make_target(*args):
        return genjax.Target(model, tuple(args), obs)

    if obj == "ELBO":
        return vi.ELBO(guide, make_target)
    if obj.startswith("IWELBO"):
        return vi.IWELBO(guide, make_target, int(obj[6:]))
    if obj == "PWake":
        return vi.PWake(fixed, make_target)
    if obj == "QWake":
        return vi.QWake(guide, fixed, make_target)
    raise ValueError(obj)


def ref_loss(pb, fam, names):
    """float64 loss as a function of the theta dict (+ the same without the log q term, for
    attributing a missing-entropy defect)."""
    obj = pb[0]
    if obj == "ELBO":
        return (lambda th: fam.elbo_loss(full_theta(fam, th))), (lambda th: fam.elbo_loss(full_theta(fam, th), with_logq=False))
    if obj.startswith("IWELBO"):
        N = int(obj[6:])
        return (lambda th: fam.iwelbo_loss(full_theta(fam, th), N)), (lambda th: fam.iwelbo_loss(full_theta(fam, th), N, with_logq=False))
    if obj == "PWake":
        return (lambda th: fam.pwake_loss(full_theta(fam, th))), None
    if obj == "QWake":
        return (lambda th: fam.qwake_loss(full_theta(fam, th))), None
    raise ValueError(obj)


def is_deterministic(pb):
    """Enumerable guide and no other randomness: one estimate is the exact gradient."""
    return pb[0] == "ELBO" and pb[2] in ("flip_enum", "categorical_enum")
