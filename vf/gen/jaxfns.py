"""Generator of pure JAX functions for the interpreter properties (C09, C36).

A generated function is an AST (``FnSpec``: straight-line SSA statements with nested blocks for
``lax.cond / switch / scan / fori_loop / while_loop`` bodies) with two independent back-ends:

* ``emit(spec)``   -> Python source of a real JAX function (``build(spec)`` execs it);
* ``evaluate(...)``-> plain numpy float64 evaluation of the same AST (the reference model).

The generator evaluates every candidate statement concretely (numpy) on the function's own
input sets while it builds the program and *rejects* statements whose discrete decisions
(comparisons, sort order, top_k, argmax, floor, loop conditions) have a margin below ``MARGIN``
or whose values leave ``[-MAXMAG, MAXMAG]``.  Every program that comes out is therefore
well-conditioned on its input sets: eager, jitted and interpreted float32 evaluation must agree
up to rounding, so an oracle that compares them cannot be tripped by a 1-ulp flip of a branch.

Grammar (types: f = f32 scalar, v = f32[n], i = i32 scalar, b = bool scalar):
arithmetic / transcendental unary+binary ops, comparison, boolean ops, where / lax.select,
static indexing (index, roll, reverse, concatenate of slices, .at[k].set), dynamic indexing
(x[i], dynamic_slice, dynamic_update_slice, .at[i].set/.add, take), reductions, int arithmetic,
multi-output primitives (sort_key_val, 3-operand sort, top_k, qr, eigh, divmod), custom_jvp /
custom_vjp / checkpoint / nested-jit calls, lax.cond, lax.switch, lax.scan (1-2 carries, with and
without xs / ys), lax.fori_loop (static and dynamic trip count), lax.while_loop, closures over
outer variables inside every body, closed-over array constants (jax and numpy), Python literals,
and outputs that are pass-through inputs, duplicates, constants or Python literals inside
tuples / dicts.  0-4 inputs (scalars, vectors, ints, bools, small pytrees; <= 4 leaves).
"""

from __future__ import annotations

from collections import ChainMap

import numpy as np

MARGIN = 0.02
MAXMAG = 40.0


class Reject(Exception):
    pass


class Mon:
    """Evaluation monitor: refuses ill-conditioned evaluations."""

    def __init__(self, strict=True):
        self.strict = strict
        self.decisions = 0
        self.min_margin = np.inf

    def margin(self, m):
        m = float(np.min(m))
        self.decisions += 1
        self.min_margin = min(self.min_margin, m)
        if self.strict and not (m >= MARGIN):
            raise Reject("margin")

    def val(self, x):
        a = np.asarray(x)
        if a.dtype.kind == "f":
            if not np.all(np.isfinite(a)):
                raise Reject("nonfinite")
            if self.strict and a.size and np.max(np.abs(a)) > MAXMAG:
                raise Reject("magnitude")
        return x

    def require(self, ok, why="domain"):
        if not ok:
            raise Reject(why)


# --------------------------------------------------------------------------------------- AST


class Stmt:
    __slots__ = ("op", "outs", "args", "params", "blocks")

    def __init__(self, op, outs, args=(), params=None, blocks=()):
        self.op = op
        self.outs = list(outs)  # [(name, type)]
        self.args = list(args)  # names (str) or python literals
        self.params = dict(params or {})
        self.blocks = list(blocks)


class Block:
    __slots__ = ("params", "stmts", "rets")

    def __init__(self, params, stmts, rets):
        self.params = list(params)  # [(name, type)]
        self.stmts = list(stmts)
        self.rets = list(rets)  # names


class FnSpec:
    def __init__(self):
        self.n = 3
        self.args = []  # [(argname, struct)], struct = ('leaf', name, type) | ('dict', {k: leaf}) | ('tuple', [leaf])
        self.leaves = []  # [(name, type, argidx)]
        self.consts = {}  # name -> (type, numpy value, 'jnp'|'np')
        self.stmts = []
        self.out = None  # nested ('tuple', [...]) | ('dict', {...}) | ('var', name) | ('lit', value)
        self.input_sets = []  # list of {leafname: numpy value}
        self.features = set()
        self.deps = {}  # var name -> frozenset(leaf names)
        self.wrapper = "plain"
        self.py_scalar_args = False
        self.depth = 0

    # -- outputs
    def out_items(self):
        items = []

        def walk(o):
            if o[0] == "tuple":
                for x in o[1]:
                    walk(x)
            elif o[0] == "dict":
                for k in sorted(o[1]):
                    walk(o[1][k])
            else:
                items.append(o)

        walk(self.out)
        return items

    def out_deps(self):
        return [self.deps.get(o[1], frozenset()) if o[0] == "var" else frozenset() for o in self.out_items()]

    def out_types(self):
        ty = self.types()
        return [ty.get(o[1]) if o[0] == "var" else "lit" for o in self.out_items()]

    def types(self):
        ty = {nm: t for nm, t, _ in self.leaves}
        ty.update({nm: c[0] for nm, c in self.consts.items()})
        for st in self.stmts:
            for nm, t in st.outs:
                ty[nm] = t
        return ty


# --------------------------------------------------------------------------- op tables
# simple ops: name -> (arg kinds, out kind, jax template, numpy function, margin function or None)
# arg kinds: 'X' polymorphic f|v (out 'X' = v if any arg is v), 'f','v','i','b'.


def _softplus(a):
    return np.logaddexp(a, 0.0)


def _sigmoid(a):
    return 1.0 / (1.0 + np.exp(-a))


UNARY = {
    "tanh": ("jnp.tanh({0})", np.tanh),
    "sin": ("jnp.sin({0})", np.sin),
    "cos": ("jnp.cos({0})", np.cos),
    "abs": ("jnp.abs({0})", np.abs),
    "neg": ("-{0}", lambda a: -a),
    "expn": ("jnp.exp(-jnp.abs({0}))", lambda a: np.exp(-np.abs(a))),
    "sqrtp": ("jnp.sqrt(jnp.abs({0}) + 0.5)", lambda a: np.sqrt(np.abs(a) + 0.5)),
    "log1p": ("jnp.log1p(jnp.abs({0}))", lambda a: np.log1p(np.abs(a))),
    "sq": ("{0} * {0} * 0.25", lambda a: a * a * 0.25),
    "relu": ("jax.nn.relu({0})", lambda a: np.maximum(a, 0.0)),
    "sigmoid": ("jax.nn.sigmoid({0})", _sigmoid),
    "softplus": ("jax.nn.softplus({0})", _softplus),
    "clip": ("jnp.clip({0}, -1.0, 1.5)", lambda a: np.clip(a, -1.0, 1.5)),
    "stopg": ("jax.lax.stop_gradient({0})", lambda a: a),
    "cvjp": ("CV({0})", lambda a: np.sin(a) * a),
    "ckpt": ("CKPT({0})", lambda a: np.sin(a) * 2.0 + a),
    "njit": ("NJIT({0})", lambda a: a * 0.5 + 1.0),
    "halfp": ("{0} * 0.5 + 0.25", lambda a: a * 0.5 + 0.25),
    "twice": ("{0} * 2.0", lambda a: a * 2.0),
    "mlit": ("1.5 - {0}", lambda a: 1.5 - a),
}

BINARY = {
    "add": ("{0} + {1}", lambda a, b: a + b),
    "sub": ("{0} - {1}", lambda a, b: a - b),
    "mul": ("{0} * {1}", lambda a, b: a * b),
    "max": ("jnp.maximum({0}, {1})", np.maximum),
    "min": ("jnp.minimum({0}, {1})", np.minimum),
    "sdiv": ("{0} / (1.0 + {1} * {1})", lambda a, b: a / (1.0 + b * b)),
    "hyp": ("jnp.sqrt({0} * {0} + {1} * {1} + 0.1)", lambda a, b: np.sqrt(a * a + b * b + 0.1)),
    "cjvp": ("CJ({0}, {1})", lambda a, b: a * np.sin(b)),
    "lerp": ("{0} * 0.75 + {1} * 0.25", lambda a, b: a * 0.75 + b * 0.25),
}

COMPARE = {
    "lt": ("{0} < {1}", lambda a, b: a < b),
    "gt": ("{0} > {1}", lambda a, b: a > b),
    "ge": ("{0} >= {1}", lambda a, b: a >= b),
}

BOOL2 = {
    "and": ("jnp.logical_and({0}, {1})", np.logical_and),
    "or": ("jnp.logical_or({0}, {1})", np.logical_or),
    "xor": ("jnp.logical_xor({0}, {1})", np.logical_xor),
}

REDUCE = {
    "sum": ("jnp.sum({0})", np.sum),
    "rmax": ("jnp.max({0})", np.max),
    "rmin": ("jnp.min({0})", np.min),
    "mean": ("jnp.mean({0})", np.mean),
    "norm": ("jnp.sqrt(jnp.sum({0} * {0}) + 0.1)", lambda a: np.sqrt(np.sum(a * a) + 0.1)),
    "lse": ("jax.nn.logsumexp({0})", lambda a: np.log(np.sum(np.exp(a - np.max(a)))) + np.max(a)),
}

VEC1 = {
    "cumsum": ("jnp.cumsum({0})", np.cumsum),
    "sortv": ("jnp.sort({0})", np.sort),
    "softmax": ("jax.nn.softmax({0})", lambda a: np.exp(a - np.max(a)) / np.sum(np.exp(a - np.max(a)))),
    "rev": ("{0}[::-1]", lambda a: a[::-1].copy()),
    "cummax": ("jax.lax.cummax({0})", np.maximum.accumulate),
}


def _arr(x):
    """Source of an operand that must be a jax array (numpy-held constants get wrapped)."""
    return f"jnp.asarray({x})"


def _src(a):
    """Operand -> source text."""
    if isinstance(a, str):
        return a
    if isinstance(a, bool):
        return "True" if a else "False"
    if isinstance(a, int):
        return repr(int(a))
    return repr(float(a))


# --------------------------------------------------------------------------------- evaluation


def _get(env, a):
    if isinstance(a, str):
        return env[a]
    if isinstance(a, bool):
        return np.bool_(a)
    if isinstance(a, int):
        return np.int64(a)
    return np.float64(a)


def eval_block(block, argvals, env, mon, n):
    loc = ChainMap({}, env)
    for (nm, _), v in zip(block.params, argvals):
        loc[nm] = v
    for st in block.stmts:
        eval_stmt(st, loc, mon, n)
    return [_get(loc, r) for r in block.rets]


def eval_stmt(st, env, mon, n):
    op = st.op
    a = [_get(env, x) for x in st.args]
    p = st.params
    outs = None
    if op in UNARY:
        outs = [UNARY[op][1](a[0])]
    elif op in BINARY:
        outs = [BINARY[op][1](a[0], a[1])]
    elif op in COMPARE:
        mon.margin(np.abs(a[0] - a[1]))
        outs = [np.bool_(COMPARE[op][1](a[0], a[1]))]
    elif op in BOOL2:
        outs = [np.bool_(BOOL2[op][1](a[0], a[1]))]
    elif op == "not":
        outs = [np.bool_(not a[0])]
    elif op in REDUCE:
        outs = [np.float64(REDUCE[op][1](a[0]))]
    elif op in VEC1:
        outs = [np.asarray(VEC1[op][1](a[0]), dtype=np.float64)]
    elif op == "leaky":
        mon.margin(np.abs(a[0] - p["c"]))
        outs = [np.where(a[0] > p["c"], a[0], 0.1 * a[0])]
    elif op == "scale":
        outs = [a[0] * p["c"]]
    elif op == "shift":
        outs = [a[0] + p["c"]]
    elif op in ("where", "select"):
        outs = [np.where(a[0], a[1], a[2]) + 0.0]
    elif op == "wherev":
        mon.margin(np.abs(a[0] - a[1]))
        outs = [np.where(a[0] < a[1], a[2], a[3]) + 0.0]
    elif op == "dot":
        outs = [np.float64(np.dot(a[0], a[1]))]
    elif op == "index":
        outs = [np.float64(a[0][p["k"]])]
    elif op == "roll":
        outs = [np.roll(a[0], p["k"])]
    elif op == "atset":
        v = np.array(a[0], dtype=np.float64)
        v[p["k"]] = a[1]
        outs = [v]
    elif op == "cat":
        k = p["k"]
        outs = [np.concatenate([a[0][k:], a[1][:k]])]
    elif op == "dyn":
        mon.require(0 <= int(a[1]) < n, "index-range")
        outs = [np.float64(a[0][int(a[1])])]
    elif op == "dynclip":
        outs = [np.float64(a[0][int(np.clip(a[1], 0, n - 1))])]
    elif op == "dynslice":
        mon.require(0 <= int(a[1]) <= n - 2, "index-range")
        outs = [np.float64(np.sum(a[0][int(a[1]) : int(a[1]) + 2]))]
    elif op == "dynupd":
        mon.require(0 <= int(a[1]) <= n - 2, "index-range")
        v = np.array(a[0], dtype=np.float64)
        v[int(a[1])] = a[2]
        v[int(a[1]) + 1] = a[2] * 0.5
        outs = [v]
    elif op == "atseti":
        mon.require(0 <= int(a[1]) < n, "index-range")
        v = np.array(a[0], dtype=np.float64)
        v[int(a[1])] = a[2]
        outs = [v]
    elif op == "ataddi":
        mon.require(0 <= int(a[1]) < n, "index-range")
        v = np.array(a[0], dtype=np.float64)
        v[int(a[1])] += a[2]
        outs = [v]
    elif op == "take":
        outs = [np.asarray(a[0])[np.asarray(a[1], dtype=np.int64)]]
    elif op == "argmax":
        s = np.sort(a[0])
        mon.margin(s[-1] - s[-2])
        outs = [np.int64(np.argmax(a[0]))]
    elif op == "iinc":
        outs = [np.int64(a[0] + p["c"])]
    elif op == "imod":
        outs = [np.int64((a[0] * 2 + 1) % n)]
    elif op == "iclip":
        outs = [np.int64(np.clip(a[0] + p["c"], 0, n - 1))]
    elif op == "imin":
        outs = [np.int64(min(a[0], a[1]))]
    elif op == "floor":
        x = a[0] * p["c"]
        fr = x - np.floor(x)
        mon.margin(min(fr, 1.0 - fr))
        outs = [np.int64(int(np.floor(x)) % n)]
    elif op == "itof":
        outs = [np.float64(a[0])]
    elif op == "ilt":
        outs = [np.bool_(a[0] < a[1])]
    elif op == "ieq":
        outs = [np.bool_(a[0] == p["k"])]
    elif op == "divmod":
        outs = [np.int64(a[0] // 2), np.int64(a[0] % 2)]
    elif op == "full":
        outs = [np.full((n,), a[0], dtype=np.float64)]
    elif op == "stack":
        outs = [np.asarray([a[j % len(a)] for j in range(n)], dtype=np.float64)]
    elif op == "arange":
        outs = [np.arange(n, dtype=np.float64) * a[0]]
    elif op == "matvec":
        outs = [(np.outer(a[0], a[1]) * 0.25 + a[3]) @ a[2]]
    elif op == "sortkv":
        s = np.sort(a[0])
        mon.margin(np.min(np.diff(s)))
        o = np.argsort(a[0], kind="stable")
        outs = [a[0][o], a[1][o]]
    elif op == "sort3":
        s = np.sort(a[0])
        mon.margin(np.min(np.diff(s)))
        o = np.argsort(a[0], kind="stable")
        outs = [a[0][o], a[1][o], a[2][o]]
    elif op == "topk":
        s = np.sort(a[0])
        mon.margin(np.min(np.diff(s)))
        o = np.argsort(-a[0], kind="stable")
        outs = [np.float64(a[0][o[0]] - 0.5 * a[0][o[1]]), np.int64(o[0]), np.int64(o[1])]
    elif op == "qr":
        m = np.outer(a[0], a[1]) * 0.25 + 1.5 * np.eye(n)
        mon.require(np.linalg.cond(m) < 30.0, "cond")
        q, r = np.linalg.qr(m)
        outs = [np.abs(np.diagonal(r)), q @ (r @ a[2])]
    elif op == "eigh":
        m = np.outer(a[0], a[0]) * 0.25 + a[1]
        w, _ = np.linalg.eigh(m)
        outs = [w]
    elif op == "cond":
        br = st.blocks[0] if bool(a[0]) else st.blocks[1]
        outs = eval_block(br, a[1:], env, mon, n)
    elif op == "switch":
        k = int(np.clip(a[0], 0, len(st.blocks) - 1))
        outs = eval_block(st.blocks[k], a[1:], env, mon, n)
    elif op == "scan":
        nc = p["ncarry"]
        carry = list(a[:nc])
        xs = a[nc:]
        ys = []
        for t in range(n):
            xt = [x[t] for x in xs]
            if p["iota"]:
                xt = [np.int64(t)] + xt
            r = eval_block(st.blocks[0], carry + xt, env, mon, n)
            carry = r[:nc]
            for c in carry:
                mon.val(c)
            if p["ys"]:
                ys.append(r[nc])
        outs = list(carry)
        if p["ys"]:
            outs.append(np.asarray(ys, dtype=np.float64))
    elif op == "fori":
        if p["dynamic"]:
            hi = int(min(max(int(a[0]), 0), p["N"]))
            state = list(a[1:])
        else:
            hi = p["N"]
            state = list(a)
        for t in range(hi):
            state = eval_block(st.blocks[0], [np.int64(t)] + state, env, mon, n)
            for c in state:
                mon.val(c)
        outs = state
    elif op == "while":
        cnt = 0
        state = list(a)
        while True:
            probe = np.float64(np.sum(state[0]))
            if cnt >= p["N"]:
                break
            mon.margin(np.abs(probe - p["thr"]))
            if not (probe < p["thr"]):
                break
            state = eval_block(st.blocks[0], [np.int64(cnt)] + state, env, mon, n)
            for c in state:
                mon.val(c)
            cnt += 1
        outs = [np.int64(cnt)] + state
    else:
        raise KeyError(op)
    for (nm, ty), v in zip(st.outs, outs):
        if ty in ("f", "v"):
            v = np.asarray(v, dtype=np.float64)
            mon.val(v)
            if ty == "f":
                v = np.float64(v)
        env[nm] = v


def evaluate(spec, leafvals, strict=False):
    """numpy reference value of every output item of `spec` for the given input leaf values."""
    mon = Mon(strict=strict)
    env = {nm: c[1] for nm, c in spec.consts.items()}
    for nm, ty, _ in spec.leaves:
        v = leafvals[nm]
        env[nm] = np.asarray(v, dtype=np.float64) if ty in ("f", "v") else v
    for st in spec.stmts:
        eval_stmt(st, env, mon, spec.n)
    res = []
    for o in spec.out_items():
        res.append(env[o[1]] if o[0] == "var" else o[1])
    return res, mon


# ------------------------------------------------------------------------------------ emission


def _emit_block_def(name, block, ind, lines, n):
    lines.append(f"{ind}def {name}({', '.join(nm for nm, _ in block.params)}):")
    body_ind = ind + "    "
    for st in block.stmts:
        emit_stmt(st, body_ind, lines, n)
    if len(block.rets) == 1:
        lines.append(f"{body_ind}return {_src(block.rets[0])}")
    else:
        lines.append(f"{body_ind}return ({', '.join(_src(r) for r in block.rets)},)")


def emit_stmt(st, ind, lines, n):
    op = st.op
    s = [_src(x) for x in st.args]
    p = st.params
    o = [nm for nm, _ in st.outs]
    tgt = ", ".join(o)

    def one(expr):
        lines.append(f"{ind}{o[0]} = {expr}")

    for tbl in (UNARY, BINARY, COMPARE, BOOL2, REDUCE, VEC1):
        if op in tbl:
            one(tbl[op][0].format(*s))
            return
    if op == "not":
        one(f"jnp.logical_not({s[0]})")
    elif op == "leaky":
        one(f"jnp.where({s[0]} > {p['c']!r}, {s[0]}, 0.1 * {s[0]})")
    elif op == "scale":
        one(f"{s[0]} * {p['c']!r}")
    elif op == "shift":
        one(f"{s[0]} + {p['c']!r}")
    elif op == "where":
        one(f"jnp.where({s[0]}, {s[1]}, {s[2]})")
    elif op == "select":
        one(f"jax.lax.select({s[0]}, {s[1]}, {s[2]})")
    elif op == "wherev":
        one(f"jnp.where({s[0]} < {s[1]}, {s[2]}, {s[3]})")
    elif op == "dot":
        one(f"jnp.dot({s[0]}, {s[1]})")
    elif op == "index":
        one(f"{s[0]}[{p['k']}]")
    elif op == "roll":
        one(f"jnp.roll({s[0]}, {p['k']})")
    elif op == "atset":
        one(f"{_arr(s[0])}.at[{p['k']}].set({s[1]})")
    elif op == "cat":
        one(f"jnp.concatenate([{s[0]}[{p['k']}:], {s[1]}[:{p['k']}]])")
    elif op == "dyn":
        one(f"{_arr(s[0])}[{s[1]}]")
    elif op == "dynclip":
        one(f"{_arr(s[0])}[jnp.clip({s[1]}, 0, {n - 1})]")
    elif op == "dynslice":
        one(f"jnp.sum(jax.lax.dynamic_slice({s[0]}, ({s[1]},), (2,)))")
    elif op == "dynupd":
        one(f"jax.lax.dynamic_update_slice({s[0]}, jnp.stack([{s[2]}, {s[2]} * 0.5]), ({s[1]},))")
    elif op == "atseti":
        one(f"{_arr(s[0])}.at[{s[1]}].set({s[2]})")
    elif op == "ataddi":
        one(f"{_arr(s[0])}.at[{s[1]}].add({s[2]})")
    elif op == "take":
        one(f"jnp.take({s[0]}, {s[1]})")
    elif op == "argmax":
        one(f"jnp.argmax({s[0]}).astype(jnp.int32)")
    elif op == "iinc":
        one(f"{s[0]} + {p['c']}")
    elif op == "imod":
        one(f"({s[0]} * 2 + 1) % {n}")
    elif op == "iclip":
        one(f"jnp.clip({s[0]} + {p['c']}, 0, {n - 1})")
    elif op == "imin":
        one(f"jnp.minimum({s[0]}, {s[1]})")
    elif op == "floor":
        one(f"jnp.floor({s[0]} * {p['c']!r}).astype(jnp.int32) % {n}")
    elif op == "itof":
        one(f"{_arr(s[0])}.astype(jnp.float32)")
    elif op == "ilt":
        one(f"{s[0]} < {s[1]}")
    elif op == "ieq":
        one(f"{s[0]} == {p['k']}")
    elif op == "divmod":
        lines.append(f"{ind}{tgt} = jnp.divmod({s[0]}, 2)")
    elif op == "full":
        one(f"jnp.full(({n},), {s[0]})")
    elif op == "stack":
        one("jnp.stack([" + ", ".join(s[j % len(s)] for j in range(n)) + "])")
    elif op == "arange":
        one(f"jnp.arange({n}, dtype=jnp.float32) * {s[0]}")
    elif op == "matvec":
        one(f"(jnp.outer({s[0]}, {s[1]}) * 0.25 + {s[3]}) @ {s[2]}")
    elif op == "sortkv":
        lines.append(f"{ind}{tgt} = jax.lax.sort_key_val({s[0]}, {s[1]})")
    elif op == "sort3":
        lines.append(f"{ind}{tgt} = jax.lax.sort(({s[0]}, {s[1]}, {s[2]}), num_keys=1)")
    elif op == "topk":
        t = o[0]
        lines.append(f"{ind}_{t}v, _{t}i = jax.lax.top_k({s[0]}, 2)")
        lines.append(f"{ind}{o[0]} = _{t}v[0] - 0.5 * _{t}v[1]")
        lines.append(f"{ind}{o[1]} = _{t}i[0]")
        lines.append(f"{ind}{o[2]} = _{t}i[1]")
    elif op == "qr":
        t = o[0]
        lines.append(f"{ind}_{t}q, _{t}r = jnp.linalg.qr(jnp.outer({s[0]}, {s[1]}) * 0.25 + 1.5 * jnp.eye({n}, dtype=jnp.float32))")
        lines.append(f"{ind}{o[0]} = jnp.abs(jnp.diagonal(_{t}r))")
        lines.append(f"{ind}{o[1]} = _{t}q @ (_{t}r @ {s[2]})")
    elif op == "eigh":
        t = o[0]
        lines.append(f"{ind}{o[0]}, _{t}V = jnp.linalg.eigh(jnp.outer({s[0]}, {s[0]}) * 0.25 + {s[1]})")
    elif op == "cond":
        t = o[0]
        _emit_block_def(f"_{t}T", st.blocks[0], ind, lines, n)
        _emit_block_def(f"_{t}F", st.blocks[1], ind, lines, n)
        call = f"jax.lax.cond({s[0]}, _{t}T, _{t}F{''.join(', ' + x for x in s[1:])})"
        _assign_multi(lines, ind, o, call)
    elif op == "switch":
        t = o[0]
        for j, b in enumerate(st.blocks):
            _emit_block_def(f"_{t}B{j}", b, ind, lines, n)
        fns = ", ".join(f"_{t}B{j}" for j in range(len(st.blocks)))
        call = f"jax.lax.switch({s[0]}, [{fns}]{''.join(', ' + x for x in s[1:])})"
        _assign_multi(lines, ind, o, call)
    elif op == "scan":
        t = o[0]
        nc = p["ncarry"]
        blk = st.blocks[0]
        # wrapper with scan's (carry, x) calling convention
        _emit_block_def(f"_{t}body", blk, ind, lines, n)
        cn = [f"_c{j}" for j in range(nc)]
        nx = len(s) - nc + (1 if p["iota"] else 0)
        xn = [f"_x{j}" for j in range(nx)]
        lines.append(f"{ind}def _{t}step(_carry, _x):")
        b2 = ind + "    "
        lines.append(f"{b2}{', '.join(cn)}{',' if nc == 1 else ''} = _carry")
        if nx == 1:
            lines.append(f"{b2}_x0 = _x")
        elif nx > 1:
            lines.append(f"{b2}{', '.join(xn)} = _x")
        lines.append(f"{b2}_r = _{t}body({', '.join(cn + xn)})")
        if nc + (1 if p["ys"] else 0) == 1:
            lines.append(f"{b2}_r = (_r,)")
        lines.append(f"{b2}return tuple(_r[:{nc}]), {'_r[' + str(nc) + ']' if p['ys'] else 'None'}")
        xsrc = list(s[nc:])
        if p["iota"]:
            xsrc = [f"jnp.arange({n})"] + xsrc
        if len(xsrc) == 0:
            xs_txt, ln = "None", f", length={n}"
        elif len(xsrc) == 1:
            xs_txt, ln = xsrc[0], ""
        else:
            xs_txt, ln = "(" + ", ".join(xsrc) + ")", ""
        init = ", ".join(_typed(x, "f") for x in s[:nc])
        lines.append(f"{ind}_{t}c, _{t}y = jax.lax.scan(_{t}step, ({init},), {xs_txt}{ln})")
        for j in range(nc):
            lines.append(f"{ind}{o[j]} = _{t}c[{j}]")
        if p["ys"]:
            lines.append(f"{ind}{o[nc]} = _{t}y")
    elif op == "fori":
        t = o[0]
        blk = st.blocks[0]
        _emit_block_def(f"_{t}body", blk, ind, lines, n)
        ns = len(o)
        lines.append(f"{ind}def _{t}step(_i, _s):")
        b2 = ind + "    "
        lines.append(f"{b2}_r = _{t}body(_i, *_s)")
        if ns == 1:
            lines.append(f"{b2}_r = (_r,)")
        lines.append(f"{b2}return tuple(_r)")
        if p["dynamic"]:
            hi = f"jnp.clip({s[0]}, 0, {p['N']})"
            init = ", ".join(s[1:])
        else:
            hi = str(p["N"])
            init = ", ".join(s)
        lines.append(f"{ind}_{t}s = jax.lax.fori_loop(0, {hi}, _{t}step, ({init},))")
        for j in range(ns):
            lines.append(f"{ind}{o[j]} = _{t}s[{j}]")
    elif op == "while":
        t = o[0]
        blk = st.blocks[0]
        _emit_block_def(f"_{t}body", blk, ind, lines, n)
        ns = len(o) - 1
        b2 = ind + "    "
        lines.append(f"{ind}def _{t}cond(_s):")
        lines.append(f"{b2}return jnp.logical_and(_s[0] < {p['N']}, jnp.sum(_s[1]) < {p['thr']!r})")
        lines.append(f"{ind}def _{t}step(_s):")
        lines.append(f"{b2}_r = _{t}body(*_s)")
        if ns == 1:
            lines.append(f"{b2}_r = (_r,)")
        lines.append(f"{b2}return (_s[0] + 1,) + tuple(_r)")
        init = ", ".join(s)
        zero = "jnp.int32(0)" if p.get("typed_counter", True) else "0"
        lines.append(f"{ind}_{t}s = jax.lax.while_loop(_{t}cond, _{t}step, ({zero}, {init}))")
        for j in range(ns + 1):
            lines.append(f"{ind}{o[j]} = _{t}s[{j}]")
    else:
        raise KeyError(op)


def _typed(x, ty):
    return x


def _assign_multi(lines, ind, o, call):
    if len(o) == 1:
        lines.append(f"{ind}{o[0]} = {call}")
    else:
        lines.append(f"{ind}{', '.join(o)}, = {call}")


def _emit_out(o):
    if o[0] == "tuple":
        inner = ", ".join(_emit_out(x) for x in o[1])
        return "(" + inner + ("," if len(o[1]) == 1 else "") + ")"
    if o[0] == "dict":
        return "{" + ", ".join(f"{k!r}: {_emit_out(v)}" for k, v in sorted(o[1].items())) + "}"
    if o[0] == "var":
        return o[1]
    return _src(o[1])


def emit(spec):
    lines = ["def make(C):"]
    for nm in spec.consts:
        lines.append(f"    {nm} = C[{nm!r}]")
    argn = [a for a, _ in spec.args]
    lines.append(f"    def f({', '.join(argn)}):")
    ind = "        "
    for an, struct in spec.args:
        if struct[0] == "dict":
            for k, leaf in sorted(struct[1].items()):
                lines.append(f"{ind}{leaf[1]} = {an}[{k!r}]")
        elif struct[0] == "tuple":
            for j, leaf in enumerate(struct[1]):
                lines.append(f"{ind}{leaf[1]} = {an}[{j}]")
    for st in spec.stmts:
        emit_stmt(st, ind, lines, spec.n)
    lines.append(f"{ind}return {_emit_out(spec.out)}")
    lines.append("    return f")
    return "\n".join(lines) + "\n"


_NS = None


def namespace():
    """Names available to emitted code (helpers with custom derivatives / nested transforms)."""
    global _NS
    if _NS is not None:
        return _NS
    import jax
    import jax.numpy as jnp

    @jax.custom_jvp
    def CJ(a, b):
        return a * jnp.sin(b)

    @CJ.defjvp
    def _cj_jvp(primals, tangents):
        a, b = primals
        ta, tb = tangents
        return a * jnp.sin(b), ta * jnp.sin(b) + a * jnp.cos(b) * tb

    @jax.custom_vjp
    def CV(a):
        return jnp.sin(a) * a

    def _cv_fwd(a):
        return jnp.sin(a) * a, a

    def _cv_bwd(res, g):
        return (g * (jnp.cos(res) * res + jnp.sin(res)),)

    CV.defvjp(_cv_fwd, _cv_bwd)

    CKPT = jax.checkpoint(lambda a: jnp.sin(a) * 2.0 + a)
    NJIT = jax.jit(lambda a: a * 0.5 + 1.0)
    _NS = {"jax": jax, "jnp": jnp, "np": np, "CJ": CJ, "CV": CV, "CKPT": CKPT, "NJIT": NJIT}
    return _NS


def jax_consts(spec):
    import jax.numpy as jnp

    out = {}
    for nm, (ty, val, kind) in spec.consts.items():
        if ty in ("f", "v", "m"):
            arr = np.asarray(val, dtype=np.float32)
        elif ty in ("iv", "i"):
            arr = np.asarray(val, dtype=np.int32)
        else:
            arr = np.asarray(val)
        out[nm] = jnp.asarray(arr) if kind == "jnp" else arr
    return out


def build(spec):
    """(source, callable) of the real JAX function."""
    src = emit(spec)
    ns = dict(namespace())
    exec(compile(src, "<jaxfn>", "exec"), ns)
    return src, ns["make"](jax_consts(spec))


def jax_leaf(ty, val, py_scalar=False):
    import jax.numpy as jnp

    if ty == "f":
        return float(val) if py_scalar else jnp.asarray(np.float32(val))
    if ty == "v":
        return jnp.asarray(np.asarray(val, dtype=np.float32))
    if ty == "i":
        return jnp.asarray(np.int32(val))
    return jnp.asarray(bool(val))


def jax_args(spec, leafvals):
    """Tuple of positional arguments (pytrees of jax arrays) for the given leaf values."""
    args = []
    for an, struct in spec.args:
        if struct[0] == "leaf":
            args.append(jax_leaf(struct[2], leafvals[struct[1]], spec.py_scalar_args))
        elif struct[0] == "dict":
            args.append({k: jax_leaf(l[2], leafvals[l[1]]) for k, l in struct[1].items()})
        else:
            args.append(tuple(jax_leaf(l[2], leafvals[l[1]]) for l in struct[1]))
    return tuple(args)


def arg_leaf_names(spec):
    """Leaf names in jax flattening order of the argument tuple (dict keys sorted)."""
    names = []
    for an, struct in spec.args:
        if struct[0] == "leaf":
            names.append(struct[1])
        elif struct[0] == "dict":
            names.extend(struct[1][k][1] for k in sorted(struct[1]))
        else:
            names.extend(l[1] for l in struct[1])
    return names


def tag_tree(spec, tags, no, unk):
    """Tangent tree (same structure as the argument tuple) from {leafname: bool changed}."""
    out = []
    for an, struct in spec.args:
        if struct[0] == "leaf":
            out.append(unk if tags[struct[1]] else no)
        elif struct[0] == "dict":
            out.append({k: (unk if tags[l[1]] else no) for k, l in struct[1].items()})
        else:
            out.append(tuple(unk if tags[l[1]] else no for l in struct[1]))
    return tuple(out)


# ---------------------------------------------------------------------------------- generation


def _q(x, step=0.125):
    return float(np.round(x / step) * step)


def rand_leaf_value(rng, ty, n):
    if ty == "f":
        v = _q(rng.uniform(-2.5, 2.5))
        return v if abs(v) > 0.1 else 0.625
    if ty == "v":
        return np.asarray([_q(x) for x in rng.uniform(-2.5, 2.5, size=n)], dtype=np.float64)
    if ty == "i":
        return np.int64(rng.integers(0, n))
    return np.bool_(rng.random() < 0.5)


def perturb(rng, ty, val, kind, n):
    """Perturbation `kind` in 0..3 of an input leaf: sign flip, +delta, x2, resample."""
    if ty in ("f", "v"):
        v = np.asarray(val, dtype=np.float64)
        if kind == 0:
            out = np.where(v == 0, 1.0, -v)
        elif kind == 1:
            out = v + 0.37
        elif kind == 2:
            out = np.where(v == 0, 0.11, v * 2.0)
        else:
            out = np.asarray(rng.uniform(-3, 3, size=v.shape))
            out = np.where(np.abs(out - v) < 0.05, out + 0.5, out)
        return np.float64(out) if ty == "f" else out
    if ty == "i":
        if kind == 0:
            return np.int64((int(val) + 1) % n)
        if kind == 1:
            return np.int64((int(val) - 1) % n)
        if kind == 2:
            r = n - 1 - int(val)
            return np.int64(r if r != int(val) else (int(val) + 1) % n)
        r = int(rng.integers(0, n))
        return np.int64(r if r != int(val) else (r + 1) % n)
    return np.bool_(not bool(val))


class Cfg:
    def __init__(self, depth=2, n_stmts=(4, 12), max_inputs=4, zero_input_p=0.05, nsets=2):
        self.depth = depth
        self.n_stmts = n_stmts
        self.max_inputs = max_inputs
        self.zero_input_p = zero_input_p
        self.nsets = nsets


class _G:
    def __init__(self, rng, cfg):
        self.rng = rng
        self.cfg = cfg
        self.spec = FnSpec()
        self.counter = 0
        self.n = self.spec.n = int(rng.integers(2, 5))
        self.used = set()
        self.cur = frozenset()  # inputs the operands picked so far for the current statement depend on

    # -- helpers
    def fresh(self, prefix="t"):
        self.counter += 1
        return f"{prefix}{self.counter}"

    def r(self):
        return self.rng.random()

    def choice(self, xs):
        return xs[int(self.rng.integers(len(xs)))]

    def lit(self):
        return self.choice([0.5, -0.75, 1.25, 2.0, -1.5, 0.3, 0.875, -0.4])

    def const_of(self, ty):
        """Name of a closed-over constant of type ty (created on demand)."""
        have = [nm for nm, c in self.spec.consts.items() if c[0] == ty]
        if have and self.r() < 0.7:
            return self.choice(have)
        n = self.n
        kind = "jnp" if self.r() < 0.6 else "np"
        # numpy-held constants are named N*, jax-held C* (the emitter wraps N* where jax array methods are needed)
        nm = f"{'C' if kind == 'jnp' else 'N'}{len(self.spec.consts)}"
        if ty == "f":
            val = np.float64(_q(self.rng.uniform(-2, 2)) or 0.5)
        elif ty == "v":
            val = np.asarray([_q(x) for x in self.rng.uniform(-2, 2, size=n)], dtype=np.float64)
        elif ty == "m":
            a = np.asarray([[_q(x, 0.25) for x in row] for row in self.rng.uniform(-1, 1, size=(n, n))])
            val = (a + a.T) * 0.5 + np.eye(n)
        elif ty == "iv":
            val = np.asarray(self.rng.integers(0, n, size=n), dtype=np.int64)
        elif ty == "i":
            val = np.int64(self.rng.integers(0, n))
        else:
            raise KeyError(ty)
        self.spec.consts[nm] = (ty, val, kind)
        self.spec.deps[nm] = frozenset()
        self.spec.features.add("const-" + kind)
        return nm

    def pick(self, scope, ty, allow_lit=True, fresh_bias=True):
        """An operand of type ty: visible variable, closed-over constant or literal."""
        names = [nm for nm, t in scope.items() if t == ty]
        r = self.r()
        if names and r < 0.8:
            pool = names
            # role separation: the operands of one statement (predicate / index / data / closure of a
            # body) preferably depend on *different* inputs, so that a change tag that ignores one
            # operand role is observable
            if self.r() < 0.6:
                deps = self.spec.deps
                disj = [nm for nm in names if deps.get(nm) and not (deps[nm] & self.cur)]
                if disj:
                    pool = disj
            # prefer variables that have not been consumed yet (keeps dataflow connected)
            unused = [nm for nm in pool if nm not in self.used]
            nm = self.choice(unused) if (unused and self.r() < 0.6) else self.choice(pool)
            self.used.add(nm)
            self.cur = self.cur | self.spec.deps.get(nm, frozenset())
            return nm
        if ty == "f":
            if allow_lit and self.r() < 0.5:
                return self.lit()
            return self.const_of("f")
        if ty == "v":
            return self.const_of("v")
        if ty == "i":
            if names:
                return self.choice(names)
            if allow_lit and self.r() < 0.5:
                return int(self.rng.integers(0, self.n))
            return self.const_of("i")
        if ty == "b":
            if names:
                return self.choice(names)
            return None
        raise KeyError(ty)

    def pick_var(self, scope, ty):
        """A *variable or constant* (never a literal)."""
        x = self.pick(scope, ty, allow_lit=False)
        return x

    def X(self, scope):
        tys = [t for t in ("f", "v") if any(tt == t for tt in scope.values())]
        if not tys:
            return self.choice(["f", "v"])
        return self.choice(tys)

    # -- statements
    def gen_stmt(self, scope, depth, want=None):
        """One random statement over `scope` (dict name->type). Returns Stmt or None."""
        n = self.n
        kinds = [
            ("unary", 10), ("binary", 12), ("compare", 4), ("bool", 2), ("where", 5), ("wherev", 2),
            ("static_index", 5), ("dyn_index", 6), ("reduce", 5), ("vec1", 4), ("int", 5), ("bcast", 3),
            ("multi", 8), ("matvec", 2), ("lit_arith", 3), ("call", 6),
        ]
        if depth > 0:
            kinds += [("cond", 7), ("switch", 3), ("scan", 7), ("fori", 4), ("while", 5)]
        if want == "f":
            kinds = [k for k in kinds if k[0] in ("unary", "binary", "where", "static_index", "dyn_index", "reduce", "multi", "cond", "scan", "fori", "while", "lit_arith", "call")]
        elif want == "v":
            kinds = [k for k in kinds if k[0] in ("unary", "binary", "where", "wherev", "vec1", "bcast", "multi", "matvec", "scan", "cond", "dyn_index", "static_index", "call")]
        w = np.asarray([k[1] for k in kinds], dtype=float)
        kind = kinds[int(self.rng.choice(len(kinds), p=w / w.sum()))][0]
        return getattr(self, "s_" + kind)(scope, depth, want)

    def _xty(self, scope, want):
        if want in ("f", "v"):
            return want
        return self.X(scope)

    def s_unary(self, scope, depth, want):
        ty = self._xty(scope, want)
        a = self.pick_var(scope, ty)
        ops = list(UNARY) + ["leaky", "scale", "shift"]
        op = self.choice(ops)
        params = {}
        if op in ("leaky",):
            params["c"] = self.choice([0.1, -0.3, 0.45])
        elif op in ("scale", "shift"):
            params["c"] = self.lit()
        self.spec.features.add(op if op in ("relu", "cvjp", "ckpt", "njit", "stopg") else "arith")
        return Stmt(op, [(self.fresh(), ty)], [a], params)

    def s_call(self, scope, depth, want):
        """Primitives that carry sub-functions / sub-jaxprs: custom_jvp_call, custom_vjp_call,
        remat, pjit."""
        ty = self._xty(scope, want)
        op = self.choice(["relu", "softplus", "cvjp", "ckpt", "njit", "cjvp", "cjvp"])
        self.spec.features.add(op)
        if op == "cjvp":
            return Stmt(op, [(self.fresh(), ty)], [self.pick_var(scope, ty), self.pick_var(scope, ty)])
        return Stmt(op, [(self.fresh(), ty)], [self.pick_var(scope, ty)])

    def s_binary(self, scope, depth, want):
        ty = self._xty(scope, want)
        op = self.choice(list(BINARY))
        if ty == "v" and self.r() < 0.35:
            a, b = self.pick_var(scope, "v"), self.pick(scope, "f")
            if self.r() < 0.5:
                a, b = b, a
        else:
            a = self.pick_var(scope, ty)
            b = self.pick(scope, ty)
            if self.r() < 0.5:
                a, b = b, a
        if op == "cjvp" and not (isinstance(a, str) and isinstance(b, str)):
            op = "mul"
        self.spec.features.add("cjvp" if op == "cjvp" else "arith")
        return Stmt(op, [(self.fresh(), ty)], [a, b])

    def s_lit_arith(self, scope, depth, want):
        a = self.pick_var(scope, "f")
        op = self.choice(["add", "mul", "sub", "max"])
        args = [a, self.lit()] if self.r() < 0.5 else [self.lit(), a]
        self.spec.features.add("literal-operand")
        return Stmt(op, [(self.fresh(), "f")], args)

    def s_compare(self, scope, depth, want):
        op = self.choice(list(COMPARE))
        a = self.pick_var(scope, "f")
        b = self.pick(scope, "f")
        self.spec.features.add("compare")
        return Stmt(op, [(self.fresh("b"), "b")], [a, b])

    def s_bool(self, scope, depth, want):
        a = self.pick(scope, "b")
        if a is None:
            return self.s_compare(scope, depth, want)
        if self.r() < 0.3:
            return Stmt("not", [(self.fresh("b"), "b")], [a])
        b = self.pick(scope, "b")
        return Stmt(self.choice(list(BOOL2)), [(self.fresh("b"), "b")], [a, b])

    def s_where(self, scope, depth, want):
        c = self.pick(scope, "b")
        if c is None:
            return self.s_compare(scope, depth, want)
        ty = self._xty(scope, want)
        x = self.pick_var(scope, ty)
        y = self.pick_var(scope, ty)
        op = "select" if self.r() < 0.4 else "where"
        if op == "where" and self.r() < 0.3 and ty == "f":
            y = self.lit()
        self.spec.features.add("select")
        return Stmt(op, [(self.fresh(), ty)], [c, x, y])

    def s_wherev(self, scope, depth, want):
        a, b = self.pick_var(scope, "v"), self.pick_var(scope, "v")
        x, y = self.pick_var(scope, "v"), self.pick_var(scope, "v")
        self.spec.features.add("select")
        return Stmt("wherev", [(self.fresh(), "v")], [a, b, x, y])

    def s_static_index(self, scope, depth, want):
        n = self.n
        a = self.pick_var(scope, "v")
        opts = ["index"] if want == "f" else (["roll", "atset", "cat"] if want == "v" else ["index", "index", "roll", "atset", "cat"])
        op = self.choice(opts)
        self.spec.features.add("static-index")
        if op == "index":
            return Stmt("index", [(self.fresh(), "f")], [a], {"k": int(self.rng.integers(-1, n))})
        if op == "roll":
            return Stmt("roll", [(self.fresh(), "v")], [a], {"k": int(self.rng.integers(1, n))})
        if op == "atset":
            return Stmt("atset", [(self.fresh(), "v")], [a, self.pick(scope, "f")], {"k": int(self.rng.integers(0, n))})
        return Stmt("cat", [(self.fresh(), "v")], [a, self.pick_var(scope, "v")], {"k": int(self.rng.integers(1, n))})

    def s_dyn_index(self, scope, depth, want):
        a = self.pick_var(scope, "v")
        i = self.pick(scope, "i", allow_lit=False)
        opts = ["dyn", "dynclip", "dynslice"] if want == "f" else (["dynupd", "atseti", "ataddi", "take"] if want == "v" else ["dyn", "dyn", "dynclip", "dynslice", "dynupd", "atseti", "ataddi", "take"])
        op = self.choice(opts)
        self.spec.features.add("dynamic-index")
        if op in ("dyn", "dynclip", "dynslice"):
            return Stmt(op, [(self.fresh(), "f")], [a, i])
        if op == "take":
            return Stmt("take", [(self.fresh(), "v")], [a, self.const_of("iv")])
        return Stmt(op, [(self.fresh(), "v")], [a, i, self.pick(scope, "f")])

    def s_reduce(self, scope, depth, want):
        a = self.pick_var(scope, "v")
        r = self.r()
        self.spec.features.add("reduce")
        if r < 0.15 and want is None:
            return Stmt("argmax", [(self.fresh("i"), "i")], [a])
        if r < 0.3:
            return Stmt("dot", [(self.fresh(), "f")], [a, self.pick_var(scope, "v")])
        return Stmt(self.choice(list(REDUCE)), [(self.fresh(), "f")], [a])

    def s_vec1(self, scope, depth, want):
        a = self.pick_var(scope, "v")
        self.spec.features.add("vec")
        return Stmt(self.choice(list(VEC1)), [(self.fresh(), "v")], [a])

    def s_int(self, scope, depth, want):
        r = self.r()
        self.spec.features.add("int")
        ints = [nm for nm, t in scope.items() if t == "i"]
        if r < 0.25 or not ints:
            a = self.pick_var(scope, "f")
            return Stmt("floor", [(self.fresh("i"), "i")], [a], {"c": self.choice([1.0, 1.5, 0.75])})
        a = self.choice(ints)
        self.used.add(a)
        op = self.choice(["iinc", "imod", "iclip", "imin", "itof", "ilt", "ieq", "divmod"])
        if op == "iinc":
            return Stmt(op, [(self.fresh("i"), "i")], [a], {"c": self.choice([1, -1, 2])})
        if op == "iclip":
            return Stmt(op, [(self.fresh("i"), "i")], [a], {"c": self.choice([1, -1, 2])})
        if op == "imod":
            return Stmt(op, [(self.fresh("i"), "i")], [a])
        if op == "imin":
            return Stmt(op, [(self.fresh("i"), "i")], [a, self.pick(scope, "i")])
        if op == "itof":
            return Stmt(op, [(self.fresh(), "f")], [a])
        if op == "ilt":
            return Stmt(op, [(self.fresh("b"), "b")], [a, self.pick(scope, "i")])
        if op == "ieq":
            return Stmt(op, [(self.fresh("b"), "b")], [a], {"k": int(self.rng.integers(0, self.n))})
        return Stmt("divmod", [(self.fresh("i"), "i"), (self.fresh("i"), "i")], [a])

    def s_bcast(self, scope, depth, want):
        op = self.choice(["full", "stack", "arange"])
        self.spec.features.add("broadcast")
        if op == "stack":
            k = int(self.rng.integers(1, 3))
            args = [self.pick_var(scope, "f")] + [self.pick(scope, "f", allow_lit=False) for _ in range(k)]
            return Stmt("stack", [(self.fresh(), "v")], args)
        return Stmt(op, [(self.fresh(), "v")], [self.pick_var(scope, "f")])

    def s_matvec(self, scope, depth, want):
        self.spec.features.add("matrix-const")
        return Stmt("matvec", [(self.fresh(), "v")], [self.pick_var(scope, "v"), self.pick_var(scope, "v"), self.pick_var(scope, "v"), self.const_of("m")])

    def s_multi(self, scope, depth, want):
        n = self.n
        opts = ["sortkv", "sort3", "topk", "qr", "eigh"]
        if want == "v":
            opts = ["sortkv", "sort3", "qr", "eigh"]
        elif want == "f":
            opts = ["topk"]
        op = self.choice(opts)
        self.spec.features.add("multi-" + op)
        v = lambda: self.pick_var(scope, "v")  # noqa
        if op == "sortkv":
            return Stmt(op, [(self.fresh(), "v"), (self.fresh(), "v")], [v(), v()])
        if op == "sort3":
            return Stmt(op, [(self.fresh(), "v"), (self.fresh(), "v"), (self.fresh(), "v")], [v(), v(), v()])
        if op == "topk":
            return Stmt(op, [(self.fresh(), "f"), (self.fresh("i"), "i"), (self.fresh("i"), "i")], [v()])
        if op == "qr":
            return Stmt(op, [(self.fresh(), "v"), (self.fresh(), "v")], [v(), v(), v()])
        return Stmt("eigh", [(self.fresh(), "v")], [v(), self.const_of("m")])

    # -- nested blocks
    def gen_block(self, scope, param_types, ret_types, depth, nst=None):
        """A block with fresh parameters of the given types, returning variables of ret_types.
        Outer variables in `scope` stay visible (closure)."""
        params = [(self.fresh("p"), t) for t in param_types]
        inner = dict(scope)
        local = {}
        for nm, t in params:
            inner[nm] = t
            local[nm] = t
        stmts = []
        nst = nst if nst is not None else int(self.rng.integers(1, 4))
        for _ in range(nst):
            # bias operands toward block-local names so that the body really uses its parameters
            st = self.gen_stmt(self._biased(inner, local), depth - 1)
            if st is None:
                continue
            stmts.append(st)
            for nm, t in st.outs:
                inner[nm] = t
                local[nm] = t
        rets = []
        defined = {nm: t for st in stmts for nm, t in st.outs}
        for t in ret_types:
            cands = [nm for nm, tt in defined.items() if tt == t and nm not in rets]
            if not cands or self.r() < 0.15:
                st = None
                for _ in range(4):
                    st = self.gen_stmt(self._biased(inner, local), 0, want=t) if t in ("f", "v") else None
                    if st is not None and st.outs[0][1] == t:
                        break
                    st = None
                if st is None:
                    st = self._convert(inner, local, t)
                stmts.append(st)
                for nm, tt in st.outs:
                    inner[nm] = tt
                    local[nm] = tt
                    defined[nm] = tt
                rets.append(st.outs[0][0])
            else:
                rets.append(cands[-1] if self.r() < 0.6 else self.choice(cands))
        return Block(params, stmts, rets)

    def _biased(self, inner, local):
        """Scope view in which local names are much more likely to be picked."""
        if not local or self.r() < 0.3:
            return inner
        view = dict(local)
        # keep types that have no local variable reachable from the outer scope
        have = set(local.values())
        for nm, t in inner.items():
            if t not in have:
                view[nm] = t
        return view

    def _convert(self, inner, local, t):
        """A statement producing type t from whatever is visible (prefers locals)."""
        sc = self._biased(inner, local)
        if t == "f":
            vs = [nm for nm, tt in sc.items() if tt == "v"]
            fs = [nm for nm, tt in sc.items() if tt == "f"]
            if fs:
                return Stmt("halfp", [(self.fresh(), "f")], [self.choice(fs)])
            if vs:
                return Stmt("mean", [(self.fresh(), "f")], [self.choice(vs)])
            return Stmt("halfp", [(self.fresh(), "f")], [self.const_of("f")])
        if t == "v":
            vs = [nm for nm, tt in sc.items() if tt == "v"]
            if vs:
                return Stmt("tanh", [(self.fresh(), "v")], [self.choice(vs)])
            return Stmt("full", [(self.fresh(), "v")], [self.pick_var(sc, "f")])
        if t == "i":
            is_ = [nm for nm, tt in sc.items() if tt == "i"]
            if is_:
                return Stmt("iclip", [(self.fresh("i"), "i")], [self.choice(is_)], {"c": 1})
            return Stmt("floor", [(self.fresh("i"), "i")], [self.pick_var(sc, "f")], {"c": 1.0})
        raise KeyError(t)

    def s_cond(self, scope, depth, want):
        c = self.pick(scope, "b")
        if c is None:
            return self.s_compare(scope, depth, want)
        nops = int(self.rng.integers(0, 3))
        ops = [self.pick_var(scope, self.X(scope)) for _ in range(nops)]
        ptypes = [scope[o] if o in scope else self.spec.consts[o][0] for o in ops]
        nret = 1 if want else int(self.rng.integers(1, 3))
        rtypes = [want or self.choice(["f", "v"]) for _ in range(nret)]
        bt = self.gen_block(scope, ptypes, rtypes, depth)
        bf = self.gen_block(scope, ptypes, rtypes, depth)
        self.spec.features.add("cond")
        return Stmt("cond", [(self.fresh(), t) for t in rtypes], [c] + ops, {}, [bt, bf])

    def s_switch(self, scope, depth, want):
        i = self.pick(scope, "i", allow_lit=False)
        x = self.pick_var(scope, self.X(scope))
        pt = scope[x] if x in scope else self.spec.consts[x][0]
        rt = want or self.choice(["f", "v"])
        nb = int(self.rng.integers(2, 4))
        blocks = [self.gen_block(scope, [pt], [rt], depth, nst=int(self.rng.integers(1, 3))) for _ in range(nb)]
        self.spec.features.add("switch")
        return Stmt("switch", [(self.fresh(), rt)], [i, x], {}, blocks)

    def s_scan(self, scope, depth, want):
        form = self.choice(["f", "ff", "fv"] if want != "v" else ["fv"])
        ctypes = {"f": ["f"], "ff": ["f", "f"], "fv": ["f", "v"]}[form]
        xsform = self.choice(["v", "none", "vv", "iota"])
        xs, xtypes, iota = [], [], False
        if xsform == "v":
            xs, xtypes = [self.pick_var(scope, "v")], ["f"]
        elif xsform == "vv":
            xs, xtypes = [self.pick_var(scope, "v"), self.pick_var(scope, "v")], ["f", "f"]
        elif xsform == "iota":
            iota, xtypes = True, ["i"]
        ys = self.r() < 0.6 or want == "v"
        init = [self.pick_var(scope, t) for t in ctypes]
        body = self.gen_block(scope, ctypes + xtypes, ctypes + (["f"] if ys else []), depth)
        outs = [(self.fresh(), t) for t in ctypes] + ([(self.fresh(), "v")] if ys else [])
        self.spec.features.add("scan")
        if len(ctypes) > 1:
            self.spec.features.add("scan-multicarry")
        return Stmt("scan", outs, init + xs, {"ncarry": len(ctypes), "ys": ys, "iota": iota}, [body])

    def s_fori(self, scope, depth, want):
        stypes = self.choice([["f"], ["v"], ["f", "v"]]) if want is None else [want]
        dynamic = self.r() < 0.4 and any(t == "i" for t in scope.values())
        init = [self.pick_var(scope, t) for t in stypes]
        body = self.gen_block(scope, ["i"] + stypes, stypes, depth)
        N = int(self.rng.integers(1, 5))
        args = ([self.pick(scope, "i", allow_lit=False)] if dynamic else []) + init
        self.spec.features.add("fori-dynamic" if dynamic else "fori-static")
        return Stmt("fori", [(self.fresh(), t) for t in stypes], args, {"N": N, "dynamic": dynamic}, [body])

    def s_while(self, scope, depth, want):
        stypes = self.choice([["f"], ["v"], ["f", "f"], ["v", "f"]]) if want is None else [want]
        init = [self.pick_var(scope, t) for t in stypes]
        body = self.gen_block(scope, ["i"] + stypes, stypes, depth)
        N = int(self.rng.integers(2, 6))
        thr = self.choice([1.0, 2.5, 0.0, 4.0, -1.0])
        self.spec.features.add("while")
        outs = [(self.fresh("i"), "i")] + [(self.fresh(), t) for t in stypes]
        return Stmt("while", outs, init, {"N": N, "thr": thr, "typed_counter": self.r() < 0.7}, [body])


def _stmt_refs(st, acc):
    for a in st.args:
        if isinstance(a, str):
            acc.add(a)
    for b in st.blocks:
        for s2 in b.stmts:
            _stmt_refs(s2, acc)
        for r in b.rets:
            if isinstance(r, str):
                acc.add(r)


def _has_nested_cf(st, level=0):
    d = level
    for b in st.blocks:
        for s2 in b.stmts:
            if s2.blocks:
                d = max(d, _has_nested_cf(s2, level + 1))
    return d


CONTROL = ("cond", "switch", "scan", "fori", "while")


def generate(rng, cfg=None):
    """A random well-conditioned function spec (see module docstring)."""
    cfg = cfg or Cfg()
    for _attempt in range(50):
        g = _G(rng, cfg)
        spec = g.spec
        n = g.n
        # ---- inputs
        if g.r() < cfg.zero_input_p:
            k = 0
        else:
            k = int(rng.choice([1, 2, 3, 4], p=[0.2, 0.4, 0.27, 0.13]))
            k = min(k, cfg.max_inputs)
        leaves_left = 4
        for ai in range(k):
            an = f"x{ai}"
            remaining_args = k - ai - 1
            room = leaves_left - remaining_args
            r = g.r()
            if room >= 2 and r < 0.25:
                form = g.choice(["dict", "tuple"])
                tys = [g.choice(["f", "v"]), g.choice(["f", "v", "i"])]
                if form == "dict":
                    struct = ("dict", {key: ("leaf", f"{an}_{key}", t) for key, t in zip(["a", "b"], tys)})
                    ls = [struct[1][key] for key in sorted(struct[1])]
                else:
                    struct = ("tuple", [("leaf", f"{an}_{j}", t) for j, t in enumerate(tys)])
                    ls = struct[1]
                spec.features.add("pytree-input")
            else:
                t = str(rng.choice(["f", "v", "i", "b"], p=[0.38, 0.38, 0.14, 0.10]))
                struct = ("leaf", an, t)
                ls = [struct]
            spec.args.append((an, struct))
            for l in ls:
                spec.leaves.append((l[1], l[2], ai))
                spec.deps[l[1]] = frozenset([l[1]])
            leaves_left -= len(ls)
        spec.py_scalar_args = g.r() < 0.06
        spec.input_sets = [{nm: rand_leaf_value(rng, ty, n) for nm, ty, _ in spec.leaves} for _ in range(cfg.nsets)]
        scope = {nm: ty for nm, ty, _ in spec.leaves}
        # constants are always reachable
        g.const_of("v")
        if g.r() < 0.5:
            g.const_of("f")
        envs = []
        for s in spec.input_sets:
            env = {nm: c[1] for nm, c in spec.consts.items()}
            for nm, ty, _ in spec.leaves:
                env[nm] = np.asarray(s[nm], dtype=np.float64) if ty in ("f", "v") else s[nm]
            envs.append(env)
        target = int(rng.integers(cfg.n_stmts[0], cfg.n_stmts[1] + 1))
        tries = 0
        while len(spec.stmts) < target and tries < target * 8:
            tries += 1
            nconst = len(spec.consts)
            used_before = set(g.used)
            feats_before = set(spec.features)
            g.cur = frozenset()
            st = g.gen_stmt(scope, cfg.depth)
            ok = st is not None
            if ok:
                # new constants must be visible to the evaluation
                for e in envs:
                    for nm, c in spec.consts.items():
                        e.setdefault(nm, c[1])
                trial = [dict(e) for e in envs]
                try:
                    for e in trial:
                        eval_stmt(st, e, Mon(strict=True), n)
                except Reject:
                    ok = False
                except (IndexError, ValueError, FloatingPointError, ZeroDivisionError, np.linalg.LinAlgError):
                    ok = False
            if not ok:
                # drop constants created for the rejected statement
                for nm in list(spec.consts)[nconst:]:
                    del spec.consts[nm]
                    spec.deps.pop(nm, None)
                    for e in envs:
                        e.pop(nm, None)
                g.used = used_before
                spec.features = feats_before
                continue
            envs = trial
            spec.stmts.append(st)
            refs = set()
            _stmt_refs(st, refs)
            d = frozenset().union(*[spec.deps.get(r, frozenset()) for r in refs]) if refs else frozenset()
            for nm, t in st.outs:
                scope[nm] = t
                spec.deps[nm] = d
            if st.blocks:
                spec.depth = max(spec.depth, 1 + _has_nested_cf(st))
        if len(spec.stmts) < 2:
            continue
        # ---- outputs
        defined = [nm for st in spec.stmts for nm, _ in st.outs]
        consumed = set()
        for st in spec.stmts:
            _stmt_refs(st, consumed)
        sinks = [nm for nm in defined if nm not in consumed]
        items = []
        nout = int(rng.integers(2, 6))
        rng.shuffle(sinks)
        for nm in sinks[:nout]:
            items.append(("var", nm))
        while len(items) < nout:
            items.append(("var", g.choice(defined)))
        r = g.r()
        if spec.leaves and r < 0.35:
            items.append(("var", g.choice([l[0] for l in spec.leaves])))
            spec.features.add("passthrough-output")
        if g.r() < 0.25:
            items.append(items[int(rng.integers(len(items)))])
            spec.features.add("duplicate-output")
        if g.r() < 0.3:
            items.append(("lit", g.choice([1.0, 0.25, 2, 7, True])))
            spec.features.add("literal-output")
        if g.r() < 0.15:
            items.append(("var", g.choice(list(spec.consts))))
            spec.features.add("const-output")
        order = rng.permutation(len(items))
        items = [items[int(j)] for j in order]
        form = g.r()
        if form < 0.4 or len(items) < 3:
            spec.out = ("tuple", items)
        elif form < 0.7:
            spec.out = ("tuple", [items[0], ("tuple", items[1:3])] + items[3:])
        else:
            spec.out = ("dict", {"r": items[0], "s": ("tuple", items[1:])})
        if g.r() < 0.06:
            spec.out = items[0]
        w = g.r()
        spec.wrapper = "plain" if w < 0.8 else ("initial_style" if w < 0.9 else "jit")
        # final strict validation on every input set (also exercises the whole-program evaluator)
        try:
            for s in spec.input_sets:
                evaluate(spec, s, strict=True)
        except Reject:
            continue
        return spec
    raise RuntimeError("generator could not produce a well-conditioned function")


def describe(spec):
    return {
        "n": spec.n,
        "inputs": [(nm, ty) for nm, ty, _ in spec.leaves],
        "features": sorted(spec.features),
        "stmts": len(spec.stmts),
        "depth": spec.depth,
        "wrapper": spec.wrapper,
    }


# ------------------------------------------------------------------------------- fixed corpus
# Hand-written functions outside the random grammar (PRNG keys, transforms used inside the
# function, None / empty / bare outputs, integer and small-float dtypes).  Inputs are fixed, so the
# verdict on them does not depend on the seed.  Oracle: ordinary evaluation in the same mode.


def corpus():
    import jax
    import jax.numpy as jnp

    f32 = lambda x: jnp.asarray(x, dtype=jnp.float32)  # noqa
    logits = f32([0.1, 1.3, -0.7, 0.4])

    def prng(key, x):
        k1, k2 = jax.random.split(key)
        n = jax.random.normal(k1, (3,)) * x
        u = jax.random.uniform(k2)
        c = jax.random.categorical(k1, logits * x)
        return n, (u, c), key, jax.random.key_data(k2)

    def prng_loop(key, x):
        def body(i, s):
            k, acc = s
            return jax.random.fold_in(k, i), acc + jax.random.normal(k) * x

        k, acc = jax.lax.fori_loop(0, 3, body, (key, x))
        return acc, jax.random.bernoulli(k, 0.5)

    def transforms_inside(x, v):
        g = jax.grad(lambda a: jnp.sum(jnp.sin(a * v)))(x)
        h = jax.jvp(jnp.tanh, (v,), (v,))[1]
        hv = jax.vmap(lambda e: e * x + 1.0)(v)
        vg, = jax.vjp(lambda a: a * a, v)[1](v)
        return g, h, hv, vg

    def map_assoc(v, w):
        a = jax.lax.map(lambda e: e * 2.0 + 1.0, v)
        b = jax.lax.associative_scan(jnp.add, w)
        c = jnp.einsum("i,i->", v, v)
        return a, b, c, jnp.convolve(v, f32([0.5, 0.25]), mode="same")

    def tree_out(d):
        return {"k": (d["a"], [d["b"]["c"] * 2.0, None]), "z": (), "lit": 3}

    def nothing(x):
        return ()

    def identity(x, y):
        return x

    def bare_literal(x):
        return 3.0

    def int_bool(i, b, x):
        return i << 1, i // 3, jnp.logical_and(b, i > 2), jnp.where(b, i, -i), i.astype(jnp.float32) / 2.0 + x, i ^ 5, jnp.bitwise_not(i)

    def dtype_zoo(x):
        return (x.astype(jnp.bfloat16) * 2, x.astype(jnp.float16) + 1, (x * 10).astype(jnp.int8), jnp.uint32(7) + (x > 0), jnp.asarray(x, dtype=jnp.complex64) * (1 + 2j))

    def weak_scalars(n, h, u, q):
        # Python scalars are weakly typed: they adopt the narrow dtype of the array they meet
        a = u + n
        b = q * h
        c = jax.lax.cond(n > 2, lambda t: t + n, lambda t: t - n, u[0])
        return a, b, c

    key = jax.random.key(20260921)
    cases = [
        ("weak-python-scalars", weak_scalars, (250, 1.0005, jnp.asarray([10, 11, 21], dtype=jnp.uint8), jnp.asarray([0.1, 0.3, 0.7], dtype=jnp.float16))),
        ("prng", prng, (key, f32(1.5))),
        ("prng-loop", prng_loop, (key, f32(0.75))),
        ("transforms-inside", transforms_inside, (f32(0.625), f32([0.5, -1.25, 2.0]))),
        ("map-assoc-einsum", map_assoc, (f32([0.5, -1.25, 2.0]), f32([1.0, 0.25, -0.5]))),
        ("tree-out-none-empty", tree_out, ({"a": f32(2.0), "b": {"c": f32([1.0, 2.0])}},)),
        ("no-outputs", nothing, (f32(1.0),)),
        ("identity-unused-input", identity, (f32(1.0), f32([2.0, 3.0]))),
        ("bare-literal", bare_literal, (f32(1.0),)),
        ("int-bool", int_bool, (jnp.asarray(5, dtype=jnp.int32), jnp.asarray(True), f32(0.5))),
        ("dtype-zoo", dtype_zoo, (f32(1.375),)),
    ]
    return cases


def is_key(x):
    import jax

    try:
        return jax.dtypes.issubdtype(x.dtype, jax.dtypes.prng_key)
    except Exception:
        return False


def leaf_to_np(x):
    """numpy view of an output / input leaf (typed PRNG keys through key_data)."""
    import jax

    if is_key(x):
        return np.asarray(jax.random.key_data(x))
    return np.asarray(x)


def perturb_any(x, kind):
    """Perturbation `kind` (0..3) of an arbitrary array leaf (float, int, bool, PRNG key)."""
    import jax
    import jax.numpy as jnp

    if is_key(x):
        return jax.random.key(1000 + kind)
    a = np.asarray(x)
    if a.dtype.kind == "f":
        out = [np.where(a == 0, 1.0, -a), a + 0.37, np.where(a == 0, 0.11, a * 2.0), a * 0.5 - 1.7][kind]
    elif a.dtype.kind in "iu":
        out = [a + 1, a - 1, a * 2 + 1, 7 - a][kind]
        if np.array_equal(out, a):
            out = a + 3
    else:
        out = np.logical_not(a)
    return jnp.asarray(out.astype(a.dtype))
