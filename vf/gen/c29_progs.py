"""Workload for C29: random ADEV programs (plain data, see vf/ref/c29_ref.py) and their
compilation to real `genjax.adev` source functions."""

from __future__ import annotations

import numpy as np

from vf.ref import c29_ref as R

# focus arms ------------------------------------------------------------------------------
# (arm name, focus kind, options)
DET_POOL = ["flip_enum", "flip_enum_parallel", "categorical_enum_parallel", "normal_reparam",
            "mv_normal_diag_reparam", "mv_normal_reparam", "uniform"]
STAT_POOL = list(R.ALL_KINDS)

ARMS = [
    # deterministic arms: every site is an enumeration primitive or a reparameterised one with a fixed coupling
    ("det", "flip_enum", {}),
    ("det", "flip_enum_parallel", {}),
    ("det", "categorical_enum_parallel", {}),
    ("det", "normal_reparam", {}),
    ("det", "mv_normal_diag_reparam", {}),
    ("det", "mv_normal_reparam", {"const_cov": True}),
    ("det", "uniform", {}),
    ("det", "add_cost", {}),
    ("det", "flip_enum", {"base": True}),
    ("det", "normal_reparam", {"guarded": True}),
    ("det", "flip_enum", {"guarded": True}),
    # statistical arms
    ("stat", "flip_reinforce", {}),
    ("stat", "normal_reinforce", {}),
    ("stat", "geometric_reinforce", {}),
    ("stat", "flip_mvd", {}),
    ("stat", "beta_implicit", {}),
    ("stat", "flip_reinforce", {"base": True}),
    ("stat", "normal_reinforce", {"base": True}),
    ("stat", "geometric_reinforce", {"base": True}),
    ("stat", "mv_normal_reparam", {}),
    ("stat", "normal_reparam", {}),
    ("stat", "mv_normal_diag_reparam", {}),
    # normal_reparam called with vector loc / scale: its `sample` draws independent components,
    # so the site is an independent-normal vector (same reference as mv_normal_diag_reparam)
    ("stat", "mv_normal_diag_reparam", {"as_normal_reparam": True}),
    ("det", "mv_normal_diag_reparam", {"as_normal_reparam": True}),
    ("stat", "uniform", {}),
    ("stat", "normal_reinforce", {"guarded": True}),
    ("stat", "flip_reinforce", {"guarded": True}),
    ("stat", "pair", {}),  # two sampled sites whose product is returned (independence of site noise)
]


def arm_name(arm):
    mode, kind, opt = arm
    tag = "".join(f"+{k}" for k in sorted(opt) if opt[k])
    return f"{mode}:{kind}{tag}"


# expression generation -------------------------------------------------------------------


def C(x):
    return ["c", float(np.round(x, 3))]


class Gen:
    def __init__(self, rng, n_theta):
        self.rng = rng
        self.n_theta = n_theta
        self.floats = []  # expressions naming float-valued site results
        self.bools = []
        self.cats = []
        self.sq_used = 0

    def pick(self, xs):
        return xs[int(self.rng.integers(len(xs)))]

    def theta(self):
        return ["t", int(self.rng.integers(self.n_theta))]

    def leaf(self, allow_sites=True):
        r = self.rng.random()
        if allow_sites and self.floats and r < 0.5:
            return self.pick(self.floats)
        if r < 0.85:
            return self.theta()
        return C(self.rng.uniform(-1.5, 1.5))

    def lin(self, allow_sites=True):
        """degree <= 1 in site values"""
        r = self.rng.random()
        a = self.leaf(allow_sites)
        if r < 0.3:
            return a
        if r < 0.6:
            return ["add", ["mul", C(self.rng.uniform(-1.2, 1.2)), a], self.theta()]
        if r < 0.8:
            return ["mul", self.theta(), a]
        return ["sub", a, ["mul", C(self.rng.uniform(0.2, 1.0)), self.leaf(allow_sites)]]

    def bounded(self, allow_sites=True):
        r = self.rng.random()
        if r < 0.5:
            return ["sin", self.lin(allow_sites)]
        return ["sig", self.lin(allow_sites)]

    def select(self, a, b):
        """a/b chosen by a discrete site if one exists."""
        if self.bools and self.rng.random() < 0.8:
            j = self.pick(self.bools)
            return [self.pick(["where", "cond"]), j, a, b]
        if self.cats:
            j = self.pick(self.cats)
            return [self.pick(["tab", "tabw"]), j, [a, b, ["add", a, b]]]
        return a

    def value_expr(self, deg2=True):
        """the program's return / cost expression: degree <= 2 in unbounded site values."""
        r = self.rng.random()
        if r < 0.25:
            e = self.lin()
        elif r < 0.5 and deg2:
            e = ["mul", self.lin(), self.lin()]
        elif r < 0.65 and deg2:
            e = ["sq", self.lin()]
        elif r < 0.8:
            e = ["add", self.bounded(), ["mul", self.theta(), self.leaf()]]
        else:
            e = ["add", ["mul", self.theta(), self.theta()], self.lin()]
        if (self.bools or self.cats) and self.rng.random() < 0.7:
            other = self.lin() if self.rng.random() < 0.6 else ["mul", self.theta(), self.lin()]
            e = self.select(e, other)
        return e

    # parameters of distributions
    def prob(self, edge=False):
        r = self.rng.random()
        if edge and r < 0.08:
            return C(self.pick([0.0, 1.0]))
        if r < 0.35:
            return self.theta()
        if r < 0.5:
            return ["sub", C(1.0), ["mul", C(self.rng.uniform(0.3, 1.0)), self.theta()]]
        if r < 0.65 and self.bools:
            return ["where", self.pick(self.bools), self.theta(), ["mul", C(0.5), self.theta()]]
        return ["add", C(0.12), ["mul", C(0.76), ["sig", self.lin()]]]

    def pos(self, allow_sites=True):
        r = self.rng.random()
        if r < 0.4:
            return ["add", C(self.rng.uniform(0.3, 0.6)), ["mul", C(0.8), self.theta()]]
        if r < 0.7:
            return ["add", C(0.35), ["sig", self.lin(allow_sites)]]
        return ["add", C(0.4), ["sq", ["mul", C(0.4), self.lin(allow_sites and self.sq_ok())]]]

    def sq_ok(self):
        # sigma quadratic in an earlier unbounded value at most once (keeps moments tame)
        self.sq_used += 1
        return self.sq_used <= 1

    def loc(self):
        return self.lin() if self.rng.random() < 0.7 else self.select(self.lin(), self.theta())

    def site(self, kind, opt=None):
        opt = opt or {}
        s = {"kind": kind, "guard": None, "else": None, "base": None}
        if kind in R.BOOL_KINDS:
            s["args"] = [self.prob(edge=kind in R.ENUM_KINDS)]
        elif kind == "categorical_enum_parallel":
            a, b = self.theta(), self.theta()
            wa, wb = self.rng.uniform(0.2, 0.5), self.rng.uniform(0.2, 0.5)
            p0 = ["mul", C(wa), a]
            p1 = ["mul", C(wb), b]
            if self.rng.random() < 0.4:
                p1 = ["mul", C(wb), ["sig", self.lin()]]
            s["args"] = [[p0, p1, ["sub", ["sub", C(1.0), p0], p1]]]
        elif kind == "geometric_reinforce":
            s["args"] = [["add", C(self.rng.uniform(-0.2, 0.6)), ["mul", C(self.rng.uniform(0.5, 1.5)), self.theta()]]]
        elif kind in ("normal_reparam", "normal_reinforce"):
            s["args"] = [self.loc(), self.pos()]
        elif kind == "mv_normal_diag_reparam":
            s["args"] = [[self.loc(), self.loc()], [self.pos(), self.pos()]]
            if opt.get("as_normal_reparam"):
                s["prim"] = "normal_reparam"
        elif kind == "mv_normal_reparam":
            if opt.get("const_cov"):
                a, b = self.rng.uniform(0.5, 1.5), self.rng.uniform(0.5, 1.5)
                c = self.rng.uniform(-0.6, 0.6) * np.sqrt(a * b)
                cov = [C(a), C(c), C(b)]
            else:
                ta, tb = self.theta(), self.theta()
                a = ["add", C(self.rng.uniform(0.4, 0.8)), ta]
                b = ["add", C(self.rng.uniform(0.4, 0.8)), ["mul", tb, tb]]
                # |c| <= 0.6*0.5*0.95 = 0.285 < sqrt(a*b) >= sqrt(0.45*0.4): always positive definite
                c = ["mul", C(self.rng.uniform(-0.5, 0.5)), self.theta()]
                c = ["mul", C(0.6), c]
                cov = [a, c, b]
            s["args"] = [[self.loc(), self.loc()], cov]
        elif kind == "uniform":
            s["args"] = []
        elif kind == "beta_implicit":
            s["args"] = [["add", C(self.rng.uniform(1.0, 2.0)), ["mul", C(2.0), self.theta()]],
                         ["add", C(self.rng.uniform(1.0, 2.0)), ["mul", C(1.5), self.theta()]]]
        else:
            raise ValueError(kind)
        if opt.get("base"):
            s["base"] = self.lin() if self.rng.random() < 0.7 else C(self.rng.uniform(-3, 3))
        if opt.get("guarded") and self.bools:
            s["guard"] = self.pick(self.bools)
            if kind in R.BOOL_KINDS:
                s["else"] = bool(self.rng.random() < 0.5)
            else:
                s["else"] = float(np.round(self.rng.uniform(-1, 1), 2))
        return s

    def register(self, j, kind):
        t = R.site_type(kind)
        if t == "bool":
            self.bools.append(j)
        elif t == "cat":
            self.cats.append(j)
        elif t == "vec":
            self.floats += [["vk", j, 0], ["vk", j, 1]]
        else:
            self.floats.append(["v", j])


def gen_program(rng, arm, single, avoid=()):
    """One program for a focus arm.  `avoid`: kinds not to draw as *non-focus* sites."""
    mode, focus, opt = arm
    n_theta = int(rng.integers(1, 3))
    g = Gen(rng, n_theta)
    pool = [k for k in (DET_POOL if mode == "det" else STAT_POOL) if k not in avoid]
    if mode == "det":
        pool = [k for k in pool if k != "mv_normal_reparam"] + (["mv_normal_reparam"] if "mv_normal_reparam" not in avoid else [])
    sites = []
    kinds = []
    if focus == "pair":
        cands = [k for k in ("normal_reparam", "normal_reinforce", "uniform", "flip_reinforce", "geometric_reinforce", "beta_implicit") if k not in avoid]
        cont = [k for k in ("normal_reparam", "normal_reinforce") if k not in avoid] or ["normal_reinforce"]
        kinds = [g.pick(cont), g.pick(cands)]
        if rng.random() < 0.5:
            kinds.reverse()
        if rng.random() < 0.3:
            kinds.insert(int(rng.integers(0, 3)), g.pick(["flip_enum", "flip_reinforce"]))
    elif focus == "add_cost":
        kinds = [g.pick(pool) for _ in range(int(rng.integers(0, 3)))]
    else:
        n_extra = 0 if single else int(rng.integers(1, 3))
        extra = [g.pick(pool) for _ in range(n_extra)] if pool else []
        pos = int(rng.integers(0, len(extra) + 1))
        before, after = extra[:pos], extra[pos:]
        if opt.get("guarded") and not any(k in R.BOOL_KINDS for k in before):
            # a bool site must precede the guarded focus
            bk = [k for k in pool if k in R.BOOL_KINDS and k != "flip_mvd"] or ["flip_enum"]
            before.insert(0, g.pick(bk))
        if focus == "flip_mvd":
            before, after = before + after, []  # its pure continuation cannot contain sample sites
        kinds = before + ["__focus__"] + after
    # mvd anywhere must be last
    if "flip_mvd" in kinds and focus != "flip_mvd":
        kinds = [k for k in kinds if k != "flip_mvd"] + ["flip_mvd"]
    # keep the integration tractable
    def axes(ks):
        tot = 0
        for k in ks:
            k = focus if k == "__focus__" else k
            if k in R.VEC_KINDS:
                tot += 2
            elif k not in R.BOOL_KINDS and k != "categorical_enum_parallel":
                tot += 1
        return tot

    while axes(kinds) > 3:
        drop = [i for i, k in enumerate(kinds) if k != "__focus__" and k not in R.BOOL_KINDS and k != "categorical_enum_parallel"]
        if not drop:
            break
        kinds.pop(drop[-1])
    for j, k in enumerate(kinds):
        if k == "__focus__":
            s = g.site(focus, opt)
        else:
            o = {"const_cov": True} if (k == "mv_normal_reparam" and mode == "det") else {}
            if k == "beta_implicit":
                # beta parameters depend on theta only (the reference integrates with fixed nodes)
                pass
            s = g.site(k, o)
        sites.append(s)
        g.register(j, s["kind"])
    # pair arm: product of the two continuous/sampled values
    prog = {"n_theta": n_theta, "theta_form": "vector" if rng.random() < 0.25 else "scalars", "sites": sites, "costs": []}
    if focus == "pair":
        fl = [e for e in g.floats]
        if len(fl) >= 2:
            a, b = fl[0], fl[-1]
            prog["ret"] = ["add", ["mul", ["add", a, g.theta()], b], ["mul", g.theta(), g.lin()]]
        else:
            a = fl[0]
            j = g.bools[-1]
            prog["ret"] = ["where", j, ["mul", a, g.theta()], ["sub", g.theta(), a]]
    else:
        prog["ret"] = g.value_expr()
    # add_cost terms: anywhere for the add_cost arm, sometimes elsewhere
    n_cost = int(rng.integers(1, 3)) if focus == "add_cost" else int(rng.random() < 0.35)
    for _ in range(n_cost):
        pos = int(rng.integers(0, len(sites) + 1))
        g2 = Gen(rng, n_theta)
        for j in range(pos):
            g2.register(j, sites[j]["kind"])
        prog["costs"].append([pos, g2.value_expr()])
    if "flip_mvd" in [s["kind"] for s in sites]:
        # costs after the mvd site are part of its continuation: fine; nothing to restrict
        pass
    return prog


def structure(prog):
    """Structural class used in signatures."""
    sites = prog["sites"]
    sampled = [j for j, s in enumerate(sites) if s["kind"] not in R.ENUM_KINDS]
    after_tail = any(
        sites[i]["kind"] in R.TAILCALL_KINDS and any(j > i for j in range(len(sites)) if sites[j]["kind"] not in R.ENUM_KINDS)
        for i in range(len(sites))
    )
    after_cond = any(
        sites[i].get("guard") is not None and sites[i]["kind"] not in R.ENUM_KINDS and any(j > i for j in sampled)
        for i in range(len(sites))
    )
    guarded = any(s.get("guard") is not None for s in sites)
    mvd = [i for i, s in enumerate(sites) if s["kind"] == "flip_mvd"]
    after_mvd = bool(mvd) and (any(c[0] > mvd[0] for c in prog.get("costs", [])) or mvd[0] < len(sites) - 1)
    return {
        "after_mvd": bool(after_mvd),
        "n_sites": len(sites),
        "after_tailcall": bool(after_tail),
        "after_cond_site": bool(after_cond),
        "guarded": bool(guarded),
    }


def struct_class(prog, stat):
    st = structure(prog)
    if stat and st["after_mvd"]:
        return "sample-or-cost-after-mvd"
    if stat and st["after_cond_site"]:
        return "site-after-cond-site"
    if stat and st["after_tailcall"]:
        return "site-after-tailcall"
    if st["guarded"]:
        return "cond-site"
    return "single-site" if st["n_sites"] <= 1 else "multi-site"


def gen_theta(rng, prog, hostile=False):
    n = prog["n_theta"]
    if hostile and rng.random() < 0.3:
        return [float(np.round(rng.choice([0.05, 0.12, 0.88, 0.95]), 3)) for _ in range(n)]
    return [float(np.round(rng.uniform(0.2, 0.8), 3)) for _ in range(n)]


# compilation to real genjax.adev source functions ------------------------------------------


def build_source(prog, tap=None):
    """Python function (theta args) written in the ADEV source language.  `tap`: python
    callable receiving the flat list of site values once per executed path."""
    import jax
    import jax.numpy as jnp
    from genjax import adev as A

    sites = prog["sites"]
    n = prog["n_theta"]
    f32 = jnp.float32

    def source(*targs):
        if prog.get("theta_form") == "vector":
            th = [targs[0][i] for i in range(n)]
        else:
            th = list(targs)
        env = {}

        def em(e):
            op = e[0]
            if op == "c":
                return jnp.asarray(e[1], dtype=f32)
            if op == "t":
                return th[e[1]]
            if op == "v":
                return env[e[1]]
            if op == "vk":
                return env[e[1]][e[2]]
            if op == "add":
                return em(e[1]) + em(e[2])
            if op == "sub":
                return em(e[1]) - em(e[2])
            if op == "mul":
                return em(e[1]) * em(e[2])
            if op == "sq":
                a = em(e[1])
                return a * a
            if op == "sin":
                return jnp.sin(em(e[1]))
            if op == "sig":
                return jax.nn.sigmoid(em(e[1]))
            if op == "where":
                return jnp.where(env[e[1]], em(e[2]), em(e[3]))
            if op == "cond":
                return jax.lax.cond(
                    env[e[1]],
                    lambda: jnp.asarray(em(e[2]), dtype=f32),
                    lambda: jnp.asarray(em(e[3]), dtype=f32),
                )
            if op == "tab":
                return jnp.stack([jnp.asarray(em(x), dtype=f32) for x in e[2]])[env[e[1]]]
            if op == "tabw":
                out = jnp.asarray(0.0, dtype=f32)
                for k, x in enumerate(e[2]):
                    out = out + jnp.where(env[e[1]] == k, em(x), 0.0)
                return out
            raise ValueError(e)

        def call(s):
            kind = s["kind"]
            prim = getattr(A, s.get("prim", kind))
            a = s["args"]
            if kind in ("mv_normal_diag_reparam",):
                args = [jnp.stack([jnp.asarray(em(x), dtype=f32) for x in a[0]]), jnp.stack([jnp.asarray(em(x), dtype=f32) for x in a[1]])]
            elif kind == "mv_normal_reparam":
                ca, cc, cb = [jnp.asarray(em(x), dtype=f32) for x in a[1]]
                args = [jnp.stack([jnp.asarray(em(x), dtype=f32) for x in a[0]]), jnp.stack([jnp.stack([ca, cc]), jnp.stack([cc, cb])])]
            elif kind == "categorical_enum_parallel":
                args = [jnp.stack([jnp.asarray(em(x), dtype=f32) for x in a[0]])]
            elif kind == "geometric_reinforce":
                args = [(em(a[0]),)]
            else:
                args = [em(x) for x in a]
            if s.get("base") is not None:
                return A.baseline(prim)(em(s["base"]), *args)
            return prim(*args)

        for j, s in enumerate(sites):
            for c in R.costs_at(prog, j):
                A.add_cost(em(c))
            if s.get("guard") is not None:
                if s["kind"] in R.BOOL_KINDS:
                    other = lambda s=s: jnp.asarray(bool(s["else"]))  # noqa: E731
                    env[j] = jax.lax.cond(env[s["guard"]], lambda s=s: call(s), other)
                else:
                    other = lambda s=s: jnp.asarray(s["else"], dtype=f32)  # noqa: E731
                    env[j] = jax.lax.cond(env[s["guard"]], lambda s=s: jnp.asarray(call(s), dtype=f32), other)
            else:
                env[j] = call(s)
        for c in R.costs_at(prog, len(sites)):
            A.add_cost(em(c))
        if tap is not None and sites:
            jax.debug.callback(tap, *[env[j] for j in range(len(sites))])
        return em(prog["ret"])

    return source


def theta_args(prog, theta):
    """Positional primal arguments for the program (python floats or one array)."""
    import jax.numpy as jnp

    if prog.get("theta_form") == "vector":
        return (jnp.asarray(theta, dtype=jnp.float32),)
    return tuple(float(t) for t in theta)
