"""Workload generator for C25 / C26: small Bayesian networks written as real @genjax.gen programs.

A `Net` is a list of nodes in topological order.  Node kinds:
  flip   value bool,   parameter table  t[pa1, .., pak, 2]   (t[.., 1] = P(True))
  cat    value int32,  parameter table  t[pa1, .., pak, card]
  normal value float,  parameter vector [bias, coef_1 .. coef_k, sigma]   (mean linear in parents)
Addresses are tuples of strings of length 1 (top level) or 2 (inside a nested @gen callee that is
invoked at the first component) -- so hierarchical addresses, selections and constraint filtering
are exercised.  The parameters are *arguments* of the program (never constants), so one compiled
computation serves a whole batch of parameter draws via jax.vmap.

`source(net, packed)` emits Python source; `build` execs it against the real genjax.  Two calling
conventions: spread `model(t0, t1, ..)` and packed `model((t0, t1, ..))` (one tuple argument).

The module also provides an *exact* user-defined proposal (`TableProposal`, a
`genjax.Distribution` returning choice maps) whose density the reference model knows, and the
source of a guide program that is wrapped with `genjax.Marginal` to act as a proposal.
"""

from __future__ import annotations

import itertools

import numpy as np

from vf import common


class Node:
    __slots__ = ("addr", "kind", "card", "parents")

    def __init__(self, addr, kind, card, parents):
        self.addr = tuple(addr)
        self.kind = kind
        self.card = int(card)
        self.parents = tuple(int(p) for p in parents)

    def sig(self):
        return ("/".join(self.addr), self.kind, self.card, self.parents)


class Net:
    def __init__(self, nodes, family):
        self.nodes = list(nodes)
        self.family = family  # 'disc' | 'gauss'

    def __len__(self):
        return len(self.nodes)

    def sig(self):
        return (self.family,) + tuple(n.sig() for n in self.nodes)

    def cards(self, idxs):
        return [self.nodes[i].card for i in idxs]

    def ancestors(self, i):
        out = set()
        stack = list(self.nodes[i].parents)
        while stack:
            j = stack.pop()
            if j not in out:
                out.add(j)
                stack.extend(self.nodes[j].parents)
        return out

    def param_shape(self, i):
        n = self.nodes[i]
        if n.kind == "normal":
            return (len(n.parents) + 2,)
        return tuple(self.nodes[p].card for p in n.parents) + (n.card,)

    def describe(self):
        return "; ".join(
            f"{'/'.join(n.addr)}~{n.kind}{n.card if n.kind == 'cat' else ''}({','.join('/'.join(self.nodes[p].addr) for p in n.parents)})"
            for n in self.nodes
        )


_TOP = ["a", "b", "c", "d", "e"]
_SUBS = ["s", "r"]
_INNER = ["u", "w", "x"]


def random_net(rng, family="disc", n_lo=2, n_hi=5, max_outcomes=96, nested_p=0.5, flip_only=False):
    """Random topologically ordered net.  Address layout: runs of consecutive nodes may live in a
    nested callee (addresses (sub, inner))."""
    for _ in range(200):
        n = int(rng.integers(n_lo, n_hi + 1))
        layout = []
        i = 0
        sub_i = 0
        top_i = 0
        while i < n:
            if rng.random() < nested_p and sub_i < len(_SUBS) and n - i >= 1:
                run = int(rng.integers(1, min(3, n - i) + 1))
                for k in range(run):
                    layout.append((_SUBS[sub_i], _INNER[k]))
                sub_i += 1
                i += run
            else:
                layout.append((_TOP[top_i],))
                top_i += 1
                i += 1
        nodes = []
        for i in range(n):
            if family == "gauss":
                kind, card = "normal", 0
            else:
                if flip_only or rng.random() < 0.55:
                    kind, card = "flip", 2
                else:
                    kind, card = "cat", int(rng.integers(2, 5))
            k = int(min(i, rng.integers(0, 3)))
            if i > 0 and k == 0 and rng.random() < 0.7:
                k = 1
            parents = sorted(rng.choice(i, size=k, replace=False).tolist()) if k else []
            nodes.append(Node(layout[i], kind, card, parents))
        net = Net(nodes, family)
        if family == "disc":
            tot = int(np.prod([nd.card for nd in nodes]))
            if tot > max_outcomes:
                continue
        # at least one edge
        if not any(nd.parents for nd in nodes):
            continue
        return net
    raise RuntimeError("could not generate a net")


# ------------------------------------------------------------------------------- source


def _node_expr(net, i, pname, var):
    n = net.nodes[i]
    if n.kind == "normal":
        terms = [f"{pname}[0]"] + [f"{pname}[{j + 1}] * {var(p)}" for j, p in enumerate(n.parents)]
        return f"genjax.normal({' + '.join(terms)}, {pname}[{len(n.parents) + 1}])"
    idx = ", ".join(f"_ix({var(p)})" for p in n.parents)
    row = f"{pname}[{idx}]" if idx else pname
    if n.kind == "flip":
        return f"genjax.flip({row}[1])"
    return f"genjax.categorical(jnp.log({row}))"


def source(net: Net, packed: bool, fname="model") -> str:
    """Python source of the program (and its nested callees)."""
    lines = []
    groups = []  # list of (sub_name or None, [node idx])
    for i, n in enumerate(net.nodes):
        if len(n.addr) == 2:
            if groups and groups[-1][0] == n.addr[0]:
                groups[-1][1].append(i)
            else:
                groups.append((n.addr[0], [i]))
        else:
            groups.append((None, [i]))
    body = []
    for gname, idxs in groups:
        if gname is None:
            i = idxs[0]
            body.append(f"    v{i} = {_node_expr(net, i, f't{i}', lambda p: f'v{p}')} @ {net.nodes[i].addr[0]!r}")
        else:
            outer = sorted({p for i in idxs for p in net.nodes[i].parents if p not in idxs})
            params = [f"v{p}" for p in outer] + [f"t{i}" for i in idxs]
            lines.append("@genjax.gen")
            lines.append(f"def {fname}_sub_{gname}({', '.join(params)}):")
            for i in idxs:
                lines.append(f"    v{i} = {_node_expr(net, i, f't{i}', lambda p: f'v{p}')} @ {net.nodes[i].addr[1]!r}")
            lines.append(f"    return ({', '.join(f'v{i}' for i in idxs)},)")
            lines.append("")
            body.append(f"    ({', '.join(f'v{i}' for i in idxs)},) = {fname}_sub_{gname}({', '.join(params)}) @ {gname!r}")
    tnames = [f"t{i}" for i in range(len(net))]
    lines.append("@genjax.gen")
    if packed == "scalar":
        # every parameter entry is its own scalar argument (no array-valued arguments at all)
        flat = []
        pre = []
        for i in range(len(net)):
            shp = net.param_shape(i)
            names = [f"p{i}_{j}" for j in range(int(np.prod(shp)))]
            flat.extend(names)
            pre.append(f"    t{i} = jnp.reshape(jnp.stack([{', '.join(names)}]), {shp!r})")
        lines.append(f"def {fname}({', '.join(flat)}):")
        lines.extend(pre)
    elif packed:
        lines.append(f"def {fname}(tabs):")
        lines.append(f"    ({', '.join(tnames)},) = tabs")
    else:
        lines.append(f"def {fname}({', '.join(tnames)}):")
    lines.extend(body)
    lines.append(f"    return ({', '.join(f'v{i}' for i in range(len(net)))},)")
    return "\n".join(lines) + "\n"


def namespace():
    genjax = common.import_repo()
    import jax
    import jax.numpy as jnp

    def _ix(v):
        return jnp.asarray(v).astype(jnp.int32)

    return {"genjax": genjax, "jax": jax, "jnp": jnp, "_ix": _ix}


def model_args(net: Net, packed, params):
    """Argument tuple of the program for the calling convention `packed`
    (False: spread arrays, True: one tuple of arrays, 'scalar': one scalar per table entry)."""
    if packed == "scalar":
        out = []
        for p in params:
            flat = p.reshape(-1)
            out.extend(flat[j] for j in range(flat.shape[0]))
        return tuple(out)
    if packed:
        return (tuple(params),)
    return tuple(params)


def build(net: Net, packed):
    ns = namespace()
    src = source(net, packed)
    exec(compile(src, f"<smc_model {hash(net.sig()) & 0xFFFF:x}>", "exec"), ns)
    return ns["model"], src


def guide_source(net: Net, idxs, consts, aux=False, fname="guide") -> str:
    """A guide program `guide(target)` over the nodes `idxs` of `net` (same addresses and value
    types), mutually independent, with Python-constant parameters `consts[i]` (probability vector
    for flip/cat, (mu, sigma) for normal).  With aux=True it also draws an auxiliary flip at address
    'aux_g' which shifts the parameters of the other choices (so that marginalising it matters)."""
    ns_lines = []
    groups = {}
    order = []
    for i in idxs:
        a = net.nodes[i].addr
        key = a[0] if len(a) == 2 else None
        if key is None:
            order.append(("top", i))
        else:
            if key not in groups:
                groups[key] = []
                order.append(("sub", key))
            groups[key].append(i)

    def expr(i):
        n = net.nodes[i]
        c = consts[i]
        if n.kind == "normal":
            mu, sg = c
            return f"genjax.normal({mu!r} + 0.5 * _sh, {sg!r})"
        p = [float(x) for x in c]
        p2 = [float(x) for x in (np.asarray(c[::-1], dtype=np.float64))]
        if n.kind == "flip":
            return f"genjax.flip(jnp.where(_sh > 0, {p2[1]!r}, {p[1]!r}))"
        return f"genjax.categorical(jnp.log(jnp.where(_sh > 0, jnp.array({p2!r}), jnp.array({p!r}))))"

    body = []
    for kind, k in order:
        if kind == "top":
            body.append(f"    _ = {expr(k)} @ {net.nodes[k].addr[0]!r}")
        else:
            ns_lines.append("@genjax.gen")
            ns_lines.append(f"def {fname}_sub_{k}(_sh):")
            for i in groups[k]:
                ns_lines.append(f"    _ = {expr(i)} @ {net.nodes[i].addr[1]!r}")
            ns_lines.append("    return None")
            ns_lines.append("")
            body.append(f"    _ = {fname}_sub_{k}(_sh) @ {k!r}")
    ns_lines.append("@genjax.gen")
    ns_lines.append(f"def {fname}(target):")
    if aux:
        ns_lines.append("    _aux = genjax.flip(0.35) @ 'aux_g'")
        ns_lines.append("    _sh = jnp.where(_aux, 1.0, 0.0)")
    else:
        ns_lines.append("    _sh = jnp.float32(0.0)")
    ns_lines.extend(body)
    ns_lines.append("    return None")
    return "\n".join(ns_lines) + "\n"


def build_guide(net, idxs, consts, aux=False):
    ns = namespace()
    src = guide_source(net, idxs, consts, aux)
    exec(compile(src, "<smc_guide>", "exec"), ns)
    return ns["guide"], src


# ------------------------------------------------------------------------------- parameters


def random_params(rng, net: Net, batch: int, floor=0.04):
    """List (one per node) of float32 arrays with leading dimension `batch`."""
    out = []
    for i, n in enumerate(net.nodes):
        shp = net.param_shape(i)
        if n.kind == "normal":
            k = len(n.parents)
            p = np.zeros((batch, k + 2), dtype=np.float64)
            p[:, 0] = rng.normal(0.0, 1.0, size=batch)
            if k:
                p[:, 1 : k + 1] = rng.uniform(0.4, 1.3, size=(batch, k)) * rng.choice([-1.0, 1.0], size=(batch, k))
            p[:, k + 1] = rng.uniform(0.6, 1.8, size=batch)
            out.append(np.round(p, 3).astype(np.float32))
        else:
            g = rng.gamma(0.8, 1.0, size=(batch,) + shp) + 1e-3
            g = g / g.sum(axis=-1, keepdims=True)
            g = floor + (1.0 - n.card * floor) * g
            g = np.round(g, 4)
            g[..., -1] = 1.0 - g[..., :-1].sum(axis=-1)
            out.append(g.astype(np.float32))
    return out


def random_qconsts(rng, net: Net, idxs, floor=0.08):
    """Python-constant parameters of a guide over nodes idxs."""
    out = {}
    for i in idxs:
        n = net.nodes[i]
        if n.kind == "normal":
            out[i] = (float(np.round(rng.normal(0, 1.0), 2)), float(np.round(rng.uniform(1.5, 2.5), 2)))
        else:
            g = rng.gamma(1.0, 1.0, size=n.card) + 1e-2
            g = floor + (1 - n.card * floor) * g / g.sum()
            g = np.round(g, 3)
            g[-1] = 1.0 - g[:-1].sum()
            out[i] = tuple(float(np.float32(x)) for x in g)
    return out


def all_outcomes(net: Net, idxs):
    """Every joint assignment of the discrete nodes idxs: dict idx -> int array [n_outcomes]."""
    cards = net.cards(idxs)
    if not idxs:
        return {}, 1
    grid = np.array(list(itertools.product(*[range(c) for c in cards])), dtype=np.int64).reshape(-1, len(idxs))
    return {i: grid[:, j] for j, i in enumerate(idxs)}, grid.shape[0]


# ------------------------------------------------------------------------------- real-side helpers


def addr_key(addr):
    return addr if len(addr) > 1 else addr[0]


def constraint(net: Net, idxs, values):
    """ChoiceMap constraining nodes idxs (values: jax scalars/tracers with the node's dtype)."""
    from genjax import ChoiceMap
    from genjax import ChoiceMapBuilder as C

    chm = ChoiceMap.empty()
    for i, v in zip(idxs, values):
        chm = chm | C[addr_key(net.nodes[i].addr)].set(v)
    return chm


def cast_value(net: Net, i, v):
    """numpy index/float array -> the dtype the program produces at node i."""
    k = net.nodes[i].kind
    if k == "flip":
        return np.asarray(v).astype(bool)
    if k == "cat":
        return np.asarray(v).astype(np.int32)
    return np.asarray(v).astype(np.float32)


def selection(net: Net, idxs):
    from genjax import Selection
    from genjax import SelectionBuilder as S

    sel = Selection.none()
    for i in idxs:
        sel = sel | S[addr_key(net.nodes[i].addr)]
    return sel


_PROPOSAL_CLS = None


def proposal_class():
    """An exact user-defined proposal: a genjax Distribution over choice maps (what
    `Importance(target, q)` documents as `q: SampleDistribution`).  It samples the nodes
    `idxs` of `net` ancestrally from its *own* parameter tables (structure `qparents`), and
    reports the exact log-density."""
    global _PROPOSAL_CLS
    if _PROPOSAL_CLS is not None:
        return _PROPOSAL_CLS
    common.import_repo()
    import jax
    import jax.numpy as jnp
    from genjax import ChoiceMap, Pytree
    from genjax import ChoiceMapBuilder as C
    from genjax._src.generative_functions.distributions.distribution import Distribution

    @Pytree.dataclass
    class TableProposal(Distribution):
        qparams: tuple
        spec: tuple = Pytree.static()  # ((addr, kind, card, qparents(positions in this tuple)), ...)

        def _logp_and_sample(self, key, given):
            vals = []
            logq = jnp.float32(0.0)
            chm = ChoiceMap.empty()
            for j, (addr, kind, card, qpa) in enumerate(self.spec):
                p = self.qparams[j]
                if kind == "normal":
                    mean = p[0]
                    for m, pj in enumerate(qpa):
                        mean = mean + p[m + 1] * vals[pj]
                    sg = p[len(qpa) + 1]
                    if given is None:
                        key, sub = jax.random.split(key)
                        v = mean + sg * jax.random.normal(sub, dtype=jnp.float32)
                    else:
                        v = given[addr_key(addr)]
                    logq = logq + (-0.5 * ((v - mean) / sg) ** 2 - jnp.log(sg) - 0.5 * jnp.log(2 * jnp.pi))
                    vals.append(v)
                    chm = chm | C[addr_key(addr)].set(v)
                else:
                    row = p
                    for pj in qpa:
                        row = row[jnp.asarray(vals[pj]).astype(jnp.int32)]
                    logits = jnp.log(row)
                    if given is None:
                        key, sub = jax.random.split(key)
                        k = jax.random.categorical(sub, logits).astype(jnp.int32)
                    else:
                        k = jnp.asarray(given[addr_key(addr)]).astype(jnp.int32)
                    logq = logq + logits[k] - jax.scipy.special.logsumexp(logits)
                    v = (k == 1) if kind == "flip" else k
                    vals.append(k)
                    chm = chm | C[addr_key(addr)].set(v)
            return logq, chm

        def random_weighted(self, key, *args):
            return self._logp_and_sample(key, None)

        def estimate_logpdf(self, key, v, *args):
            logq, _ = self._logp_and_sample(key, v)
            return logq

    _PROPOSAL_CLS = TableProposal
    return TableProposal


def random_qnet(rng, net: Net, idxs):
    """Proposal structure over nodes idxs: each node may depend on one earlier proposal node."""
    spec = []
    for j, i in enumerate(idxs):
        n = net.nodes[i]
        qpa = ()
        if j > 0 and rng.random() < 0.5:
            qpa = (int(rng.integers(0, j)),)
        spec.append((n.addr, n.kind, n.card, qpa))
    return tuple(spec)


def random_qparams(rng, net: Net, idxs, qspec, batch, floor=0.08):
    out = []
    for j, i in enumerate(idxs):
        addr, kind, card, qpa = qspec[j]
        if kind == "normal":
            k = len(qpa)
            p = np.zeros((batch, k + 2))
            p[:, 0] = rng.normal(0, 1.0, size=batch)
            if k:
                p[:, 1 : k + 1] = rng.uniform(-0.8, 0.8, size=(batch, k))
            p[:, k + 1] = rng.uniform(1.6, 2.6, size=batch)  # wide: bounded weights
            out.append(np.round(p, 3).astype(np.float32))
        else:
            shp = tuple(qspec[pj][2] for pj in qpa) + (card,)
            g = rng.gamma(0.8, 1.0, size=(batch,) + shp) + 1e-3
            g = g / g.sum(axis=-1, keepdims=True)
            g = floor + (1 - card * floor) * g
            g = np.round(g, 4)
            g[..., -1] = 1.0 - g[..., :-1].sum(axis=-1)
            out.append(g.astype(np.float32))
    return out
