"""C21 workload + reference: random nested pytrees and a plain-Python pytree model.

Nothing in here calls ``jax.tree_util``: the reference walker ``ref_map`` recurses over
tuples / lists / dicts / None / Pytree dataclasses with its *own* table of which fields are
static (for generated classes: the generator's layout; for library classes: the documented
field roles).  ``struct_eq`` compares two objects structurally (types, container shapes,
static field values, leaf dtype/shape/values) and returns a description of the first
difference, or None.

Spec grammar (bounded): leaves = jax arrays (float32/int32/bool/float16/uint8, shapes (), (2,),
(3,), (2,2), (0,)), numpy arrays, python float/int/bool; containers = tuple, list, dict, None,
empty containers; generated Pytree dataclasses (1..4 fields, every static/dynamic layout, static
values = large ints, strings, tuples, None, functions); Diff leaves (NoChange / UnknownChange,
primal = a leaf, sometimes a small pytree); Mask; ChoiceMap (Static/Indexed/Or/Choice); Const;
Closure.
"""

from __future__ import annotations

import dataclasses
import itertools
from typing import Any

import numpy as np

STATIC_BASE = 1_000_000  # every static int sentinel is >= this; every dynamic value is < 1000


class Token:
    """Opaque replacement leaf used to test tree_map / unflatten with non-array leaves."""

    def __init__(self, key):
        self.key = key

    def __eq__(self, other):
        return isinstance(other, Token) and other.key == self.key

    def __hash__(self):
        return hash(self.key)

    def __repr__(self):
        return f"Token{self.key}"


class _Plain:
    """Expected-tangent placeholder at a non-Diff leaf (either ChangeTangent accepted)."""

    def __repr__(self):
        return "<PLAIN>"


PLAIN = _Plain()


# ------------------------------------------------------------------ library handles
class Lib:
    """Lazily imported genjax names + generated classes (one per process)."""

    ready = False

    @classmethod
    def init(cls):
        if cls.ready:
            return cls
        import jax
        import jax.numpy as jnp
        from genjax import ChoiceMap, ChoiceMapBuilder, Mask, Pytree
        from genjax._src.core.compiler.interpreters import incremental as inc
        from genjax._src.core.generative import choice_map as cm
        from genjax._src.core.pytree import Closure, Const

        cls.jax, cls.jnp = jax, jnp
        cls.Pytree, cls.Mask, cls.C = Pytree, Mask, ChoiceMapBuilder
        cls.ChoiceMap_kw = ChoiceMap.kw
        cls.Diff, cls.NoChange, cls.UnknownChange = inc.Diff, inc.NoChange, inc.UnknownChange
        cls.ChangeTangent = inc.ChangeTangent
        cls.Const, cls.Closure = Const, Closure
        cls.cm = cm
        # documented static fields of the library classes that may occur in a tree
        cls.static_fields = {
            inc.Diff: set(),
            inc._NoChange: set(),
            inc._UnknownChange: set(),
            Mask: set(),
            Const: {"val"},
            Closure: {"fn"},
            cm.Choice: set(),
            cm.Static: set(),
            cm.Indexed: set(),
            cm.Or: set(),
        }
        cls.layouts = []
        for n in range(1, 5):
            for bits in itertools.product([False, True], repeat=n):
                cls.layouts.append(cls._make_class(f"G{n}_" + "".join("s" if b else "d" for b in bits), bits, False))
        # classes with defaulted trailing fields (static default / dynamic default)
        cls.layouts.append(cls._make_class("Gdef_ds", (False, True), True))
        cls.layouts.append(cls._make_class("Gdef_sd", (True, False), True))
        cls.layouts.append(cls._make_class("Gdef_dsd", (False, True, False), True))
        cls.ready = True
        return cls

    @classmethod
    def _make_class(cls, name, bits, defaults):
        Pytree = cls.Pytree
        ns = {"__annotations__": {}}
        names = []
        for i, st in enumerate(bits):
            f = f"f{i}"
            names.append(f)
            ns["__annotations__"][f] = Any
            last = i == len(bits) - 1
            if st:
                ns[f] = Pytree.static(default=STATIC_BASE + 7) if (defaults and last) else Pytree.static()
            elif defaults and last:
                ns[f] = Pytree.field(default=None)
            else:
                # half of the dynamic fields use the explicit Pytree.field() spelling
                if i % 2 == 1:
                    ns[f] = Pytree.field()
        klass = Pytree.dataclass(type(name, (Pytree,), ns))
        cls.static_fields[klass] = {f for f, st in zip(names, bits) if st}
        return (klass, names, bits, defaults)


# closure / const callables (module level so that identity is stable)
def _fn_affine(a, b, x):
    return a * x + b


def _fn_sumsq(a, x, y=1.0):
    return (a * a).sum() + x * y


def _fn_pair(p, x):
    return p[0] * x - p[1]


def _fn_nodyn(x, y):
    return x - 2.0 * y


def _fn_const_a(x):
    return x + 1


def _fn_const_b(x, y):
    return x * y


FN_POOL = [_fn_const_a, _fn_const_b, _fn_affine]


# ------------------------------------------------------------------ spec generation
class Gen:
    def __init__(self, rng, max_depth, batch=None):
        self.rng = rng
        self.max_depth = max_depth
        self.counter = 0
        self.static_counter = 0
        self.n_leaves = 0
        self.kinds = set()
        self.batch = batch

    def ri(self, n):
        return int(self.rng.integers(n))

    def fresh(self):
        self.counter += 1
        return self.counter

    def static_value(self):
        self.static_counter += 1
        k = self.ri(7)
        s = STATIC_BASE + self.static_counter * 11 + self.ri(5)
        if k == 0:
            return s
        if k == 1:
            return f"s{s}"
        if k == 2:
            return (s, "t", (s + 1,))
        if k == 3:
            return None
        if k == 4:
            return FN_POOL[self.ri(len(FN_POOL))]
        if k == 5:
            return float(s) + 0.5
        return bool(self.ri(2))

    # leaves -------------------------------------------------------------
    def leaf(self, arrays_only=False):
        k = self.ri(10)
        if k <= 5 or arrays_only:
            dt = ["float32", "int32", "bool", "float16", "uint8", "float32"][self.ri(6)]
            sh = [(), (2,), (3,), (2, 2), (0,), ()][self.ri(6)]
            return ("arr", dt, sh, self.fresh(), self.ri(4) == 0)  # last: numpy (not jax) array
        if k == 6:
            return ("py", "float", self.fresh())
        if k == 7:
            return ("py", "int", self.fresh())
        if k == 8:
            return ("py", "bool", self.fresh())
        return ("arr", "float32", (), self.fresh(), False)

    def node(self, depth, allow_diff=True):
        r = self.rng.random()
        if depth >= self.max_depth or (depth > 0 and r < 0.22):
            if allow_diff and self.rng.random() < 0.45:
                return self.diff(depth)
            return self.leaf()
        k = self.ri(13)
        if k == 0:
            n = self.ri(4)
            return ("tuple", [self.node(depth + 1, allow_diff) for _ in range(n)])
        if k == 1:
            n = self.ri(4)
            return ("list", [self.node(depth + 1, allow_diff) for _ in range(n)])
        if k == 2:
            n = self.ri(4)
            keys = ["k", "a", "zz", "B", "m0"]
            self.rng.shuffle(keys)
            return ("dict", {keys[i]: self.node(depth + 1, allow_diff) for i in range(n)})
        if k == 3:
            return ("none",)
        if k in (4, 5, 6):
            li = self.ri(len(Lib.layouts))
            _, names, bits, defaults = Lib.layouts[li]
            vals = []
            for i, st in enumerate(bits):
                omit = defaults and i == len(bits) - 1 and self.ri(2) == 0
                if omit:
                    vals.append(("omit", STATIC_BASE + 7 if st else None))
                elif st:
                    vals.append(("static", self.static_value()))
                else:
                    vals.append(("dyn", self.node(depth + 1, allow_diff)))
            return ("dc", li, vals)
        if k == 7 and allow_diff:
            return self.diff(depth)
        if k == 8:
            # Mask: value is a small diff-free tree of arrays, flag scalar bool (array or python)
            n = 1 + self.ri(2)
            val = ("tuple", [self.leaf(arrays_only=True) for _ in range(n)]) if n > 1 else self.leaf(arrays_only=True)
            return ("mask", val, ["arr_true", "arr_false", "py_true"][self.ri(3)], self.fresh())
        if k == 9:
            n = 1 + self.ri(3)
            entries = []
            names = ["x", "y", "z", "w"]
            for i in range(n):
                form = self.ri(4)
                entries.append((names[i], form, self.fresh()))
            return ("chm", entries)
        if k == 10:
            return ("const", self.static_value())
        if k == 11:
            nd = self.ri(3)
            return ("closure", self.ri(3), [self.node(depth + 1, False) if self.ri(3) == 0 else self.leaf() for _ in range(nd)])
        return ("tuple", [self.node(depth + 1, allow_diff), self.leaf()])

    def diff(self, depth):
        tag = "N" if self.rng.random() < 0.55 else "U"
        if self.rng.random() < 0.15 and depth < self.max_depth:
            prim = ("tuple", [self.leaf(), self.leaf()]) if self.ri(2) else ("dict", {"p": self.leaf()})
        else:
            prim = self.leaf()
        return ("diff", prim, tag)


# ------------------------------------------------------------------ building
def _leaf_value(spec, batch):
    """Concrete value of a leaf spec. Dynamic values are all < 1000."""
    L = Lib
    if spec[0] == "py":
        _, ty, k = spec
        if batch is not None:
            base = {"float": np.float32, "int": np.int32, "bool": np.bool_}[ty]
            if ty == "bool":
                return L.jnp.asarray((np.arange(batch) + k) % 2 == 0)
            return L.jnp.asarray((np.arange(batch) * 0.5 + k).astype(base))
        if ty == "float":
            return float(k) + 0.25
        if ty == "int":
            return int(k)
        return bool(k % 2)
    _, dt, sh, k, use_np = spec
    size = int(np.prod(sh)) if sh else 1
    full = (batch,) + tuple(sh) if batch is not None else tuple(sh)
    n = int(np.prod(full)) if full else 1
    if dt == "bool":
        a = ((np.arange(n) + k) % 3 == 0).reshape(full)
    elif dt in ("float32", "float16"):
        a = (k + 0.125 * np.arange(n)).reshape(full).astype(dt)
    elif dt == "uint8":
        a = ((k + np.arange(n)) % 200).reshape(full).astype(dt)
    else:
        a = (k * (1 if k % 2 else -1) + np.arange(n)).reshape(full).astype(dt)
    del size
    if use_np and batch is None:
        return a
    return L.jnp.asarray(a)


def build(spec, with_diff=True, batch=None, static_bump=0, info=None):
    """Instantiate a spec with the real library constructors.

    with_diff=False builds the *primal* tree independently of Diff.tree_primal.
    batch=B gives every dynamic leaf a leading axis of size B (python scalars become arrays).
    static_bump!=0 changes the first int/str static sentinel of generated classes (treedef test).
    info (dict) collects: leaves (list of values), statics (list), n_diff, tags, n_plain.
    """
    L = Lib
    if info is None:
        info = {}
    info.setdefault("leaves", [])
    info.setdefault("statics", [])
    info.setdefault("tags", [])
    info.setdefault("n_plain", 0)
    info.setdefault("bumped", False)

    def bump(v):
        if static_bump and not info["bumped"]:
            if isinstance(v, bool) or v is None or callable(v):
                return v
            info["bumped"] = True
            if isinstance(v, int):
                return v + static_bump
            if isinstance(v, float):
                return v + static_bump
            if isinstance(v, str):
                return v + "'"
            if isinstance(v, tuple):
                return v + (static_bump,)
        return v

    def rec(s, under_diff):
        kind = s[0]
        if kind in ("arr", "py"):
            v = _leaf_value(s, batch)
            info["leaves"].append(v)
            if not under_diff:
                info["n_plain"] += 1
            return v
        if kind == "tuple":
            return tuple(rec(c, under_diff) for c in s[1])
        if kind == "list":
            return [rec(c, under_diff) for c in s[1]]
        if kind == "dict":
            return {k: rec(c, under_diff) for k, c in s[1].items()}
        if kind == "none":
            return None
        if kind == "dc":
            klass, names, bits, _ = L.layouts[s[1]]
            kwargs = {}
            for f, (vk, vv) in zip(names, s[2]):
                if vk == "omit":
                    if vv is not None:
                        info["statics"].append(vv)
                    continue
                if vk == "static":
                    vv = bump(vv)
                    info["statics"].append(vv)
                    kwargs[f] = vv
                else:
                    kwargs[f] = rec(vv, under_diff)
            return klass(**kwargs)
        if kind == "diff":
            p = rec(s[1], True)
            info["tags"].append(s[2])
            if not with_diff:
                return p
            return L.Diff(p, L.NoChange if s[2] == "N" else L.UnknownChange)
        if kind == "mask":
            val = rec(s[1], under_diff)
            form = s[2]
            if form == "py_true" and batch is None:
                flag = True
            else:
                b = form != "arr_false"
                flag = L.jnp.asarray(np.full((batch,), b) if batch is not None else b)
            info["leaves"].append(flag)
            if not under_diff:
                info["n_plain"] += 1
            return L.Mask.build(val, flag)
        if kind == "chm":
            acc = None
            for name, form, k in s[1]:
                if form == 0:
                    v = _leaf_value(("arr", "float32", (), k, False), batch)
                    c = L.C[name].set(v)
                    lv = [v]
                elif form == 1:
                    v = _leaf_value(("arr", "float32", (2,), k, False), batch)
                    c = L.C[name, "sub"].set(v)
                    lv = [v]
                elif form == 2:
                    v = _leaf_value(("arr", "float32", (2,), k, False), batch)
                    idx = _leaf_value(("arr", "int32", (2,), 3, False), batch)
                    if batch is None:
                        idx = L.jnp.asarray([0, 2], dtype=L.jnp.int32)
                    c = L.C[idx, name].set(v)
                    lv = [v, idx]
                else:
                    v = _leaf_value(("arr", "int32", (), k, False), batch)
                    c = L.ChoiceMap_kw(**{name: {"in": v}})
                    lv = [v]
                info["leaves"].extend(lv)
                if not under_diff:
                    info["n_plain"] += len(lv)
                acc = c if acc is None else (acc | c)
            return acc
        if kind == "const":
            v = s[1]
            info["statics"].append(v)
            return L.Pytree.const(v)
        if kind == "closure":
            dyn = tuple(rec(c, under_diff) for c in s[2])
            fn = [_fn_affine, _fn_sumsq, _fn_pair][s[1]]
            info["statics"].append(fn)
            return L.Pytree.partial(*dyn)(fn)
        raise ValueError(kind)

    out = rec(spec, False)
    return out, info


def spec_signature(spec, depth=0):
    """Structural class of a spec (node kinds only) for the distinct-case count."""
    k = spec[0]
    if k in ("arr",):
        return f"a{spec[1][0]}{len(spec[2])}"
    if k == "py":
        return "p" + spec[1][0]
    if k in ("tuple", "list"):
        return k[0] + "(" + ",".join(spec_signature(c) for c in spec[1]) + ")"
    if k == "dict":
        return "d(" + ",".join(spec_signature(c) for c in spec[1].values()) + ")"
    if k == "none":
        return "N"
    if k == "dc":
        bits = Lib.layouts[spec[1]][2]
        return "D" + "".join("s" if b else "d" for b in bits) + "(" + ",".join(spec_signature(v) for kk, v in spec[2] if kk == "dyn") + ")"
    if k == "diff":
        return "F" + spec[2] + spec_signature(spec[1])
    if k == "mask":
        return "M"
    if k == "chm":
        return "C" + "".join(str(e[1]) for e in spec[1])
    if k == "const":
        return "K"
    if k == "closure":
        return "L" + str(len(spec[2]))
    return "?"


def kinds_of(spec, acc=None):
    acc = set() if acc is None else acc
    acc.add(spec[0])
    k = spec[0]
    if k in ("tuple", "list"):
        for c in spec[1]:
            kinds_of(c, acc)
    elif k == "dict":
        for c in spec[1].values():
            kinds_of(c, acc)
    elif k == "dc":
        for kk, v in spec[2]:
            if kk == "dyn":
                kinds_of(v, acc)
    elif k == "diff":
        kinds_of(spec[1], acc)
    elif k == "closure":
        for c in spec[2]:
            kinds_of(c, acc)
    return acc


# ------------------------------------------------------------------ reference walker
def _is_pytree_dc(x):
    return isinstance(x, Lib.Pytree) and dataclasses.is_dataclass(x)


def _static_names(x):
    t = type(x)
    sf = Lib.static_fields
    if t in sf:
        return sf[t]
    for base in t.__mro__:
        if base in sf:  # Mask[R]-style parametrised aliases
            return sf[base]
    raise TypeError(f"reference walker: unknown Pytree class {t}")


def _rebuild(x, new_fields):
    obj = object.__new__(type(x))
    for k, v in new_fields.items():
        object.__setattr__(obj, k, v)
    return obj


def ref_map(on_leaf, x, on_diff=None):
    """Plain-Python model of a pytree map. `on_diff` (if given) is applied to Diff nodes instead
    of descending into them (the `is_leaf=Diff.is_diff` reading)."""
    if x is None:
        return None
    if isinstance(x, tuple):
        return tuple(ref_map(on_leaf, c, on_diff) for c in x)
    if isinstance(x, list):
        return [ref_map(on_leaf, c, on_diff) for c in x]
    if isinstance(x, dict):
        return {k: ref_map(on_leaf, c, on_diff) for k, c in x.items()}
    if on_diff is not None and isinstance(x, Lib.Diff):
        return on_diff(x)
    if _is_pytree_dc(x):
        st = _static_names(x)
        new = {}
        for f in dataclasses.fields(x):
            v = getattr(x, f.name)
            new[f.name] = v if f.name in st else ref_map(on_leaf, v, on_diff)
        return _rebuild(x, new)
    return on_leaf(x)


def ref_leaves(x, on_diff_leaf=False, acc=None):
    acc = [] if acc is None else acc

    def f(v):
        acc.append(v)
        return v

    ref_map(f, x, on_diff=(lambda d: acc.append(d)) if on_diff_leaf else None)
    return acc


def ref_primal(x):
    return ref_map(lambda v: v, x, on_diff=lambda d: d.primal)


def ref_tangent_expected(x):
    return ref_map(lambda v: PLAIN, x, on_diff=lambda d: d.tangent)


def ref_wrap_all(x_primal, tangent):
    return ref_map(lambda v: Lib.Diff(v, tangent), x_primal)


def is_arraylike(x):
    return isinstance(x, (np.ndarray, np.generic)) or isinstance(x, Lib.jax.Array)


def leaf_key(x):
    """Value-based key of a leaf (dtype, shape, values): used for multiset comparisons and Tokens."""
    if isinstance(x, (bool, int, float)):
        return (type(x).__name__, (), (x,))
    a = np.asarray(x)
    return (str(a.dtype), a.shape, tuple(a.ravel().tolist()))


def struct_eq(a, b, loose=False, path="$"):
    """None if structurally equal, else a short description (mechanism, path).
    loose=True: a python scalar may have become a 0-d array and numpy arrays jax arrays
    (what crossing a jit boundary does)."""
    L = Lib
    if b is PLAIN:
        return None if isinstance(a, L.ChangeTangent) else f"{path}: expected a ChangeTangent, got {type(a).__name__}"
    if isinstance(b, Token) or isinstance(a, Token):
        return None if a == b else f"{path}: token {a!r} vs {b!r}"
    if a is None or b is None:
        return None if (a is None and b is None) else f"{path}: None vs {type(a).__name__}/{type(b).__name__}"
    if isinstance(b, (tuple, list)):
        if type(a) is not type(b):
            return f"{path}: container type {type(a).__name__} vs {type(b).__name__}"
        if len(a) != len(b):
            return f"{path}: length {len(a)} vs {len(b)}"
        for i, (x, y) in enumerate(zip(a, b)):
            r = struct_eq(x, y, loose, f"{path}[{i}]")
            if r:
                return r
        return None
    if isinstance(b, dict):
        if not isinstance(a, dict):
            return f"{path}: container type {type(a).__name__} vs dict"
        if set(a) != set(b):
            return f"{path}: dict keys {sorted(map(str, a))} vs {sorted(map(str, b))}"
        for k in b:
            r = struct_eq(a[k], b[k], loose, f"{path}[{k!r}]")
            if r:
                return r
        return None
    if _is_pytree_dc(b):
        if type(a) is not type(b):
            return f"{path}: class {type(a).__name__} vs {type(b).__name__}"
        st = _static_names(b)
        for f in dataclasses.fields(b):
            x, y = getattr(a, f.name, _MISSING), getattr(b, f.name)
            if x is _MISSING:
                return f"{path}.{f.name}: field missing"
            if f.name in st:
                if not (x is y or (type(x) is type(y) and x == y)):
                    return f"{path}.{f.name}: static field {x!r} vs {y!r}"
            else:
                r = struct_eq(x, y, loose, f"{path}.{f.name}")
                if r:
                    return r
        return None
    if _is_pytree_dc(a):
        return f"{path}: class {type(a).__name__} vs leaf {type(b).__name__}"
    # leaves
    if isinstance(b, (bool, int, float)) and not loose:
        if type(a) is not type(b) or a != b:
            return f"{path}: python leaf {a!r} vs {b!r}"
        return None
    if isinstance(a, (tuple, list, dict)):
        return f"{path}: container {type(a).__name__} vs leaf"
    if not (is_arraylike(a) or isinstance(a, (bool, int, float))):
        return f"{path}: leaf of type {type(a).__name__} vs {type(b).__name__}"
    if not loose and is_arraylike(b):
        if not is_arraylike(a):
            return f"{path}: leaf type {type(a).__name__} vs array"
    x, y = np.asarray(a), np.asarray(b)
    if x.shape != y.shape:
        return f"{path}: shape {x.shape} vs {y.shape}"
    if loose and isinstance(b, (bool, int, float)):
        if x.dtype.kind != {bool: "b", int: "i", float: "f"}[type(b)]:
            return f"{path}: dtype kind {x.dtype} for python {type(b).__name__}"
        y = y.astype(x.dtype)  # the python value as jax stores it
    elif x.dtype != y.dtype:
        return f"{path}: dtype {x.dtype} vs {y.dtype}"
    if not np.array_equal(x.astype(np.float64), y.astype(np.float64)):
        return f"{path}: values differ"
    return None


_MISSING = object()


def contains_instance(x, klass):
    """Does any node/leaf reachable by the reference walker (descending into Diffs) have type klass?"""
    found = []

    def walk(v):
        if isinstance(v, klass):
            found.append(v)
            return
        if isinstance(v, (tuple, list)):
            for c in v:
                walk(c)
        elif isinstance(v, dict):
            for c in v.values():
                walk(c)
        elif _is_pytree_dc(v):
            st = _static_names(v)
            for f in dataclasses.fields(v):
                if f.name not in st:
                    walk(getattr(v, f.name))

    walk(x)
    return bool(found)
